(* LIBBUILD -- the measurement tags of every qubit in the unrolled listing of construct_repetition_code_circuit, for ALL
   descriptions and cycle counts:  ancilla: heralded; parity^cycles (heralded; final for 0 cycles);  data: heralded; final.

   Route: (1) C06's multiset theorem gives WHAT is listed (prog_expanded); (2) LibBuild/Order.v gives that the first
   command's block (heralded initialisation) is listed before everything else; (3) all remaining tags of an ancilla are
   equal, so their order is immaterial.  Closed forms of the tag lists are computed on the program text. *)
From Coq Require Import ZArith List Bool Lia Arith Permutation ZifyBool.
Import ListNotations.
From QCE Require Import Base.Prelude Core.Model Core.Run Core.BfsWf C02.Proofs Core.UnrollProofs C06.Proofs C09.Model
  LibBuild.Model LibBuild.Order.
From Gen Require Import Ident Classes.
Open Scope Z_scope.

(* ------------------------------------------------------------------ tags of a qubit's measurements in a list of leaves *)
Definition is_meas_of (q : Z) (l : leaf) : bool := match l_acq l with Some (q', _) => q' =? q | None => false end.
Definition leaf_tag (l : leaf) : Z := match l_acq l with Some (_, t) => t | None => -1 end.     (* Core.Run.entry_to_o oe_tag *)
Definition tags_of (q : Z) (ls : list leaf) : list Z := map leaf_tag (filter (is_meas_of q) ls).
(* ... of a program's expanded leaves *)
Definition ptags (q : Z) (p : list cmd) : list Z := tags_of q (prog_expanded p).

Lemma tags_of_app q l1 l2 : tags_of q (l1 ++ l2) = tags_of q l1 ++ tags_of q l2.
Proof. unfold tags_of. now rewrite filter_app, map_app. Qed.

Lemma tags_of_perm q l1 l2 : Permutation l1 l2 -> Permutation (tags_of q l1) (tags_of q l2).
Proof.
  intros P. unfold tags_of. apply Permutation_map.
  induction P as [|x l l' _ IH | x y l | l l' l'' _ IH1 _ IH2]; simpl.
  - constructor.
  - destruct (is_meas_of q x); [constructor|]; exact IH.
  - destruct (is_meas_of q x), (is_meas_of q y); try apply Permutation_refl. apply perm_swap.
  - etransitivity; eassumption.
Qed.

Lemma tags_of_rep_app q n l : tags_of q (rep_app n l) = rep_app n (tags_of q l).
Proof. induction n as [|n IH]; [reflexivity|]. simpl. now rewrite tags_of_app, IH. Qed.

Lemma rep_app_single {A} (x : A) n : rep_app n [x] = repeat x n.
Proof. induction n as [|n IH]; [reflexivity|]. simpl. now rewrite IH. Qed.

Lemma rep_app_nil {A} n : rep_app n (@nil A) = [].
Proof. induction n as [|n IH]; [reflexivity|]. exact IH. Qed.

Lemma ptags_app q p1 p2 : ptags q (p1 ++ p2) = ptags q p1 ++ ptags q p2.
Proof. unfold ptags, prog_expanded. now rewrite flat_map_app, tags_of_app. Qed.

Lemma ptags_cons q c p : ptags q (c :: p) = ptags q [c] ++ ptags q p.
Proof. apply (ptags_app q [c] p). Qed.

Lemma ptags_nil q : ptags q [] = [].
Proof. reflexivity. Qed.

Lemma ptags_sub q r body : ptags q [CSub r body] = rep_app (Z.to_nat r) (ptags q body).
Proof.
  unfold ptags, prog_expanded. cbn [flat_map]. rewrite app_nil_r, cmd_expanded_sub. apply tags_of_rep_app.
Qed.

Lemma ptags_sub1 q body : ptags q [CSub 1 body] = ptags q body.
Proof. rewrite ptags_sub. change (Z.to_nat 1) with 1%nat. apply rep_app_one. Qed.

(* commands that add a leaf without acquisition contribute nothing *)
Lemma ptags_add_quiet q l r : l_acq l = None -> ptags q [CAdd l r] = [].
Proof. intros H. unfold ptags, prog_expanded, tags_of, is_meas_of. simpl. now rewrite H. Qed.

Lemma ptags_map_quiet {X} q (g : X -> cmd) (xs : list X) : (forall x, ptags q [g x] = []) -> ptags q (map g xs) = [].
Proof.
  intros H. induction xs as [|x xs IH]; [reflexivity|]. cbn [map]. rewrite ptags_cons, H, IH. reflexivity.
Qed.

Lemma ptags_flat_map_quiet {X} q (g : X -> list cmd) (xs : list X) : (forall x, ptags q (g x) = []) -> ptags q (flat_map g xs) = [].
Proof.
  intros H. induction xs as [|x xs IH]; [reflexivity|]. cbn [flat_map]. rewrite ptags_app, H, IH. reflexivity.
Qed.

Lemma ptags_lf q cls qs r : ptags q [CAdd (lf cls qs) r] = [].
Proof. apply ptags_add_quiet. reflexivity. Qed.
Lemma ptags_wait q x r : ptags q [CAdd (lf_wait x) r] = [].
Proof. apply ptags_add_quiet. reflexivity. Qed.

(* measurements *)
Lemma ptags_meas_one q t x : ptags q [meas t x] = if x =? q then [t] else [].
Proof. unfold ptags, prog_expanded, tags_of, is_meas_of, meas, add, lf_meas. simpl. destruct (x =? q); reflexivity. Qed.

Lemma ptags_meas_notin q t xs : ~ In q xs -> ptags q (map (meas t) xs) = [].
Proof.
  induction xs as [|x xs IH]; intros H; [reflexivity|]. cbn [map]. rewrite ptags_cons, ptags_meas_one.
  destruct (x =? q) eqn:E; [apply Z.eqb_eq in E; subst; exfalso; apply H; now left|].
  apply IH. intros Hq. apply H. now right.
Qed.

Lemma ptags_meas_in q t xs : NoDup xs -> In q xs -> ptags q (map (meas t) xs) = [t].
Proof.
  induction xs as [|x xs IH]; intros N H; [destruct H|]. inversion N as [|? ? Nx Nxs]; subst.
  cbn [map]. rewrite ptags_cons, ptags_meas_one. destruct (x =? q) eqn:E.
  - apply Z.eqb_eq in E. subst. rewrite ptags_meas_notin by exact Nx. reflexivity.
  - destruct H as [H|H]; [subst; rewrite Z.eqb_refl in E; discriminate|]. now rewrite IH.
Qed.

(* ------------------------------------------------------------------ the components *)
Lemma ptags_barrier q D : ptags q [barrier D] = [].
Proof. apply ptags_lf. Qed.

Lemma ptags_barrier_if q D b : ptags q (barrier_if D b) = [].
Proof. destruct b; [apply ptags_barrier | reflexivity]. Qed.

Lemma ptags_prep q l : ptags q (map prep l) = [].
Proof. apply ptags_map_quiet. intros x. apply ptags_lf. Qed.

Lemma ptags_init_ops q D init anc : ptags q (init_ops D init anc) = [].
Proof. unfold init_ops. now rewrite ptags_app, !ptags_prep. Qed.

Lemma ptags_circuit_initialize q D init anc : ptags q (circuit_initialize D init anc) = [].
Proof. unfold circuit_initialize. now rewrite !ptags_app, ptags_barrier, ptags_init_ops. Qed.

Lemma ptags_layers q D : forall ls cur, ptags q (layers_cmds D cur ls) = [].
Proof.
  induction ls as [|[gates parks] rest IH]; intros cur; [reflexivity|]. cbn [layers_cmds].
  rewrite !ptags_app, !ptags_barrier_if, IH.
  rewrite !(ptags_map_quiet q) by (intros x; apply ptags_lf). reflexivity.
Qed.

Lemma ptags_refocus q D : ptags q (refocus_cmds D) = [].
Proof.
  unfold refocus_cmds. destruct (r_refocus D); [|reflexivity]. apply ptags_flat_map_quiet. intros x.
  rewrite ptags_cons, (ptags_cons q (add (lf C_Rx180 [x]))). unfold add. now rewrite !ptags_wait, ptags_lf.
Qed.

Lemma ptags_detectors q D : ptags q (detectors D) = [].
Proof. apply ptags_map_quiet. intros x. apply ptags_lf. Qed.
Lemma ptags_observables q D : ptags q (observables D) = [].
Proof. apply ptags_map_quiet. intros x. apply ptags_lf. Qed.
Lemma ptags_coord_shift q D : ptags q [coord_shift D] = [].
Proof. apply ptags_lf. Qed.

Lemma ptags_round q D dd : ptags q (circuit_qec_round D dd) = ptags q (map (meas T_PARITY) (r_anc D)).
Proof.
  unfold circuit_qec_round. rewrite !ptags_app, ptags_layers, ptags_barrier.
  destruct dd; [rewrite ptags_app, ptags_refocus, ptags_barrier|]; now rewrite app_nil_r.
Qed.

Lemma ptags_first_sub q D : ptags q (first_sub D) = ptags q (map (meas T_PARITY) (r_anc D)).
Proof. unfold first_sub. now rewrite !ptags_app, ptags_sub1, ptags_round, ptags_detectors, ptags_coord_shift, !app_nil_r. Qed.
Lemma ptags_second_sub q D : ptags q (second_sub D) = ptags q (map (meas T_PARITY) (r_anc D)).
Proof.
  unfold second_sub. rewrite !ptags_app, ptags_sub1, ptags_round, ptags_detectors.
  rewrite (ptags_cons q (coord_shift D)), ptags_coord_shift, ptags_barrier. now rewrite !app_nil_r.
Qed.
Lemma ptags_third_sub q D : ptags q (third_sub D) = ptags q (map (meas T_PARITY) (r_anc D)).
Proof. unfold third_sub. now rewrite !ptags_app, ptags_sub1, ptags_round, ptags_detectors, ptags_coord_shift, !app_nil_r. Qed.

(* number of QEC rounds scheduled for `cycles` >= 1: first block x min(2, cycles-1), second x (cycles-3), third x 1 *)
Lemma rounds_total cycles : 1 <= cycles ->
  ((if cycles >? 1 then Z.to_nat (Z.min 2 (cycles - 1)) else 0) + (if cycles >? 3 then Z.to_nat (cycles - 2 - 1) else 0) + 1)%nat
  = Z.to_nat cycles.
Proof. intros H. destruct (Z.gtb_spec cycles 1), (Z.gtb_spec cycles 3); lia. Qed.

Lemma ptags_qec_pos q D cycles : 1 <= cycles ->
  ptags q (circuit_qec_with_detectors D cycles) = rep_app (Z.to_nat cycles) (ptags q (map (meas T_PARITY) (r_anc D))).
Proof.
  intros H. unfold circuit_qec_with_detectors. assert (E0 : (cycles =? 0) = false) by lia. rewrite E0.
  rewrite <- (rounds_total cycles H), !rep_app_add, !ptags_app, <- app_assoc. f_equal; [|f_equal].
  - destruct (cycles >? 1); [now rewrite ptags_sub, ptags_first_sub | reflexivity].
  - destruct (cycles >? 3); [now rewrite ptags_sub, ptags_second_sub | reflexivity].
  - now rewrite ptags_sub1, ptags_third_sub, rep_app_one.
Qed.

Lemma ptags_qec_zero q D : ptags q (circuit_qec_with_detectors D 0) = ptags q (map (meas T_FINAL) (r_anc D)).
Proof. reflexivity. Qed.

Lemma ptags_heralded_init q D init anc :
  ptags q (circuit_initialize_with_heralded D init anc) = ptags q (map (meas T_HERALDED) (r_qubits D)).
Proof.
  unfold circuit_initialize_with_heralded. rewrite !ptags_app, ptags_sub1, ptags_circuit_initialize.
  rewrite (ptags_map_quiet q) by (intros x; apply ptags_lf). now rewrite app_nil_r.
Qed.

(* ------------------------------------------------------------------ hypotheses on the description *)
Definition desc_ok (D : rdesc) : Prop :=
  NoDup (r_qubits D) /\ NoDup (r_anc D) /\ NoDup (r_data D)
  /\ incl (r_anc D) (r_qubits D) /\ incl (r_data D) (r_qubits D)
  /\ (forall q, In q (r_anc D) -> ~ In q (r_data D)).

Definition want_anc_tags (cycles : Z) : list Z :=
  T_HERALDED :: (if cycles =? 0 then [T_FINAL] else repeat T_PARITY (Z.to_nat cycles)).

(* what the first command contributes / what all the others contribute *)
Definition first_cmd (D : rdesc) (init anc : list bool) : cmd := CSub 1 (circuit_initialize_with_heralded D init anc).
Definition other_cmds (D : rdesc) (cycles : Z) : list cmd :=
  [CSub 1 (circuit_qec_with_detectors D cycles); CSub 1 (circuit_final_measurement D)] ++ detectors D ++ observables D.

Lemma rep_code_prog_split D init anc cycles : rep_code_prog D init anc cycles = first_cmd D init anc :: other_cmds D cycles.
Proof. reflexivity. Qed.

Lemma ptags_first_cmd q D init anc : desc_ok D -> In q (r_qubits D) -> ptags q [first_cmd D init anc] = [T_HERALDED].
Proof.
  intros (NQ & _) H. unfold first_cmd. rewrite ptags_sub1, ptags_heralded_init. now apply ptags_meas_in.
Qed.

Lemma ptags_other_anc a D cycles : desc_ok D -> 0 <= cycles -> In a (r_anc D) ->
  ptags a (other_cmds D cycles) = if cycles =? 0 then [T_FINAL] else repeat T_PARITY (Z.to_nat cycles).
Proof.
  intros (_ & NA & _ & _ & _ & Dis) Hc Ha. unfold other_cmds.
  rewrite !ptags_app, (ptags_cons a (CSub 1 (circuit_qec_with_detectors D cycles))), !ptags_sub1.
  rewrite ptags_detectors, ptags_observables. unfold circuit_final_measurement.
  rewrite (ptags_meas_notin a T_FINAL (r_data D)) by (apply Dis; exact Ha). rewrite !app_nil_r.
  destruct (cycles =? 0) eqn:E.
  - apply Z.eqb_eq in E. subst. rewrite ptags_qec_zero. now apply ptags_meas_in.
  - rewrite ptags_qec_pos by lia. rewrite (ptags_meas_in a T_PARITY (r_anc D) NA Ha). apply rep_app_single.
Qed.

Lemma ptags_other_data q D cycles : desc_ok D -> 0 <= cycles -> In q (r_data D) -> ptags q (other_cmds D cycles) = [T_FINAL].
Proof.
  intros (_ & _ & ND & _ & _ & Dis) Hc Hq. unfold other_cmds.
  assert (Hn : ~ In q (r_anc D)) by (intros Ha; exact (Dis q Ha Hq)).
  rewrite !ptags_app, (ptags_cons q (CSub 1 (circuit_qec_with_detectors D cycles))), !ptags_sub1.
  rewrite ptags_detectors, ptags_observables. unfold circuit_final_measurement.
  rewrite (ptags_meas_in q T_FINAL (r_data D) ND Hq). rewrite !app_nil_r.
  destruct (cycles =? 0) eqn:E.
  - apply Z.eqb_eq in E. subst. rewrite ptags_qec_zero. now rewrite ptags_meas_notin.
  - rewrite ptags_qec_pos by lia. rewrite ptags_meas_notin by exact Hn. now rewrite rep_app_nil.
Qed.

(* ------------------------------------------------------------------ the theorems on the unrolled listing *)
Definition unrolled_leaves (env : denv) (p : list cmd) : list leaf :=
  map e_leaf (listing env (apply_modifiers env 1 (run_prog env p))).

Theorem anc_tags env D init anc cycles a :
  desc_ok D -> 0 <= cycles -> unroll_small_prog (rep_code_prog D init anc cycles) -> In a (r_anc D) ->
  tags_of a (unrolled_leaves env (rep_code_prog D init anc cycles)) = want_anc_tags cycles.
Proof.
  intros K Hc S Ha. unfold unrolled_leaves. rewrite rep_code_prog_split in *.
  destruct (unrolled_first_block env _ _ S) as (A & B & -> & PA & PB).
  rewrite tags_of_app. unfold want_anc_tags.
  assert (HA : tags_of a A = [T_HERALDED]).
  { apply Permutation_length_1_inv. symmetry.
    rewrite (tags_of_perm a _ _ PA).
    pose proof (ptags_first_cmd a D init anc K) as H. unfold ptags, prog_expanded in H. cbn [flat_map] in H.
    rewrite app_nil_r in H. rewrite H; [reflexivity|]. destruct K as (_ & _ & _ & I & _). now apply I. }
  rewrite HA. cbn [app]. f_equal.
  pose proof (tags_of_perm a _ _ PB) as P. fold (ptags a (other_cmds D cycles)) in P.
  rewrite (ptags_other_anc a D cycles K Hc Ha) in P.
  destruct (cycles =? 0).
  - apply Permutation_length_1_inv. symmetry. exact P.
  - apply Permutation_repeat. exact P.
Qed.

Theorem data_tags env D init anc cycles q :
  desc_ok D -> 0 <= cycles -> unroll_small_prog (rep_code_prog D init anc cycles) -> In q (r_data D) ->
  tags_of q (unrolled_leaves env (rep_code_prog D init anc cycles)) = [T_HERALDED; T_FINAL].
Proof.
  intros K Hc S Hq. unfold unrolled_leaves. rewrite rep_code_prog_split in *.
  destruct (unrolled_first_block env _ _ S) as (A & B & -> & PA & PB).
  rewrite tags_of_app.
  assert (HA : tags_of q A = [T_HERALDED]).
  { apply Permutation_length_1_inv. symmetry. rewrite (tags_of_perm q _ _ PA).
    pose proof (ptags_first_cmd q D init anc K) as H. unfold ptags, prog_expanded in H. cbn [flat_map] in H.
    rewrite app_nil_r in H. rewrite H; [reflexivity|]. destruct K as (_ & _ & _ & _ & I & _). now apply I. }
  rewrite HA. cbn [app]. f_equal.
  pose proof (tags_of_perm q _ _ PB) as P. fold (ptags q (other_cmds D cycles)) in P.
  rewrite (ptags_other_data q D cycles K Hc Hq) in P.
  apply Permutation_length_1_inv. symmetry. exact P.
Qed.
