(* LIBBUILD -- MultiRoundCheck.inst_rf evaluated for the distance-3 chain, without refocusing (vm_compute, about two minutes). *)
From Coq Require Import ZArith List Bool.
From QCE Require Import LibBuild.MultiRoundCheck.

Lemma inst_checked_3f : inst_rf 3 false = true.
Proof. vm_compute. reflexivity. Qed.
