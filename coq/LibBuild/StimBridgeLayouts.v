(* LIBBUILD x C08 x C09 -- the export of the model circuit vs `rep_stim` for the descriptions of the three SHIPPED LAYOUTS
   (every contiguous data-to-data sub-chain, 82 of them, through C09's / C17's model of from_connectivity over the generated
   layout tables; these have park operations and qubit indices that are not in chain order), refocusing on and off, for
   EVERY cycle count the exporter accepts -- with ONE requested state: data values 1, 0, 1, 0, ... and no ancilla values.
   Same method as StimBridgeCycles.v (the repetition count of the second sub-circuit and the round number stay free
   variables in the VM's evaluations); one case per description.  Checked in four chunks (StimBridgeLayouts0..3.v, compiled in parallel). *)
From Coq Require Import ZArith List Bool String Lia.
Import ListNotations.
From QCE Require Import Base.Prelude Core.Model Core.Run C08.Tree C08.Model C08.Proofs Bridge.TreeOfOp C09.Stim C09.Spec C09.Sem
                        C09.Model C09.Proofs LibBuild.Model LibBuild.Cert LibBuild.StimBridge LibBuild.StimBridgeProofs LibBuild.StimBridgeCycles LibBuild.StimBridgeLayoutsDefs
                        LibBuild.StimBridgeLayouts0 LibBuild.StimBridgeLayouts1 LibBuild.StimBridgeLayouts2 LibBuild.StimBridgeLayouts3.
From Gen Require Import Ident Classes Tables Layouts.
Open Scope list_scope.
Open Scope Z_scope.

Lemma layout_descs_chunks : layout_descs = chunk 0 ++ chunk 1 ++ chunk 2 ++ chunk 3.
Proof. vm_compute. reflexivity. Qed.

Lemma layout_descs_checked : Forall (fun D => all_cycles_ok D (lay_state D) []) layout_descs.
Proof.
  rewrite layout_descs_chunks. repeat (apply Forall_app; split);
    [exact chunk0_checked | exact chunk1_checked | exact chunk2_checked | exact chunk3_checked].
Qed.

Theorem layouts_all_cycles : forall L ch rf cycles, In (L, ch) all_layout_subchains -> 0 <= cycles < two64 + 3 ->
  let D := desc_of_layout L ch rf in
  lib_export_opt D (lay_state D) [] cycles = Some (lib_export D (lay_state D) [] cycles)
  /\ skeleton (lib_export D (lay_state D) [] cycles) = skeleton (rep_stim D (lay_state D) [] (Z.to_nat cycles)).
Proof.
  intros L ch rf cycles Hin Hc D. pose proof layout_descs_checked as H. rewrite Forall_forall in H.
  apply (H D); [|exact Hc]. unfold layout_descs. apply in_flat_map. exists (L, ch). split; [exact Hin|].
  unfold D. destruct rf; simpl; auto.
Qed.

(* the record (C09_layout_record carried over) *)
Lemma lay_state_length D : List.length (lay_state D) = List.length (r_data D).
Proof. unfold lay_state, alt_state. now rewrite map_length, seq_length. Qed.

Lemma in_all_layout_subchains L ch : In (L, ch) all_layout_subchains ->
  In L shipped_layouts /\ In ch (sub_chains (chain_of (layout_name L))).
Proof.
  unfold all_layout_subchains. intros H. apply in_flat_map in H as (L' & HL & H). apply in_map_iff in H as (c & E & Hc).
  injection E as -> ->. split; assumption.
Qed.

Theorem layouts_record_all_cycles : forall L ch rf cycles, In (L, ch) all_layout_subchains -> 0 <= cycles < two64 + 3 ->
  let D := desc_of_layout L ch rf in
  exec (gate_part (lib_export D (lay_state D) [] cycles)) = Some (protocol_record (lay_state D) [] (Z.to_nat cycles) rf, [], []).
Proof.
  intros L ch rf cycles Hin Hc D. destruct (layouts_all_cycles L ch rf cycles Hin Hc) as [_ S]. fold D in S.
  destruct (in_all_layout_subchains L ch Hin) as [HL Hch].
  refine (record_of_skeleton D (lay_state D) [] _ _ _ _ _ _ S).
  apply (layout_record L ch rf (lay_state D) [] (Z.to_nat cycles) HL Hch); [apply lay_state_length | simpl; lia].
Qed.
