(* chunk 3 of the layout descriptions (see StimBridgeLayoutsDefs.v) *)
From Coq Require Import ZArith List Bool String Lia.
Import ListNotations.
From QCE Require Import Base.Prelude Core.Model Core.Run C08.Tree C08.Model C08.Proofs Bridge.TreeOfOp C09.Stim C09.Spec C09.Sem
                        C09.Model C09.Proofs LibBuild.Model LibBuild.Cert LibBuild.StimBridge LibBuild.StimBridgeProofs LibBuild.StimBridgeCycles LibBuild.StimBridgeLayoutsDefs.
From Gen Require Import Ident Classes Tables Layouts.
Open Scope list_scope.
Open Scope Z_scope.


Lemma chunk3_checked : Forall (fun D => all_cycles_ok D (lay_state D) []) (chunk 3).
Proof. layouts_solve. Qed.
