(* LIBBUILD -- the tie between the Gallina constructors of LibBuild/Model.v and the real library constructors.

   A case is one call of a library constructor: which constructor with which arguments (description source, refocusing flag,
   data / ancilla initial states, cycle count / rounds list / calibration size and type), the description object as read
   through its public accessors, and the constructed circuit's relation graph in true insertion order (`Lib.Run.lcase`,
   extracted by harness/impl/lib_impl.py), optionally with what the implementation reported as constructed.

   agree : (i)   the description model (C09.Model.desc_of_chain / desc_of_layout) equals the description object;
           (ii)  `run_prog env (<constructor program> D ...)` -- for the multi-round experiment `multi_round_nodes` -- equals
                 the extracted structure NODE FOR NODE: parent pointer, stored relation link, operation; nested blocks with
                 their repetition count, recursively; leaves by class, qubits, qubit_channel, duration strategy, acquisition
                 (qubit, tag) (Model.nodes_eqb);
           (iii) where the case carries the implementation's reports, Core's schedule of the extracted structure reproduces
                 them (Lib.Run.agree_lib), so that the chain  constructor model -> structure -> listing / times  is closed.
   spec_ok : LIBBUILD is not one of the 19 properties; it exists so that `./check LIBBUILD` runs this tie.  The judge is
             therefore a statement of the LibBuild theorems on the implementation's own report, without the model: for the
             full constructor, when the unrolled listing was reported, every ancilla's measurement tags read
             heralded; parity^cycles (heralded; final for 0 cycles) and every data qubit's heralded; final
             (LibBuild_anc_tags / C13's block_tags on the real listing); all other cases: true. *)
From Coq Require Import ZArith List Bool String.
Import ListNotations.
From QCE Require Import Base.Prelude Core.Model Core.Run Lib.Run C09.Model LibBuild.Model.
From Gen Require Import Ident Classes Layouts.
Open Scope Z_scope.

Inductive ctor :=
| KRep (cycles : Z)                    (* construct_repetition_code_circuit *)
| KSimp (cycles : Z)                   (* construct_repetition_code_circuit_simplified *)
| KMulti (rounds : list Z)             (* construct_repetition_code_multi_round_circuit *)
| KCalib (n : Z) (qutrit : bool)       (* construct_calibration_circuit over qubits 0 .. n-1 *)
| KError.                              (* the implementation raised *)

Inductive desc_src :=
| SrcChain (len : Z)                                     (* RepetitionCodeDescription.from_chain(length) *)
| SrcLayout (name : string) (involved : list string)     (* from_connectivity(involved, <layout>()) *)
| SrcNone.                                               (* calibration: no description *)

Record case := MkCase {
  k_ctor : ctor; k_src : desc_src; k_refocus : bool;
  k_desc : option rdesc;           (* the description object, through its accessors *)
  k_init : list bool; k_anc : list bool;
  k_lib : lcase                    (* extracted structure, duration setting, reports *)
}.

Definition desc_model (c : case) : option rdesc :=
  match k_src c with
  | SrcChain len =>
      if Z.odd len && (0 <? len) then Some (desc_of_chain (Z.to_nat ((len + 1) / 2)) (k_refocus c)) else None
  | SrcLayout name inv =>
      match layout_named name with
      | Some L => if existsb (strs_eqb inv) (sub_chains (chain_of name)) then Some (desc_of_layout L inv (k_refocus c)) else None
      | None => None
      end
  | SrcNone => None
  end.

(* the structure the constructor model builds for the case *)
Definition model_nodes (c : case) : option (list node) :=
  let env := lc_env (k_lib c) in
  match k_ctor c, desc_model c with
  | KRep cycles, Some D => Some (run_prog env (rep_code_prog D (k_init c) (k_anc c) cycles))
  | KSimp cycles, Some D => Some (run_prog env (simplified_prog D (k_init c) (k_anc c) cycles))
  | KMulti rounds, Some D => multi_round_nodes env D (k_init c) (k_anc c) rounds
  | KCalib n qutrit, _ => Some (run_prog env (calibration_prog (zrange 0 n) qutrit))
  | _, _ => None
  end.

Definition desc_agree (c : case) : bool :=
  match k_ctor c with
  | KCalib _ _ => true
  | _ => match desc_model c, k_desc c with Some D, Some Dobj => rdesc_eqb D Dobj | _, _ => false end
  end.

Definition structure_agree (c : case) : bool :=
  match model_nodes c with Some ns => nodes_eqb ns (lc_nodes (k_lib c)) | None => false end.

(* Lib.Run.agree_lib restricted to the reports a case carries (the VM is strict: nothing is scheduled for an absent report) *)
Definition reports_agree (l : lcase) : bool :=
  let env := lc_env l in
  let ns := lc_nodes l in
  (match lc_plain l with Some _ => lobs_agree (model_obs env ns) (lc_plain l) | None => true end)
  && (match lc_unrolled l with Some _ => lobs_agree (model_obs env (apply_modifiers env 1 ns)) (lc_unrolled l) | None => true end).

Definition agree (c : case) : bool := desc_agree c && structure_agree c && reports_agree (k_lib c).

(* ------------------------------------------------------------------ the judge (see the header) *)
Definition is_meas_on (q : Z) (o : oentry) : bool :=
  (oe_cls o =? C_DispersiveMeasure) && chans_eqb (oe_chans o) [ch q QubitChannel_READOUT].
Definition tags_on (q : Z) (l : list oentry) : list Z := map oe_tag (filter (is_meas_on q) l).
Definition want_anc_tags (cycles : Z) : list Z :=
  T_HERALDED :: (if cycles =? 0 then [T_FINAL] else repeat T_PARITY (Z.to_nat cycles)).

(* LibBuild_chain_n_meas / LibBuild_chain_n_ops as numbers: chain of distance d, k prepared ancilla states *)
Definition chain_meas_formula (d cycles : Z) : Z := (2 * d - 1) + (if cycles =? 0 then 1 else cycles) * (d - 1) + d.
Definition chain_ops_formula (d k cycles : Z) : Z :=
  if cycles =? 0 then 9 * d + k - 2 else 16 * d + k - 2 + 11 * d * (cycles - 1) + Z.max 0 (cycles - 3).
Definition count_ok (c : case) (cycles : Z) (u : lobs) : bool :=
  match k_src c with
  | SrcChain len =>
      let d := (len + 1) / 2 in
      let k := Z.of_nat (List.length (k_anc c)) in
      if (2 <=? d) && (0 <=? cycles) && (Z.of_nat (List.length (k_init c)) =? d) && (k <=? d - 1)
      then (Z.of_nat (List.length (filter (fun o => oe_cls o =? C_DispersiveMeasure) (lo_ops u))) =? chain_meas_formula d cycles)
           && (if k_refocus c then Z.of_nat (List.length (lo_ops u)) =? chain_ops_formula d k cycles else true)
      else true
  | _ => true
  end.

Definition spec_ok (c : case) : bool :=
  match k_ctor c, k_desc c, lc_unrolled (k_lib c) with
  | KRep cycles, Some Dobj, Some u =>
      forallb (fun a => list_eqb Z.eqb (tags_on a (lo_ops u)) (want_anc_tags cycles)) (r_anc Dobj)
      && forallb (fun q => list_eqb Z.eqb (tags_on q (lo_ops u)) [T_HERALDED; T_FINAL]) (r_data Dobj)
      && count_ok c cycles u
  | KError, _, _ => false
  | _, _, _ => true
  end.

(* informational (reported, not judged): the two halves of the tie separately *)
Definition agree_structure_only (c : case) : bool := structure_agree c.
Definition agree_desc_only (c : case) : bool := desc_agree c.
