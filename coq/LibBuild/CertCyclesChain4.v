(* LIBBUILD x C10 -- (partial) the chain of distance 4: EVERY data state of length 4, ancilla state absent or all ONE (the state
   families of Cert.v), both refocusing flags, EVERY cycle count, as constructed.  Other ancilla states / shorter data states
   are not evaluated (15 x 31 prefix pairs would take about 20 minutes). *)
From Coq Require Import ZArith List Bool Lia.
Import ListNotations.
From QCE Require Import Base.Prelude Core.Model Core.Run Lib.Run C09.Model C10.Model C10.Run C10.Proofs
                        LibBuild.Model LibBuild.Cert LibBuild.CertCycles LibBuild.CertCyclesProofs.
Open Scope list_scope.
Open Scope Z_scope.

Fixpoint cc_all_states (n : nat) : list (list bool) :=
  match n with O => [[]] | S k => flat_map (fun s => [false :: s; true :: s]) (cc_all_states k) end.

Lemma cc_in_all_states : forall n s, List.length s = n -> In s (cc_all_states n).
Proof.
  induction n as [|n IH]; intros [|b s] H; simpl in H; try discriminate; [left; reflexivity|].
  cbn [cc_all_states]. apply in_flat_map. exists s. split; [apply IH; lia|]. destruct b; simpl; auto.
Qed.

(* stated in the exact shape cc_forallb4 takes (no constant to unfold: the kernel compares the two statements syntactically
   instead of evaluating one of them lazily) *)
Lemma chain4_checked :
  forallb (fun rf => forallb (fun i => forallb (fun a => forallb
     ((fun rf i a c => cert_strict (run_prog env0 (rep_code_prog (desc_of_chain 4 rf) i a c))) rf i a) five)
     [[]; [true; true; true]]) (cc_all_states 4)) [true; false] = true.
Proof. vm_cast_no_check (eq_refl true). Qed.

Lemma cc_forallb4 {A B C D} (f : A -> B -> C -> D -> bool) la lb lc ld :
  forallb (fun a => forallb (fun b => forallb (fun c => forallb (f a b c) ld) lc) lb) la = true ->
  forall a b c d, In a la -> In b lb -> In c lc -> In d ld -> f a b c d = true.
Proof.
  intros H a b c d Ha Hb Hc Hd. rewrite forallb_forall in H. specialize (H a Ha). rewrite forallb_forall in H.
  specialize (H b Hb). rewrite forallb_forall in H. specialize (H c Hc). rewrite forallb_forall in H. exact (H d Hd).
Qed.

Lemma chain4_five rf init anc : List.length init = 4%nat -> anc = [] \/ anc = [true; true; true] ->
  forall c, In c five -> cert_strict (run_prog env0 (rep_code_prog (desc_of_chain 4 rf) init anc c)) = true.
Proof.
  intros Hi Ha c Hc.
  assert (Hrf : In rf [true; false]) by (destruct rf; [left | right; left]; reflexivity).
  assert (Hanc : In anc [[]; [true; true; true]]) by (destruct Ha as [-> | ->]; [left | right; left]; reflexivity).
  exact (cc_forallb4 (fun rf i a c => cert_strict (run_prog env0 (rep_code_prog (desc_of_chain 4 rf) i a c)))
                     [true; false] (cc_all_states 4) [[]; [true; true; true]] five chain4_checked
                     rf init anc c Hrf (cc_in_all_states 4 init Hi) Hanc Hc).
Qed.

Theorem chain4_cert_all_cycles_partial : forall rf init anc cycles,
  List.length init = 4%nat -> anc = [] \/ anc = [true; true; true] -> 0 <= cycles ->
  cert_strict (run_prog env0 (rep_code_prog (desc_of_chain 4 rf) init anc cycles)) = true
  /\ cert_no_overlap (run_prog env0 (rep_code_prog (desc_of_chain 4 rf) init anc cycles)) = true.
Proof.
  intros rf init anc cycles Hi Ha Hc.
  destruct (rep_code_certified _ init anc (chain4_five rf init anc Hi Ha) cycles Hc) as (A & B & _). now split.
Qed.

Theorem chain4_no_overlap_plain_all_cycles_partial : forall rf init anc cycles,
  List.length init = 4%nat -> anc = [] \/ anc = [true; true; true] -> 0 <= cycles ->
  forall env, env_nonneg env -> env_parity env ->
    let ns := run_prog env (rep_code_prog (desc_of_chain 4 rf) init anc cycles) in
    no_overlap (o_ops (model_obs env ns)) = true /\ barrier_clear (o_ops (model_obs env ns)) = true
    /\ no_overlap_strict (o_ops (model_obs env ns)) = true.
Proof.
  intros rf init anc cycles Hi Ha Hc.
  exact (proj2 (proj2 (rep_code_certified _ init anc (chain4_five rf init anc Hi Ha) cycles Hc))).
Qed.
