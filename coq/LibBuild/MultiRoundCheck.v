(* LIBBUILD -- the decidable side condition of MultiRoundProofs.multi_anc_tags as a check over the small chains:
   a distance, with or without refocusing, EVERY initial-state / ancilla-state list, round counts 0..RMAX.
   Evaluated in MultiRoundCheck3t.v / MultiRoundCheck3f.v (distance 3, about two minutes each) and MultiRoundInst.v. *)
From Coq Require Import ZArith List Bool Lia Arith.
Import ListNotations.
From QCE Require Import Base.Prelude Core.Model Core.Run Core.BfsProofs C06.Proofs C09.Model C09.ProofsBits C12.Model C13.Model C13.Proofs
  LibBuild.Model LibBuild.Tags LibBuild.Counts LibBuild.Chain LibBuild.Layouts LibBuild.MultiRound LibBuild.MultiRoundProofs.
From Gen Require Import Ident Classes Kernels.
Open Scope Z_scope.

Definition RMAX : Z := 4.

(* ------------------------------------------------------------------ only the first |data| / |ancilla| states are read *)
Lemma combine_firstn {A B} (l : list A) (l' : list B) : combine l (firstn (length l) l') = combine l l'.
Proof. revert l'. induction l as [|x l IH]; intros [|y l']; cbn; try reflexivity. now rewrite IH. Qed.

Lemma rep_code_prog_firstn D init anc r :
  rep_code_prog D (firstn (length (r_data D)) init) (firstn (length (r_anc D)) anc) r = rep_code_prog D init anc r.
Proof.
  unfold rep_code_prog, circuit_initialize_with_heralded, circuit_initialize, init_ops. now rewrite !combine_firstn.
Qed.

Lemma multi_round_rounds_ext env D i1 a1 i2 a2 : (forall r, rep_code_prog D i1 a1 r = rep_code_prog D i2 a2 r) ->
  forall rounds ns, multi_round_rounds env D i1 a1 rounds ns = multi_round_rounds env D i2 a2 rounds ns.
Proof.
  intros H. induction rounds as [|r t IH]; intros ns; [reflexivity|]. cbn [multi_round_rounds]. rewrite (H r).
  destruct (flatten env _); [apply IH | reflexivity].
Qed.

Lemma circuit_tags_firstn env D init anc rounds a :
  circuit_tags env D (firstn (length (r_data D)) init) (firstn (length (r_anc D)) anc) rounds a = circuit_tags env D init anc rounds a.
Proof.
  unfold circuit_tags, multi_round_nodes. now rewrite (multi_round_rounds_ext env D _ _ init anc (rep_code_prog_firstn D init anc)).
Qed.

(* all lists of booleans of length at most n *)
Fixpoint bools_exact (n : nat) : list (list bool) :=
  match n with O => [[]] | S k => flat_map (fun l => [true :: l; false :: l]) (bools_exact k) end.
Definition bools_upto (n : nat) : list (list bool) := flat_map bools_exact (seq 0 (S n)).

Lemma bools_exact_In l : In l (bools_exact (length l)).
Proof.
  induction l as [|b l IH]; [now left|]. cbn [length bools_exact]. apply in_flat_map. exists l. split; [exact IH|].
  destruct b; cbn; auto.
Qed.

Lemma bools_upto_In n l : (length l <= n)%nat -> In l (bools_upto n).
Proof. intros H. apply in_flat_map. exists (length l). split; [apply in_seq; lia | apply bools_exact_In]. Qed.

(* ------------------------------------------------------------------ the check *)
Definition inst_ok (d : nat) (rf : bool) (init anc : list bool) (r : Z) : bool :=
  let D := desc_of_chain d rf in
  block_in_order D init anc r && (Z.of_nat (n_ops (rep_code_prog D init anc r)) <=? 4999).

Definition inst_rf (d : nat) (rf : bool) : bool :=
  forallb (fun init => forallb (fun anc => forallb (inst_ok d rf init anc) (zrange_n 0 (Z.to_nat (RMAX + 1))))
                               (bools_upto (d - 1))) (bools_upto d).

Lemma inst_rf_spec d rf init anc r : inst_rf d rf = true -> (length init <= d)%nat -> (length anc <= d - 1)%nat -> 0 <= r <= RMAX ->
  inst_ok d rf init anc r = true.
Proof.
  intros H Li La Hr. unfold inst_rf in H.
  rewrite forallb_forall in H. specialize (H init (bools_upto_In d init Li)).
  rewrite forallb_forall in H. specialize (H anc (bools_upto_In (d - 1) anc La)).
  rewrite forallb_forall in H. apply H. apply zrange_n_In. unfold RMAX in *. lia.
Qed.
