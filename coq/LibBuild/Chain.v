(* LIBBUILD -- the chain description RepetitionCodeDescription.from_chain(2d - 1) of EVERY distance d >= 2: it satisfies the
   hypotheses of the tag / count theorems, its QEC round has 10d (7d without refocusing) operations, and the listing-size
   hypothesis becomes two numeric inequalities in d and the cycle count. *)
From Coq Require Import ZArith List Bool Lia Arith Permutation.
Import ListNotations.
From QCE Require Import Base.Prelude Core.Model Core.Run Core.BfsWf C02.Proofs Core.UnrollProofs C06.Proofs C09.Model
  C09.ProofsSem C09.ProofsBits C09.ProofsInit C09.ProofsWf LibBuild.Model LibBuild.Order LibBuild.Tags LibBuild.Counts.
From Gen Require Import Ident Classes.
Open Scope nat_scope.

Lemma zrange_n_NoDup a n : NoDup (zrange_n a n).
Proof.
  revert a. induction n as [|n IH]; intros a; simpl; constructor; [|apply IH].
  rewrite zrange_n_In. lia.
Qed.

Lemma chain_data d rf : r_data (desc_of_chain d rf) = evens_from 0 d. Proof. reflexivity. Qed.
Lemma chain_anc d rf : r_anc (desc_of_chain d rf) = evens_from 1 (d - 1). Proof. reflexivity. Qed.
Lemma chain_qubits d rf : r_qubits (desc_of_chain d rf) = zrange_n 0 (2 * d - 1). Proof. reflexivity. Qed.
Lemma chain_refocus d rf : r_refocus (desc_of_chain d rf) = rf. Proof. reflexivity. Qed.

Theorem chain_desc_ok d rf : desc_ok (desc_of_chain d rf).
Proof.
  unfold desc_ok. rewrite chain_data, chain_anc, chain_qubits.
  split; [apply zrange_n_NoDup|]. split; [apply evens_from_NoDup|]. split; [apply evens_from_NoDup|].
  split; [|split].
  - intros a Ha. apply evens_from_In in Ha as (j & Hj & ->). apply zrange_n_In. lia.
  - intros q Hq. apply evens_from_In in Hq as (j & Hj & ->). apply zrange_n_In. lia.
  - intros q Ha Hq. apply evens_from_In in Ha as (j & Hj & ->). apply evens_from_In in Hq as (j' & Hj' & E). lia.
Qed.

(* for d >= 2 the two gate layers are both present *)
Lemma chain_layers k rf :
  combine (r_gates (desc_of_chain (S (S k)) rf)) (r_parks (desc_of_chain (S (S k)) rf))
  = [(layer0 (evens_from 1 (S (S k) - 1)), []); (layer1 (evens_from 1 (S (S k) - 1)), [])].
Proof. reflexivity. Qed.

Lemma filter_not_mem_self (A : list Z) : filter (fun q => negb (zmem q A)) A = [].
Proof.
  assert (H : forall l, (forall q, In q l -> In q A) -> filter (fun q => negb (zmem q A)) l = []).
  { induction l as [|x l IH]; intros S; [reflexivity|]. simpl.
    assert (E : zmem x A = true) by (apply zmem_In, S; now left). rewrite E. simpl. apply IH. intros q Hq. apply S. now right. }
  apply H. auto.
Qed.

Lemma filter_not_mem_nil (A : list Z) : filter (fun q => negb (zmem q [])) A = A.
Proof. induction A as [|x A IH]; [reflexivity|]. cbn [filter]. change (negb (zmem x [])) with true. cbv iota. now rewrite IH. Qed.

Lemma chain_layers_length k rf :
  length (layers_cmds (desc_of_chain (S (S k)) rf) []
            (combine (r_gates (desc_of_chain (S (S k)) rf)) (r_parks (desc_of_chain (S (S k)) rf))))
  = 6 * (S (S k) - 1) + 5.
Proof.
  rewrite chain_layers. set (d := S (S k)). set (A := evens_from 1 (d - 1)).
  assert (LA : length A = d - 1) by apply evens_from_length.
  assert (NA : nonempty A = true) by reflexivity.
  cbn [layers_cmds]. rewrite chain_anc. fold A.
  assert (E0 : active A (layer0 A) = A) by (apply (active_layer0 d A); auto).
  assert (E1 : active A (layer1 A) = A) by (apply (active_layer1 d A); auto).
  rewrite E0, E1.
  rewrite filter_not_mem_nil, filter_not_mem_self, NA.
  assert (N0 : nonempty (layer0 A) = true) by reflexivity.
  assert (N1 : nonempty (layer1 A) = true) by reflexivity.
  rewrite N0, N1. cbn [nonempty orb barrier_if map app].
  unfold layer0, layer1. repeat progress (rewrite ?app_length, ?map_length; cbn [length]). lia.
Qed.

Lemma chain_refocus_length d rf : length (refocus_cmds (desc_of_chain d rf)) = if rf then 3 * d else 0.
Proof.
  unfold refocus_cmds. rewrite chain_refocus, chain_data. destruct rf; [|reflexivity].
  assert (H : forall (l : list Z), length (flat_map (fun q => [add (lf_wait q); add (lf C_Rx180 [q]); add (lf_wait q)]) l) = 3 * length l).
  { induction l as [|x l IH]; [reflexivity|]. cbn [flat_map]. rewrite app_length, IH. simpl length. lia. }
  rewrite H, evens_from_length. reflexivity.
Qed.

(* the QEC round of a chain: 10d operations with refocusing, 7d without; 7d - 1 for the round without decoupling *)
Theorem chain_round_len k rf :
  round_len (desc_of_chain (S (S k)) rf) true = (if rf then 10 * S (S k) else 7 * S (S k))
  /\ round_len (desc_of_chain (S (S k)) rf) false = 7 * S (S k) - 1.
Proof.
  rewrite !round_len_eq. unfold round_quiet. rewrite chain_layers_length, chain_refocus_length, chain_anc, evens_from_length.
  destruct rf; lia.
Qed.

(* the listing-size hypothesis for a chain, numerically *)
Theorem chain_size_cond d rf cycles : 2 <= d -> (10 * Z.of_nat d <= 4999)%Z ->
  ((Z.of_nat d + 2) * Z.max 2 (cycles - 3) <= 4999)%Z -> size_cond (desc_of_chain d rf) cycles.
Proof.
  intros Hd H1 H2. destruct d as [|[|k]]; try lia. destruct (chain_round_len k rf) as [RT _].
  unfold size_cond. rewrite RT, chain_qubits, chain_anc, chain_data, zrange_n_length, !evens_from_length.
  repeat split; try lia. destruct rf; lia.
Qed.

Corollary chain_small d rf init anc cycles : 2 <= d -> (10 * Z.of_nat d <= 4999)%Z ->
  ((Z.of_nat d + 2) * Z.max 2 (cycles - 3) <= 4999)%Z ->
  unroll_small_prog (rep_code_prog (desc_of_chain d rf) init anc cycles).
Proof. intros. apply rep_code_small. apply chain_size_cond; assumption. Qed.

(* ------------------------------------------------------------------ tags, for every distance and cycle count *)
Theorem chain_anc_tags env d rf init anc cycles a : 2 <= d -> (10 * Z.of_nat d <= 4999)%Z -> (0 <= cycles)%Z ->
  ((Z.of_nat d + 2) * Z.max 2 (cycles - 3) <= 4999)%Z -> In a (evens_from 1 (d - 1)) ->
  tags_of a (unrolled_leaves env (rep_code_prog (desc_of_chain d rf) init anc cycles)) = want_anc_tags cycles.
Proof.
  intros Hd H1 Hc H2 Ha. apply anc_tags; [apply chain_desc_ok | exact Hc | apply chain_small; assumption | exact Ha].
Qed.

Theorem chain_data_tags env d rf init anc cycles q : 2 <= d -> (10 * Z.of_nat d <= 4999)%Z -> (0 <= cycles)%Z ->
  ((Z.of_nat d + 2) * Z.max 2 (cycles - 3) <= 4999)%Z -> In q (evens_from 0 d) ->
  tags_of q (unrolled_leaves env (rep_code_prog (desc_of_chain d rf) init anc cycles)) = [T_HERALDED; T_FINAL].
Proof.
  intros Hd H1 Hc H2 Hq. apply data_tags; [apply chain_desc_ok | exact Hc | apply chain_small; assumption | exact Hq].
Qed.

(* ------------------------------------------------------------------ counts, for every distance and cycle count *)
Theorem chain_n_meas d rf init anc cycles : (0 <= cycles)%Z ->
  n_meas (rep_code_prog (desc_of_chain d rf) init anc cycles)
  = (2 * d - 1) + (if (cycles =? 0)%Z then 1 else Z.to_nat cycles) * (d - 1) + d.
Proof.
  intros H. rewrite n_meas_rep_code by exact H. now rewrite chain_qubits, chain_anc, chain_data, zrange_n_length, !evens_from_length.
Qed.

(* all listed operations after unrolling, data states for every data qubit, k <= d - 1 ancilla states, refocusing on:
   9d + k - 2 for 0 cycles, 16d + k - 2 + 11d (cycles - 1) + max(0, cycles - 3) otherwise *)
Theorem chain_n_ops d init anc cycles : 2 <= d -> (0 <= cycles)%Z -> length init = d -> length anc <= d - 1 ->
  Z.of_nat (n_ops (rep_code_prog (desc_of_chain d true) init anc cycles))
  = (if (cycles =? 0)%Z then 9 * Z.of_nat d + Z.of_nat (length anc) - 2
     else 16 * Z.of_nat d + Z.of_nat (length anc) - 2 + 11 * Z.of_nat d * (cycles - 1) + Z.max 0 (cycles - 3))%Z.
Proof.
  intros Hd Hc Hi Ha. destruct d as [|[|k]]; try lia.
  rewrite n_ops_rep_code by exact Hc.
  unfold init_quiet, sub_quiet, round_quiet, init_ops.
  rewrite chain_layers_length, chain_refocus_length. set (d := S (S k)) in *.
  rewrite !app_length, !map_length, !combine_length, chain_qubits, chain_anc, chain_data, zrange_n_length, !evens_from_length.
  rewrite Hi. replace (Nat.min d d) with d by lia. replace (Nat.min (d - 1) (length anc)) with (length anc) by lia.
  destruct (cycles =? 0)%Z eqn:E; [lia|].
  assert (H1 : (1 <= cycles)%Z) by lia. pose proof (n_rounds cycles H1) as NR.
  assert (N2 : Z.of_nat (n_second cycles) = Z.max 0 (cycles - 3)).
  { unfold n_second. destruct (Z.gtb_spec cycles 3); lia. }
  nia.
Qed.
