(* LIBBUILD -- sizes: (1) how many operations / measurements construct_repetition_code_circuit lists after unrolling, as
   closed formulas, for ALL descriptions and cycle counts; (2) a numeric sufficient condition for the listing-size
   hypothesis `unroll_small_prog`; (3) the chain description of every distance. *)
From Coq Require Import ZArith List Bool Lia Arith Permutation.
Import ListNotations.
From QCE Require Import Base.Prelude Core.Model Core.Run Core.BfsWf C02.Proofs Core.UnrollProofs C06.Proofs C09.Model
  C09.ProofsSem C09.ProofsBits C09.ProofsInit C09.ProofsWf LibBuild.Model LibBuild.Order LibBuild.Tags.
From Gen Require Import Ident Classes.
Open Scope nat_scope.

(* ------------------------------------------------------------------ 1. counting expanded leaves *)
Lemma filter_rep_app {A} (f : A -> bool) n l : filter f (rep_app n l) = rep_app n (filter f l).
Proof. induction n as [|n IH]; [reflexivity|]. simpl. now rewrite filter_app, IH. Qed.

Definition wt (b : bool) : nat := if b then 1 else 0.
Definition is_add (c : cmd) : Prop := match c with CAdd _ _ => True | _ => False end.

Section Count.
  Variable f : leaf -> bool.
  Variables bl bm : bool.
  Hypothesis Hlf : forall cls qs, f (lf cls qs) = bl.
  Hypothesis Hwait : forall q, f (lf_wait q) = bl.
  Hypothesis Hmeas : forall q t, f (lf_meas q t) = bm.

  Definition pc (p : list cmd) : nat := length (filter f (prog_expanded p)).

  Lemma pc_app p1 p2 : pc (p1 ++ p2) = pc p1 + pc p2.
  Proof. unfold pc, prog_expanded. now rewrite flat_map_app, filter_app, app_length. Qed.
  Lemma pc_cons c p : pc (c :: p) = pc [c] + pc p.
  Proof. apply (pc_app [c] p). Qed.
  Lemma pc_sub r body : pc [CSub r body] = Z.to_nat r * pc body.
  Proof.
    unfold pc, prog_expanded. cbn [flat_map]. rewrite app_nil_r, cmd_expanded_sub, filter_rep_app. apply rep_app_length.
  Qed.
  Lemma pc_sub1 body : pc [CSub 1 body] = pc body.
  Proof. rewrite pc_sub. change (Z.to_nat 1) with 1. lia. Qed.

  (* lists of plain adds whose leaves all evaluate to b *)
  Definition all_b (b : bool) (c : cmd) : Prop := match c with CAdd l _ => f l = b | _ => False end.
  Lemma pc_all_b b p : Forall (all_b b) p -> pc p = wt b * length p.
  Proof.
    induction 1 as [|c p Hc _ IH]; [unfold pc; simpl; lia|]. rewrite pc_cons, IH. destruct c as [l r | |]; try contradiction.
    unfold pc, prog_expanded. simpl in *. rewrite Hc. destruct b; simpl; lia.
  Qed.

  Lemma all_b_map {X} b (g : X -> cmd) xs : (forall x, all_b b (g x)) -> Forall (all_b b) (map g xs).
  Proof. intros H. apply Forall_forall. intros c Hc. apply in_map_iff in Hc as (x & <- & _). apply H. Qed.
  Lemma all_b_app b p q : Forall (all_b b) p -> Forall (all_b b) q -> Forall (all_b b) (p ++ q).
  Proof. intros. apply Forall_app. split; assumption. Qed.

  Lemma quiet_barrier D : all_b bl (barrier D). Proof. apply Hlf. Qed.
  Lemma quiet_barrier_if D b : Forall (all_b bl) (barrier_if D b).
  Proof. destruct b; [constructor; [apply quiet_barrier | constructor] | constructor]. Qed.

  Lemma quiet_layers D : forall ls cur, Forall (all_b bl) (layers_cmds D cur ls).
  Proof.
    induction ls as [|[gates parks] rest IH]; intros cur; [constructor|]. cbn [layers_cmds].
    repeat apply all_b_app; try apply quiet_barrier_if; try apply IH; apply all_b_map; intros x; apply Hlf.
  Qed.
  Lemma quiet_refocus D : Forall (all_b bl) (refocus_cmds D).
  Proof.
    unfold refocus_cmds. destruct (r_refocus D); [|constructor]. apply Forall_forall. intros c Hc.
    apply in_flat_map in Hc as (q & _ & [<- | [<- | [<- | []]]]); simpl; auto.
  Qed.
  Lemma quiet_init_ops D init anc : Forall (all_b bl) (init_ops D init anc).
  Proof. unfold init_ops. apply all_b_app; apply all_b_map; intros x; apply Hlf. Qed.
  Lemma quiet_detectors D : Forall (all_b bl) (detectors D).
  Proof. apply all_b_map. intros x. apply Hlf. Qed.
  Lemma quiet_observables D : Forall (all_b bl) (observables D).
  Proof. apply all_b_map. intros x. apply Hlf. Qed.
  Lemma loud_meas t xs : Forall (all_b bm) (map (meas t) xs).
  Proof. apply all_b_map. intros x. apply Hmeas. Qed.

  (* the round: everything but the ancilla measurements is quiet *)
  Definition round_quiet (D : rdesc) (dd : bool) : nat :=
    length (layers_cmds D [] (combine (r_gates D) (r_parks D))) + 1 + (if dd then length (refocus_cmds D) + 1 else 0).

  Lemma pc_round D dd : pc (circuit_qec_round D dd) = wt bl * round_quiet D dd + wt bm * length (r_anc D).
  Proof.
    unfold circuit_qec_round, round_quiet. rewrite !pc_app.
    rewrite (pc_all_b bl _ (quiet_layers D _ _)), (pc_all_b bm _ (loud_meas _ _)), map_length.
    rewrite (pc_all_b bl [barrier D]) by (constructor; [apply quiet_barrier | constructor]).
    destruct dd.
    - rewrite pc_app, (pc_all_b bl _ (quiet_refocus D)).
      rewrite (pc_all_b bl [barrier D]) by (constructor; [apply quiet_barrier | constructor]). simpl length. lia.
    - change (pc []) with 0. simpl length. lia.
  Qed.

  Definition sub_quiet (D : rdesc) (dd : bool) (extra : nat) : nat := round_quiet D dd + length (r_anc D) + 1 + extra.

  Lemma pc_first_sub D : pc (first_sub D) = wt bl * sub_quiet D true 0 + wt bm * length (r_anc D).
  Proof.
    unfold first_sub, sub_quiet. rewrite !pc_app, pc_sub1, pc_round, (pc_all_b bl _ (quiet_detectors D)).
    rewrite (pc_all_b bl [coord_shift D]) by (constructor; [apply Hlf | constructor]).
    unfold detectors. rewrite map_length. simpl length. lia.
  Qed.
  Lemma pc_second_sub D : pc (second_sub D) = wt bl * sub_quiet D true 1 + wt bm * length (r_anc D).
  Proof.
    unfold second_sub, sub_quiet. rewrite !pc_app, pc_sub1, pc_round, (pc_all_b bl _ (quiet_detectors D)).
    rewrite (pc_all_b bl [coord_shift D; barrier D]) by (repeat constructor; apply Hlf).
    unfold detectors. rewrite map_length. simpl length. lia.
  Qed.
  Lemma pc_third_sub D : pc (third_sub D) = wt bl * sub_quiet D false 0 + wt bm * length (r_anc D).
  Proof.
    unfold third_sub, sub_quiet. rewrite !pc_app, pc_sub1, pc_round, (pc_all_b bl _ (quiet_detectors D)).
    rewrite (pc_all_b bl [coord_shift D]) by (constructor; [apply Hlf | constructor]).
    unfold detectors. rewrite map_length. simpl length. lia.
  Qed.

  (* repetitions of the first and of the second (the repeated) block *)
  Definition n_first (cycles : Z) : nat := if (cycles >? 1)%Z then Z.to_nat (Z.min 2 (cycles - 1)) else 0.
  Definition n_second (cycles : Z) : nat := if (cycles >? 3)%Z then Z.to_nat (cycles - 3) else 0.

  Lemma pc_qec D cycles : (1 <= cycles)%Z ->
    pc (circuit_qec_with_detectors D cycles)
    = n_first cycles * pc (first_sub D) + n_second cycles * pc (second_sub D) + pc (third_sub D).
  Proof.
    intros H. unfold circuit_qec_with_detectors, n_first, n_second.
    assert (E0 : (cycles =? 0)%Z = false) by lia. rewrite E0. rewrite !pc_app, pc_sub1.
    destruct (cycles >? 1)%Z; destruct (cycles >? 3)%Z; rewrite ?pc_sub; change (pc []) with 0;
      replace (cycles - 2 - 1)%Z with (cycles - 3)%Z by lia; lia.
  Qed.

  Lemma pc_qec_zero D : pc (circuit_qec_with_detectors D 0) = wt bm * length (r_anc D).
  Proof. change (circuit_qec_with_detectors D 0) with (map (meas T_FINAL) (r_anc D)). now rewrite (pc_all_b bm _ (loud_meas _ _)), map_length. Qed.

  Definition init_quiet (D : rdesc) (init anc : list bool) : nat :=
    length (r_qubits D) + 2 + length (init_ops D init anc).

  Lemma pc_init D init anc :
    pc (circuit_initialize_with_heralded D init anc) = wt bl * init_quiet D init anc + wt bm * length (r_qubits D).
  Proof.
    unfold circuit_initialize_with_heralded, circuit_initialize, init_quiet. rewrite !pc_app, pc_sub1, !pc_app.
    rewrite (pc_all_b bl (map _ (r_qubits D))) by (apply all_b_map; intros x; apply Hlf).
    rewrite (pc_all_b bm _ (loud_meas _ _)), (pc_all_b bl _ (quiet_init_ops D init anc)).
    rewrite (pc_all_b bl [barrier D]) by (constructor; [apply quiet_barrier | constructor]).
    rewrite !map_length. simpl length. lia.
  Qed.

  (* the whole program *)
  Definition qec_count (D : rdesc) (cycles : Z) : nat :=
    if (cycles =? 0)%Z then wt bm * length (r_anc D)
    else n_first cycles * (wt bl * sub_quiet D true 0 + wt bm * length (r_anc D))
         + n_second cycles * (wt bl * sub_quiet D true 1 + wt bm * length (r_anc D))
         + (wt bl * sub_quiet D false 0 + wt bm * length (r_anc D)).

  Theorem pc_rep_code D init anc cycles : (0 <= cycles)%Z ->
    pc (rep_code_prog D init anc cycles)
    = (wt bl * init_quiet D init anc + wt bm * length (r_qubits D))
      + qec_count D cycles
      + wt bm * length (r_data D)
      + wt bl * (length (r_anc D) + length (r_data D)).
  Proof.
    intros H. unfold rep_code_prog, qec_count.
    rewrite pc_app, pc_cons, (pc_cons (CSub 1 (circuit_qec_with_detectors D cycles))), !pc_sub1, pc_app.
    rewrite pc_init, (pc_all_b bl _ (quiet_detectors D)), (pc_all_b bl _ (quiet_observables D)).
    unfold circuit_final_measurement. rewrite (pc_all_b bm _ (loud_meas _ _)).
    unfold detectors, observables. rewrite !map_length.
    destruct (cycles =? 0)%Z eqn:E.
    - apply Z.eqb_eq in E. subst. rewrite pc_qec_zero. lia.
    - rewrite pc_qec by lia. rewrite pc_first_sub, pc_second_sub, pc_third_sub. lia.
  Qed.
End Count.

(* the two instances: every leaf / the measurements *)
Definition has_acq (l : leaf) : bool := match l_acq l with Some _ => true | None => false end.
Definition n_ops (p : list cmd) : nat := length (prog_expanded p).
Definition n_meas (p : list cmd) : nat := length (filter has_acq (prog_expanded p)).

Lemma filter_true {A} (l : list A) : filter (fun _ => true) l = l.
Proof. induction l as [|x l IH]; [reflexivity|]. simpl. now rewrite IH. Qed.

Lemma n_ops_pc p : n_ops p = pc (fun _ => true) p.
Proof. unfold n_ops, pc. now rewrite filter_true. Qed.

(* number of QEC rounds: first block x min(2, cycles-1), the repeated block x (cycles-3), third x 1 *)
Lemma n_rounds cycles : (1 <= cycles)%Z -> n_first cycles + n_second cycles + 1 = Z.to_nat cycles.
Proof. intros H. unfold n_first, n_second. destruct (Z.gtb_spec cycles 1), (Z.gtb_spec cycles 3); lia. Qed.

Theorem n_meas_rep_code D init anc cycles : (0 <= cycles)%Z ->
  n_meas (rep_code_prog D init anc cycles)
  = length (r_qubits D) + (if (cycles =? 0)%Z then 1 else Z.to_nat cycles) * length (r_anc D) + length (r_data D).
Proof.
  intros H. unfold n_meas. change (length (filter has_acq (prog_expanded ?p))) with (pc has_acq p).
  rewrite (pc_rep_code has_acq false true) by (reflexivity || assumption). unfold qec_count.
  destruct (cycles =? 0)%Z eqn:E; [simpl; lia|].
  assert (H1 : (1 <= cycles)%Z) by lia. pose proof (n_rounds cycles H1). simpl wt. nia.
Qed.

Theorem n_ops_rep_code D init anc cycles : (0 <= cycles)%Z ->
  n_ops (rep_code_prog D init anc cycles)
  = init_quiet D init anc + length (r_qubits D)
    + (if (cycles =? 0)%Z then length (r_anc D)
       else n_first cycles * (sub_quiet D true 0 + length (r_anc D))
            + n_second cycles * (sub_quiet D true 1 + length (r_anc D))
            + (sub_quiet D false 0 + length (r_anc D)))
    + length (r_data D) + (length (r_anc D) + length (r_data D)).
Proof.
  intros H. rewrite n_ops_pc. rewrite (pc_rep_code (fun _ => true) true true) by (reflexivity || assumption).
  unfold qec_count. destruct (cycles =? 0)%Z; simpl wt; lia.
Qed.

(* ... and these are the numbers of entries of the unrolled listing *)
Theorem unrolled_n_ops env p : unroll_small_prog p -> length (unrolled_leaves env p) = n_ops p.
Proof. intros S. unfold unrolled_leaves, n_ops. apply Permutation_length. apply unroll_listing_multiset. exact S. Qed.

Lemma filter_perm {A} (f : A -> bool) l1 l2 : Permutation l1 l2 -> Permutation (filter f l1) (filter f l2).
Proof.
  induction 1 as [|x l l' _ IH | x y l | l l' l'' _ IH1 _ IH2]; simpl.
  - constructor.
  - destruct (f x); [constructor|]; exact IH.
  - destruct (f x), (f y); try apply Permutation_refl. apply perm_swap.
  - etransitivity; eassumption.
Qed.

Theorem unrolled_n_meas env p : unroll_small_prog p -> length (filter has_acq (unrolled_leaves env p)) = n_meas p.
Proof.
  intros S. unfold unrolled_leaves, n_meas. apply Permutation_length. apply filter_perm. apply unroll_listing_multiset. exact S.
Qed.

(* ------------------------------------------------------------------ 2. the listing-size hypothesis, numerically *)
Lemma adds_small p : Forall is_add p -> Forall unroll_small_cmd p.
Proof. apply Forall_impl. intros [l r | l t | r b] H; try contradiction. constructor. Qed.

Lemma all_b_is_add f b p : Forall (all_b f b) p -> Forall is_add p.
Proof. apply Forall_impl. intros [l r | l t | r b'] H; simpl in *; auto. Qed.

(* with f = (fun _ => true) and b = true every add qualifies: reuse the lemmas of the section *)
Definition tt_f : leaf -> bool := fun _ => true.
Lemma adds_layers D ls cur : Forall is_add (layers_cmds D cur ls).
Proof. apply (all_b_is_add tt_f true). apply quiet_layers. reflexivity. Qed.
Lemma adds_refocus D : Forall is_add (refocus_cmds D).
Proof. apply (all_b_is_add tt_f true). apply quiet_refocus; reflexivity. Qed.
Lemma adds_init_ops D init anc : Forall is_add (init_ops D init anc).
Proof. apply (all_b_is_add tt_f true). apply quiet_init_ops. reflexivity. Qed.
Lemma adds_detectors D : Forall is_add (detectors D).
Proof. apply (all_b_is_add tt_f true). apply quiet_detectors. reflexivity. Qed.
Lemma adds_observables D : Forall is_add (observables D).
Proof. apply (all_b_is_add tt_f true). apply quiet_observables. reflexivity. Qed.
Lemma adds_meas t xs : Forall is_add (map (meas t) xs).
Proof. apply (all_b_is_add tt_f true). apply (loud_meas tt_f true). reflexivity. Qed.
Lemma adds_map_add {X} (g : X -> leaf) xs : Forall is_add (map (fun x => add (g x)) xs).
Proof. apply Forall_forall. intros c Hc. apply in_map_iff in Hc as (x & <- & _). exact I. Qed.

Lemma adds_round D dd : Forall is_add (circuit_qec_round D dd).
Proof.
  unfold circuit_qec_round. repeat (apply Forall_app; split); try apply adds_layers; try apply adds_meas.
  - repeat constructor.
  - destruct dd; [|constructor]. apply Forall_app. split; [apply adds_refocus | repeat constructor].
Qed.

Definition round_len (D : rdesc) (dd : bool) : nat := length (circuit_qec_round D dd).

Lemma round_len_eq D dd : round_len D dd = round_quiet D dd + length (r_anc D).
Proof.
  unfold round_len, circuit_qec_round, round_quiet. rewrite !app_length, map_length. simpl length.
  destruct dd; [rewrite app_length|]; simpl length; lia.
Qed.

Lemma round_len_false_le D : round_len D false <= round_len D true.
Proof. rewrite !round_len_eq. unfold round_quiet. lia. Qed.

Lemma sub_cmds_small D dd extra :
  (Z.of_nat (round_len D dd) <= 4999)%Z ->
  Forall unroll_small_cmd ([CSub 1 (circuit_qec_round D dd)] ++ detectors D ++ extra) <-> Forall unroll_small_cmd extra.
Proof.
  intros H. rewrite !Forall_app. split; [tauto|]. intros E. split; [|split; [apply adds_small, adds_detectors | exact E]].
  constructor; [|constructor]. constructor; [lia | unfold round_len in H; lia | apply adds_small, adds_round].
Qed.

(* the numeric condition: n = qubits, m = ancillas, d = data qubits; R = length of the round with decoupling *)
Definition size_cond (D : rdesc) (cycles : Z) : Prop :=
  (2 * Z.of_nat (length (r_qubits D)) + 1 <= 4999
   /\ Z.of_nat (round_len D true) <= 4999
   /\ (Z.of_nat (length (r_anc D)) + 3) * Z.max 2 (cycles - 3) <= 4999
   /\ Z.of_nat (length (r_anc D)) + Z.of_nat (length (r_data D)) + 3 <= 4999)%Z.

Lemma init_ops_length D init anc : length (init_ops D init anc) <= length (r_data D) + length (r_anc D).
Proof.
  unfold init_ops. rewrite app_length, !map_length, !combine_length. lia.
Qed.

Theorem rep_code_small D init anc cycles : size_cond D cycles -> unroll_small_prog (rep_code_prog D init anc cycles).
Proof.
  intros (H1 & H2 & H3 & H4). pose proof (round_len_false_le D) as HF.
  assert (Sadd : forall l r, unroll_small_cmd (CAdd l r)) by (intros; constructor).
  split.
  - unfold rep_code_prog, detectors, observables. rewrite !app_length, !map_length. simpl length. lia.
  - unfold rep_code_prog. apply Forall_app. split; [|apply adds_small, Forall_app; split; [apply adds_detectors | apply adds_observables]].
    constructor; [|constructor; [|constructor; [|constructor]]].
    + (* heralded initialisation *)
      pose proof (init_ops_length D init anc) as HI.
      constructor; [lia | |].
      * unfold circuit_initialize_with_heralded. rewrite !app_length, !map_length. simpl length. lia.
      * unfold circuit_initialize_with_heralded. rewrite !Forall_app. split; [apply adds_small, adds_map_add|].
        split; [apply adds_small, adds_meas|]. constructor; [|constructor].
        constructor; [lia | |].
        -- unfold circuit_initialize. rewrite !app_length. simpl length. lia.
        -- apply adds_small. unfold circuit_initialize. apply Forall_app. split; [repeat constructor|].
           apply Forall_app. split; [apply adds_init_ops | repeat constructor].
    + (* QEC part *)
      unfold circuit_qec_with_detectors. destruct (cycles =? 0)%Z eqn:E0.
      * constructor; [lia | rewrite map_length; lia | apply adds_small, adds_meas].
      * assert (L3 : forall r extra, (1 <= r)%Z -> (length extra <= 2)%nat ->
                  (r <= Z.max 2 (cycles - 3))%Z -> Forall unroll_small_cmd extra -> forall dd,
                  unroll_small_cmd (CSub r ([CSub 1 (circuit_qec_round D dd)] ++ detectors D ++ extra))).
        { intros r extra Hr Hl Hm He dd. constructor; [exact Hr | |].
          - rewrite !app_length. unfold detectors. rewrite map_length. simpl length. nia.
          - apply sub_cmds_small; [destruct dd; lia | exact He]. }
        constructor; [lia | |].
        -- rewrite !app_length. destruct (cycles >? 1)%Z, (cycles >? 3)%Z; simpl length; lia.
        -- rewrite !Forall_app. split; [|split].
           ++ destruct (Z.gtb_spec cycles 1); [|constructor]. constructor; [|constructor].
              apply (L3 _ [coord_shift D]); [lia | simpl; lia | lia | repeat constructor].
           ++ destruct (Z.gtb_spec cycles 3); [|constructor]. constructor; [|constructor].
              apply (L3 _ [coord_shift D; barrier D]); [lia | simpl; lia | lia | repeat constructor].
           ++ constructor; [|constructor]. apply (L3 _ [coord_shift D]); [lia | simpl; lia | lia | repeat constructor].
    + (* final measurement *)
      constructor; [lia | unfold circuit_final_measurement; rewrite map_length; lia | apply adds_small, adds_meas].
Qed.
