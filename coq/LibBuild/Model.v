(* LIBBUILD -- the LIBRARY CONSTRUCTORS as Gallina functions that produce Core build programs (`list cmd`, Core/Model.v).

   Mirrored statement by statement from

     library/repetition_code/circuit_components.py
        get_circuit_initialize, get_circuit_initialize_simplified, get_circuit_initialize_with_heralded,
        get_circuit_final_measurement, get_circuit_qec_round, get_circuit_qec_round_with_dynamical_decoupling,
        get_circuit_qec_round_with_dynamical_decoupling_simplified, get_circuit_qec_with_detectors (the 1 / 2 / 3 sub-circuit
        split), RepetitionCodeDescription.get_operations, IRepetitionCodeDescription.get_active_ancilla_indices /
        get_gate_sequence_indices / get_park_sequence_indices (read through the description record `rdesc`)
     library/repetition_code/circuit_constructors.py
        construct_repetition_code_circuit, construct_repetition_code_circuit_simplified,
        construct_repetition_code_multi_round_circuit
     library/state_calibration/circuit_{components,constructors}.py
        get_circuit_calibrate_with_heralded, construct_calibration_circuit
     language/intrf_declarative_circuit.py   InitialStateContainer.get_operation (ZERO -> Identity, ONE -> Rx180)

   Conventions
   * every `result.add(<DeclarativeCircuit>)` is a `CSub reps body` (reps = the added circuit's FixedRepetitionStrategy; the
     copy made by add_sub_circuit is part of Core's run_cmds), every `result.add(<operation>)` a `CAdd leaf r`: r = None
     when the operation is built without a relation or with RelationLink.no_relation() (implicit sequencing), r = Some
     (FOLLOWED_BY, i) when it is built with RelationLink(result.get_last_entry(), FOLLOWED_BY) and i is the index of that
     entry (= number of operations added before it, minus one);
   * a leaf carries the class index of Gen/Classes.v, its qubit fields, qubit_channel (ALL: no library operation passes
     another one), the duration strategy (the class default of the generated table; DDecouple for the refocusing waits)
     and, for measurements, (qubit, tag).  The label is 0: labels are identities handed out by generators, the library has
     none.  DetectorOperation / LogicalObservableOperation arguments (acquisition indices) are not part of a Core leaf and
     are not modelled here (C08 / C09 model them);
   * the description is C09's `rdesc` (qubit / data / ancilla indices, gate and park layers, refocusing flag), i.e. what
     the constructors read through the accessors of a RepetitionCodeDescription: prepare = measure = rotation = all
     qubits, measure_data = rotation_data = observable = data, measure_ancilla = rotation_ancilla = detector = ancilla
     (the harness asserts these equalities on the real object for every case);
   * domain: len(initial data states) <= number of data qubits, len(ancilla states) <= number of ancillas (beyond it the
     implementation raises IndexError; `combine` truncates), and for the simplified round / the calibration block at least
     one operation before the first `get_last_entry()` (otherwise NoReferenceOperationException; here: no relation).
   No proofs in this file. *)
From Coq Require Import ZArith List Bool.
Import ListNotations.
From QCE Require Import Base.Prelude Core.Model Core.Run C09.Model.
From Gen Require Import Ident Classes.
Open Scope Z_scope.

(* acquisition tags, numbered as the harness numbers them (harness/libgen.py LIB_TAGS) *)
Definition T_HERALDED : Z := 3.
Definition T_PARITY : Z := 4.
Definition T_FINAL : Z := 5.

(* ------------------------------------------------------------------ leaves *)
Definition lf (cls : Z) (qs : list Z) : leaf := mk_leaf 0 cls qs QubitChannel_ALL (default_dstrat cls) None.
Definition lf_meas (q tag : Z) : leaf :=
  mk_leaf 0 C_DispersiveMeasure [q] QubitChannel_ALL (default_dstrat C_DispersiveMeasure) (Some (q, tag)).
(* Wait(q, duration_strategy=GlobalDecouplingWaitDurationStrategy()) *)
Definition lf_wait (q : Z) : leaf := mk_leaf 0 C_Wait [q] QubitChannel_ALL DDecouple None.

Definition add (l : leaf) : cmd := CAdd l None.
Definition barrier (D : rdesc) : cmd := add (lf C_Barrier (r_qubits D)).
Definition meas (tag q : Z) : cmd := add (lf_meas q tag).

(* InitialStateContainer.get_operation for the computational-basis states *)
Definition prep_cls (b : bool) : Z := if b then C_Rx180 else C_Identity.
Definition prep (qb : Z * bool) : cmd := add (lf (prep_cls (snd qb)) [fst qb]).

(* RepetitionCodeDescription.get_operations: one operation per given data state (on data_qubit_ids[i]), then one per
   given ancilla state (on ancilla_qubit_ids[i]) *)
Definition init_ops (D : rdesc) (init anc : list bool) : list cmd :=
  map prep (combine (r_data D) init) ++ map prep (combine (r_anc D) anc).

(* ------------------------------------------------------------------ circuit components *)
Definition circuit_initialize (D : rdesc) (init anc : list bool) : list cmd :=
  [barrier D] ++ init_ops D init anc ++ [barrier D].

Definition circuit_initialize_simplified (D : rdesc) (init anc : list bool) : list cmd := init_ops D init anc.

Definition circuit_initialize_with_heralded (D : rdesc) (init anc : list bool) : list cmd :=
  map (fun q => add (lf C_Reset [q])) (r_qubits D)           (* prepare_qubit_indices *)
  ++ map (meas T_HERALDED) (r_qubits D)                      (* measure_qubit_indices *)
  ++ [CSub 1 (circuit_initialize D init anc)].

Definition circuit_final_measurement (D : rdesc) : list cmd := map (meas T_FINAL) (r_data D).

Definition barrier_if (D : rdesc) (b : bool) : list cmd := if b then [barrier D] else [].

(* the loop over the gate sequences shared by get_circuit_qec_round and ..._with_dynamical_decoupling; cur = the active
   ancillas of the previous sequence (C09.Model.active = get_active_ancilla_indices) *)
Fixpoint layers_cmds (D : rdesc) (cur : list Z) (ls : list (list (Z * Z) * list Z)) : list cmd :=
  match ls with
  | [] => []
  | (gates, parks) :: rest =>
      let act := active (r_anc D) gates in
      let req_act := filter (fun q => negb (zmem q cur)) act in
      let req_close := match rest with
                       | [] => act
                       | (g', _) :: _ => filter (fun q => negb (zmem q (active (r_anc D) g'))) act
                       end in
      map (fun q => add (lf C_Ry90 [q])) req_act ++ barrier_if D (nonempty req_act)
      ++ map (fun e => add (lf C_CPhase [fst e; snd e])) gates
      ++ map (fun q => add (lf C_VirtualPark [q])) parks
      ++ barrier_if D (nonempty gates)
      ++ map (fun e => add (lf C_TwoQubitVirtualPhase [fst e; snd e])) gates
      ++ barrier_if D (nonempty gates || nonempty parks)
      ++ map (fun q => add (lf C_Rym90 [q])) req_close
      ++ layers_cmds D act rest
  end.

Definition refocus_cmds (D : rdesc) : list cmd :=
  if r_refocus D then flat_map (fun q => [add (lf_wait q); add (lf C_Rx180 [q]); add (lf_wait q)]) (r_data D) else [].

(* dd = false: get_circuit_qec_round; dd = true: get_circuit_qec_round_with_dynamical_decoupling *)
Definition circuit_qec_round (D : rdesc) (dd : bool) : list cmd :=
  layers_cmds D [] (combine (r_gates D) (r_parks D))
  ++ [barrier D] ++ map (meas T_PARITY) (r_anc D)
  ++ (if dd then refocus_cmds D ++ [barrier D] else []).

Definition detectors (D : rdesc) : list cmd := map (fun a => add (lf C_DetectorOperation [a])) (r_anc D).
Definition coord_shift (D : rdesc) : cmd := add (lf C_CoordinateShiftOperation (r_qubits D)).

(* the three sub-circuits of get_circuit_qec_with_detectors *)
Definition first_sub (D : rdesc) : list cmd := [CSub 1 (circuit_qec_round D true)] ++ detectors D ++ [coord_shift D].
Definition second_sub (D : rdesc) : list cmd :=
  [CSub 1 (circuit_qec_round D true)] ++ detectors D ++ [coord_shift D; barrier D].
Definition third_sub (D : rdesc) : list cmd := [CSub 1 (circuit_qec_round D false)] ++ detectors D ++ [coord_shift D].

Definition circuit_qec_with_detectors (D : rdesc) (cycles : Z) : list cmd :=
  if cycles =? 0 then map (meas T_FINAL) (r_anc D)
  else (if cycles >? 1 then [CSub (Z.min 2 (cycles - 1)) (first_sub D)] else [])
       ++ (if cycles >? 3 then [CSub (cycles - 2 - 1) (second_sub D)] else [])
       ++ [CSub 1 (third_sub D)].

(* ------------------------------------------------------------------ construct_repetition_code_circuit *)
Definition observables (D : rdesc) : list cmd := map (fun q => add (lf C_LogicalObservableOperation [q])) (r_data D).

Definition rep_code_prog (D : rdesc) (init anc : list bool) (cycles : Z) : list cmd :=
  [CSub 1 (circuit_initialize_with_heralded D init anc);
   CSub 1 (circuit_qec_with_detectors D cycles);
   CSub 1 (circuit_final_measurement D)]
  ++ detectors D ++ observables D.

(* ------------------------------------------------------------------ the simplified constructor *)
(* RelationLink(result.get_last_entry(), FOLLOWED_BY) after the commands acc; no relation when nothing was added yet *)
Definition rel_last (acc : list cmd) : option (RelationType * nat) :=
  match acc with [] => None | _ => Some (RelationType_FOLLOWED_BY, (length acc - 1)%nat) end.

Fixpoint simp_layers (D : rdesc) (cur : list Z) (rel_act : option (RelationType * nat)) (acc : list cmd)
                     (ls : list (list (Z * Z) * list Z)) : list cmd :=
  match ls with
  | [] => acc
  | (gates, parks) :: rest =>
      let act := active (r_anc D) gates in
      let req_act := filter (fun q => negb (zmem q cur)) act in
      let req_close := match rest with
                       | [] => act
                       | (g', _) :: _ => filter (fun q => negb (zmem q (active (r_anc D) g'))) act
                       end in
      let acc1 := acc ++ map (fun q => CAdd (lf C_Ry90 [q]) rel_act) req_act in
      let rel_park := rel_last acc1 in
      let acc2 := acc1 ++ map (fun e => CAdd (lf C_CPhase [fst e; snd e]) rel_park) gates
                       ++ map (fun q => CAdd (lf C_VirtualPark [q]) rel_park) parks in
      let rel_act' := rel_last acc2 in
      let acc3 := acc2 ++ map (fun q => CAdd (lf C_Rym90 [q]) rel_act') req_close in
      simp_layers D act rel_act' acc3 rest
  end.

(* get_circuit_qec_round_with_dynamical_decoupling_simplified *)
Definition circuit_qec_round_simplified (D : rdesc) : list cmd :=
  let acc := simp_layers D [] None [] (combine (r_gates D) (r_parks D)) in
  let rel := rel_last acc in
  acc ++ map (fun a => CAdd (lf_meas a T_PARITY) rel) (r_anc D)
  ++ (if r_refocus D
      then flat_map (fun q => [CAdd (lf_wait q) rel; add (lf C_Rx180 [q]); add (lf_wait q)]) (r_data D)
      else []).

Definition simplified_prog (D : rdesc) (init anc : list bool) (cycles : Z) : list cmd :=
  [CSub 1 (circuit_initialize_simplified D init anc);
   barrier D;
   CSub cycles [CSub 1 (circuit_qec_round_simplified D)];
   barrier D;
   CSub 1 (circuit_final_measurement D);
   barrier D].

(* ------------------------------------------------------------------ state calibration *)
(* get_circuit_calibrate_with_heralded(qubit_indices, state): state = 0, 1, 2 *)
Definition calibrate_with_heralded (qs : list Z) (state : Z) : list cmd :=
  let a := map (fun q => add (lf C_Reset [q])) qs ++ map (meas T_HERALDED) qs in
  let rel := rel_last a in
  let b := a ++ flat_map (fun q => if state =? 0 then []
                                   else if state =? 1 then [CAdd (lf C_Rx180 [q]) rel]
                                   else [CAdd (lf C_Rx180 [q]) rel; add (lf C_Rx180ef [q])]) qs in
  let rel2 := rel_last b in
  b ++ map (fun q => CAdd (lf_meas q T_FINAL) rel2) qs.

(* construct_calibration_circuit: QUBIT calibrates states 0, 1; QUTRIT 0, 1, 2 *)
Definition calibration_prog (qs : list Z) (qutrit : bool) : list cmd :=
  [CSub 1 (calibrate_with_heralded qs 0); CSub 1 (calibrate_with_heralded qs 1)]
  ++ (if qutrit then [CSub 1 (calibrate_with_heralded qs 2)] else []).

(* ------------------------------------------------------------------ the multi-round experiment
   per entry r of qec_cycles: construct_repetition_code_circuit(r).apply_modifiers().flatten() added as a sub-circuit,
   then a Barrier; finally the QUTRIT calibration circuit over calibration_qubit_ids (= all qubits).  A flattened circuit
   is not a build program, so the result is given as the node list itself (None where Core's flatten is undefined,
   finding F10 -- it never is for these circuits). *)
Definition add_sub (env : denv) (ns sub : list node) : list node := add_node env ns (OComp 1 (copy_nodes env sub)) LNone.

Fixpoint multi_round_rounds (env : denv) (D : rdesc) (init anc : list bool) (rounds : list Z) (ns : list node)
  : option (list node) :=
  match rounds with
  | [] => Some ns
  | r :: t =>
      match flatten env (apply_modifiers env 1 (run_prog env (rep_code_prog D init anc r))) with
      | Some f => multi_round_rounds env D init anc t
                    (add_node env (add_sub env ns f) (OLeaf (lf C_Barrier (r_qubits D))) LNone)
      | None => None
      end
  end.

Definition multi_round_nodes (env : denv) (D : rdesc) (init anc : list bool) (rounds : list Z) : option (list node) :=
  match multi_round_rounds env D init anc rounds [] with
  | Some ns => Some (add_sub env ns (run_prog env (calibration_prog (r_qubits D) true)))
  | None => None
  end.

(* ------------------------------------------------------------------ structural equality used by the tie *)
Definition gkey_eqb (a b : gkey) : bool :=
  match a, b with
  | GReadout, GReadout | GMicrowave, GMicrowave | GFlux, GFlux | GReset, GReset => true
  | _, _ => false
  end.
Definition dstrat_eqb (a b : dstrat) : bool :=
  match a, b with
  | DFixed x, DFixed y => x =? y
  | DGlobal x, DGlobal y => gkey_eqb x y
  | DRegistry x, DRegistry y => x =? y
  | DDecouple, DDecouple => true
  | _, _ => false
  end.
Definition acq_tag_eqb (a b : option (Z * Z)) : bool :=
  option_eqb (fun x y => (fst x =? fst y) && (snd x =? snd y)) a b.
(* class, qubits, qubit_channel, duration strategy, acquisition (qubit, tag) -- not the label *)
Definition leaf_eqb (a b : leaf) : bool :=
  (l_cls a =? l_cls b) && list_eqb Z.eqb (l_qubits a) (l_qubits b) && QubitChannel_eqb (l_qchan a) (l_qchan b)
  && dstrat_eqb (l_dur a) (l_dur b) && acq_tag_eqb (l_acq a) (l_acq b).
Definition link_eqb (a b : link) : bool :=
  match a, b with
  | LNone, LNone => true
  | LRel t p, LRel t' p' => RelationType_eqb t t' && Nat.eqb p p'
  | LMulti ps, LMulti qs => list_eqb Nat.eqb ps qs
  | LDangling t, LDangling t' => RelationType_eqb t t'
  | _, _ => false
  end.
(* node for node: parent pointer, stored link, operation (nested blocks: repetition count and content, recursively) *)
Fixpoint op_eqb (a b : op) : bool :=
  match a, b with
  | OLeaf x, OLeaf y => leaf_eqb x y
  | OComp r ns, OComp r' ms =>
      (r =? r') && (fix go (l : list node) (l' : list node) : bool :=
                      match l, l' with
                      | [], [] => true
                      | Node p k o :: t, Node p' k' o' :: t' => opt_nat_eqb p p' && link_eqb k k' && op_eqb o o' && go t t'
                      | _, _ => false
                      end) ns ms
  | _, _ => false
  end.
Definition nodes_eqb (a b : list node) : bool := op_eqb (OComp 1 a) (OComp 1 b).
