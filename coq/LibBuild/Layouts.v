(* LIBBUILD -- the tag theorems for the descriptions of the three shipped layouts (every contiguous data-to-data sub-chain,
   through C09's / C17's model of from_connectivity over the generated layout tables), by a decidable check evaluated once;
   and the same statements in the vocabulary of C13 (block_tags). *)
From Coq Require Import ZArith List Bool Lia Arith Permutation String.
Import ListNotations.
From QCE Require Import Base.Prelude Core.Model Core.Run Core.BfsWf C02.Proofs Core.UnrollProofs C06.Proofs C09.Model C09.Wf
  C09.ProofsSem C09.ProofsRound C13.Model C13.Proofs LibBuild.Model LibBuild.Order LibBuild.Tags LibBuild.Counts LibBuild.Chain.
From Gen Require Import Ident Classes Layouts.
Open Scope Z_scope.

(* ------------------------------------------------------------------ decidable hypotheses *)
Definition desc_okb (D : rdesc) : bool :=
  nodupb (r_qubits D) && nodupb (r_anc D) && nodupb (r_data D)
  && forallb (fun q => zmem q (r_qubits D)) (r_anc D) && forallb (fun q => zmem q (r_qubits D)) (r_data D)
  && disjointb (r_anc D) (r_data D).

Lemma desc_okb_ok D : desc_okb D = true -> desc_ok D.
Proof.
  unfold desc_okb, desc_ok. rewrite !andb_true_iff. intros [[[[[H1 H2] H3] H4] H5] H6].
  repeat split; try (apply nodupb_NoDup; assumption).
  - intros q Hq. rewrite forallb_forall in H4. apply zmem_In. auto.
  - intros q Hq. rewrite forallb_forall in H5. apply zmem_In. auto.
  - intros q Ha Hq. apply zmem_In in Ha. pose proof (disjointb_spec _ _ q H6 Ha) as E. apply zmem_false in E. contradiction.
Qed.

(* sizes small enough for every cycle count up to `cmax` *)
Definition size_condb (D : rdesc) (cmax : Z) : bool :=
  (2 * Z.of_nat (List.length (r_qubits D)) + 1 <=? 4999)
  && (Z.of_nat (round_len D true) <=? 4999)
  && ((Z.of_nat (List.length (r_anc D)) + 3) * Z.max 2 (cmax - 3) <=? 4999)
  && (Z.of_nat (List.length (r_anc D)) + Z.of_nat (List.length (r_data D)) + 3 <=? 4999).

Lemma size_condb_ok D cmax cycles : size_condb D cmax = true -> cycles <= cmax -> size_cond D cycles.
Proof.
  unfold size_condb, size_cond. rewrite !andb_true_iff, !Z.leb_le. intros [[[H1 H2] H3] H4] Hc.
  repeat split; try assumption. nia.
Qed.

Definition CMAX : Z := 457.

Lemma layouts_checked :
  forallb (fun Lc => forallb (fun rf => let D := desc_of_layout (fst Lc) (snd Lc) rf in desc_okb D && size_condb D CMAX) [true; false])
          all_layout_subchains = true.
Proof. vm_compute. reflexivity. Qed.

Lemma layout_facts L ch rf : In (L, ch) all_layout_subchains ->
  desc_ok (desc_of_layout L ch rf) /\ forall cycles, cycles <= CMAX -> size_cond (desc_of_layout L ch rf) cycles.
Proof.
  intros Hin. pose proof layouts_checked as H. rewrite forallb_forall in H. specialize (H _ Hin). cbn [fst snd] in H.
  rewrite forallb_forall in H. assert (Hrf : In rf [true; false]) by (destruct rf; simpl; auto).
  specialize (H rf Hrf). cbv zeta in H. apply andb_true_iff in H as [H1 H2].
  split; [apply desc_okb_ok; exact H1 | intros cycles Hc; eapply size_condb_ok; eassumption].
Qed.

Theorem layouts_anc_tags env L ch rf init anc cycles a : In (L, ch) all_layout_subchains -> 0 <= cycles <= CMAX ->
  In a (r_anc (desc_of_layout L ch rf)) ->
  tags_of a (unrolled_leaves env (rep_code_prog (desc_of_layout L ch rf) init anc cycles)) = want_anc_tags cycles.
Proof.
  intros Hin [Hc0 Hc1] Ha. destruct (layout_facts L ch rf Hin) as [K S].
  apply anc_tags; [exact K | exact Hc0 | apply rep_code_small, S; exact Hc1 | exact Ha].
Qed.

Theorem layouts_data_tags env L ch rf init anc cycles q : In (L, ch) all_layout_subchains -> 0 <= cycles <= CMAX ->
  In q (r_data (desc_of_layout L ch rf)) ->
  tags_of q (unrolled_leaves env (rep_code_prog (desc_of_layout L ch rf) init anc cycles)) = [T_HERALDED; T_FINAL].
Proof.
  intros Hin [Hc0 Hc1] Hq. destruct (layout_facts L ch rf Hin) as [K S].
  apply data_tags; [exact K | exact Hc0 | apply rep_code_small, S; exact Hc1 | exact Hq].
Qed.

(* ------------------------------------------------------------------ C13's vocabulary *)
Definition z_of_tag (t : tag) : Z := match t with THeralded => T_HERALDED | TParity => T_PARITY | TFinal => T_FINAL end.

Lemma map_repeat' {A B} (f : A -> B) x n : map f (repeat x n) = repeat (f x) n.
Proof. induction n as [|n IH]; [reflexivity|]. simpl. now rewrite IH. Qed.

Lemma want_anc_tags_block cycles : 0 <= cycles -> want_anc_tags cycles = map z_of_tag (block_tags cycles).
Proof.
  intros H. unfold want_anc_tags, block_tags. cbn [map z_of_tag]. f_equal. destruct (cycles =? 0) eqn:E; [reflexivity|].
  rewrite qec_parity_rounds_eq by lia. now rewrite map_repeat'.
Qed.

(* per block of the multi-round experiment, C13's multi_round_tags assumes exactly this sequence for every ancilla *)
Theorem anc_tags_block env D init anc cycles a :
  desc_ok D -> 0 <= cycles -> unroll_small_prog (rep_code_prog D init anc cycles) -> In a (r_anc D) ->
  tags_of a (unrolled_leaves env (rep_code_prog D init anc cycles)) = map z_of_tag (block_tags cycles).
Proof. intros K Hc S Ha. rewrite <- want_anc_tags_block by exact Hc. now apply anc_tags. Qed.
