(* LIBBUILD -- the multi-round theorems for the small chains (distances 2 and 3, with and without refocusing, EVERY
   initial-state / ancilla-state list) with the side condition discharged by evaluation for round counts 0..RMAX.  The side
   condition is per block, so the theorems cover every rounds list (any length, repetitions allowed) with entries <= RMAX. *)
From Coq Require Import ZArith List Bool Lia Arith.
Import ListNotations.
From QCE Require Import Base.Prelude Core.Model Core.Run Core.BfsProofs C06.Proofs C09.Model C09.ProofsBits C12.Model C13.Model C13.Proofs
  LibBuild.Model LibBuild.Tags LibBuild.Counts LibBuild.Chain LibBuild.Layouts LibBuild.MultiRound LibBuild.MultiRoundProofs
  LibBuild.MultiRoundCheck LibBuild.MultiRoundCheck3t LibBuild.MultiRoundCheck3f.
From Gen Require Import Ident Classes Kernels.
Open Scope Z_scope.

Lemma inst_checked_2t : inst_rf 2 true = true.
Proof. vm_compute. reflexivity. Qed.
Lemma inst_checked_2f : inst_rf 2 false = true.
Proof. vm_compute. reflexivity. Qed.

(* ------------------------------------------------------------------ the theorem for the small chains *)
Lemma firstn_le_length {A} n (l : list A) : (length (firstn n l) <= n)%nat.
Proof. apply firstn_le_length. Qed.

Theorem small_chains_anc_tags env d rf init anc rounds a :
  In d [2%nat; 3%nat] -> Forall (fun r => 0 <= r <= RMAX) rounds -> 2 * Z.of_nat (length rounds) + 1 <= 4999 ->
  In a (r_anc (desc_of_chain d rf)) ->
  circuit_tags env (desc_of_chain d rf) init anc rounds a = Some (map z_of_tag (multi_round_tags rounds)).
Proof.
  intros Hd HR HL Ha. set (D := desc_of_chain d rf) in *.
  rewrite <- circuit_tags_firstn.
  set (init' := firstn (length (r_data D)) init). set (anc' := firstn (length (r_anc D)) anc).
  assert (Hall : inst_rf d rf = true).
  { destruct Hd as [<- | [<- | []]]; destruct rf; [exact inst_checked_2t | exact inst_checked_2f | exact inst_checked_3t | exact inst_checked_3f]. }
  assert (Hd2 : (2 <= d <= 3)%nat) by (destruct Hd as [<- | [<- | []]]; lia).
  assert (Li : (length init' <= d)%nat).
  { unfold init', D. rewrite chain_data, evens_from_length. apply firstn_le_length. }
  assert (La : (length anc' <= d - 1)%nat).
  { unfold anc', D. rewrite chain_anc, evens_from_length. apply firstn_le_length. }
  assert (Ok : forall r, In r rounds -> 0 <= r /\ block_small D init' anc' r /\ block_in_order D init' anc' r = true).
  { intros r Hr. rewrite Forall_forall in HR. specialize (HR r Hr). unfold RMAX in HR.
    pose proof (inst_rf_spec d rf init' anc' r Hall Li La HR) as H. unfold inst_ok in H. fold D in H.
    apply andb_true_iff in H as [H1 H2]. split; [lia|]. split; [|exact H1]. split; [|now apply Z.leb_le].
    apply chain_small; lia. }
  apply multi_anc_tags_in_order.
  - apply chain_desc_ok.
  - split; [|split].
    + apply Forall_forall. intros r Hr. destruct (Ok r Hr) as (H0 & Sm & _). split; assumption.
    + exact HL.
    + unfold D. rewrite chain_qubits, zrange_n_length. lia.
  - exact Ha.
  - apply forallb_forall. intros r Hr. exact (proj2 (proj2 (Ok r Hr))).
Qed.

(* ... and the kernel's indices, for all lists of distinct round counts 0..RMAX *)
Theorem small_chains_kernel_agrees env d rf init anc rounds a data_ids anc_ids q :
  In d [2%nat; 3%nat] -> Forall (fun r => 0 <= r <= RMAX) rounds -> rounds <> [] -> NoDup rounds ->
  In a (r_anc (desc_of_chain d rf)) -> is_member q anc_ids = true ->
  exists tags e, circuit_tags env (desc_of_chain d rf) init anc rounds a = Some tags
    /\ circuit_kernel rounds data_ids anc_ids = Value e
    /\ Z.of_nat (length tags) = RepetitionExperimentKernel_kernel_cycle_length e
    /\ positions (has_tag T_HERALDED) tags
       = concat (map (fun n => concat (RepetitionExperimentKernel_get_heralded_cycle_acquisition_indices e q n)) rounds)
         ++ concat (map (RepetitionExperimentKernel_get_heralded_calibration_acquisition_indices e q) StateKey_all)
    /\ positions (has_tag T_PARITY) tags
       = concat (map (fun n => concat (RepetitionExperimentKernel_get_stabilizer_and_projected_cycle_acquisition_indices e q n)) rounds)
    /\ positions (has_tag T_FINAL) tags
       = zero_round_slots e ++ concat (map (RepetitionExperimentKernel_get_projected_calibration_acquisition_indices e q) StateKey_all)
    /\ (forall x, In x (zero_round_slots e) -> ~ In x (cycle_indices e q)).
Proof.
  intros Hd HR NE ND Ha Hq.
  assert (HL : 2 * Z.of_nat (length rounds) + 1 <= 4999).
  { assert (length rounds <= 5)%nat; [|lia].
    assert (I : incl rounds (zrange_n 0 5)). { intros r Hr. rewrite Forall_forall in HR. specialize (HR r Hr). unfold RMAX in HR. apply zrange_n_In. lia. }
    pose proof (NoDup_incl_length ND I) as H. now rewrite zrange_n_length in H. }
  pose proof (small_chains_anc_tags env d rf init anc rounds a Hd HR HL Ha) as T.
  assert (Pos : Forall (fun r => 0 <= r) rounds) by (eapply Forall_impl; [|exact HR]; intros r H; cbv beta in H; lia).
  destruct (tag_positions rounds data_ids anc_ids q NE ND Pos Hq) as (e & Ee & PH & PP & PF & Z0).
  destruct (kernels_agree_with_circuit rounds data_ids anc_ids q NE ND Pos Hq) as (e' & Ee' & Len & _).
  rewrite Ee in Ee'. injection Ee' as <-.
  exists (map z_of_tag (multi_round_tags rounds)), e. split; [exact T|]. split; [exact Ee|]. split; [now rewrite map_length|].
  change T_HERALDED with (z_of_tag THeralded). change T_PARITY with (z_of_tag TParity). change T_FINAL with (z_of_tag TFinal).
  rewrite !positions_z_of_tag. repeat split; assumption.
Qed.

(* ------------------------------------------------------------------ examples: the hypotheses are satisfiable, the statements not vacuous *)
Definition ex_D : rdesc := desc_of_chain 2 true.
Definition ex_rounds : list Z := [2; 0; 3].

(* computed directly from the model of the constructor: ancilla 1 of the distance-2 chain *)
Example ex_computed : circuit_tags model_env ex_D [true; false] [true] ex_rounds 1
  = Some [3; 4; 4;  3; 5;  3; 4; 4; 4;  3; 5; 3; 5; 3; 5].
Proof. vm_compute. reflexivity. Qed.

Example ex_theorem : circuit_tags model_env ex_D [true; false] [true] ex_rounds 1 = Some (map z_of_tag (multi_round_tags ex_rounds)).
Proof. apply small_chains_anc_tags; [simpl; auto | repeat constructor; unfold RMAX; lia | simpl; lia | simpl; auto]. Qed.

(* the general theorem's hypotheses hold of it *)
Example ex_hypotheses : desc_ok ex_D /\ multi_small ex_D [true; false] [true] ex_rounds /\ In 1 (r_anc ex_D)
  /\ (forall r, In r ex_rounds -> block_heralded_first ex_D [true; false] [true] r 1 = true)
  /\ ex_rounds <> [] /\ NoDup ex_rounds.
Proof.
  split; [apply chain_desc_ok|]. split; [|split; [simpl; auto|split; [|split; [discriminate|]]]].
  - split; [|split; [simpl; lia | vm_compute; discriminate]].
    repeat constructor; try lia; try (apply chain_small; simpl; lia); vm_compute; discriminate.
  - intros r [<- | [<- | [<- | []]]]; vm_compute; reflexivity.
  - repeat constructor; simpl; intuition lia.
Qed.
