(* LIBBUILD x C08 x C09 -- proofs about LibBuild/StimBridge.v.

   B.  chain_export_bounded / chain_export_unrolled_bounded: for the chains of distance 2, 3, 4, refocusing on and off, EVERY
       data state, ancilla state absent / all ONE, 0..6 cycles, the model exporter (C08) applied to the model circuit (Core)
       of the model constructor (LibBuild) returns, and equals C09's closed form `rep_stim` up to `skeleton` (the rec[..]
       targets of DETECTOR / OBSERVABLE_INCLUDE) -- as constructed and after apply_modifiers.  Evaluated once by the VM.
   R.  record_of_skeleton: a REPEAT-free program with the skeleton of rep_stim, executed (C09's semantics) without its
       annotations, yields the protocol's measurement record (C09_chain_record / C09_layout_record carried over); hence so
       does the export of the model circuit on the bounded domain (chain_export_record_bounded).
   C.  every cycle count: LibBuild/StimBridgeCycles.v (chains of distance 2, 3), StimBridgeLayouts.v (shipped layouts). *)
From Coq Require Import ZArith List Bool String Lia.
Import ListNotations.
From QCE Require Import Base.Prelude Core.Model Core.Run C08.Tree C08.Model Bridge.TreeOfOp C09.Stim C09.Spec C09.Sem C09.Model
                        C09.Proofs LibBuild.Model LibBuild.Cert LibBuild.StimBridge.
From Gen Require Import Ident Classes Tables.
Open Scope list_scope.
Open Scope Z_scope.

(* ------------------------------------------------------------------ prog_eqb is equality *)
Section InstrInd.
  Variable P : instr -> Prop.
  Hypothesis Hnr : forall i, match i with IRepeat _ _ => True | _ => P i end.
  Hypothesis Hrep : forall n body, Forall P body -> P (IRepeat n body).
  Fixpoint instr_ind' (i : instr) : P i :=
    match i with
    | IRepeat n body =>
        Hrep n body ((fix go (l : list instr) : Forall P l :=
                        match l with [] => Forall_nil P | x :: t => Forall_cons x (instr_ind' x) (go t) end) body)
    | IGate g q => Hnr (IGate g q)
    | ICZ a b => Hnr (ICZ a b)
    | IR q => Hnr (IR q)
    | IM q => Hnr (IM q)
    | ITick => Hnr ITick
    | IDet a r => Hnr (IDet a r)
    | IObs k r => Hnr (IObs k r)
    | IShift a => Hnr (IShift a)
    | IOther s => Hnr (IOther s)
    end.
End InstrInd.

Lemma leqb9_eq {A} (eqb : A -> A -> bool) (l1 : list A) :
  Forall (fun x => forall y, eqb x y = true -> x = y) l1 -> forall l2, C09.Stim.leqb eqb l1 l2 = true -> l1 = l2.
Proof.
  induction 1 as [|x t Hx _ IH]; intros [|y u] H; simpl in H; try discriminate; [reflexivity|].
  apply andb_true_iff in H as [H1 H2]. f_equal; auto.
Qed.

Lemma zs_eqb_eq (a b : list Z) : C09.Stim.leqb Z.eqb a b = true -> a = b.
Proof. apply leqb9_eq. apply Forall_forall. intros x _ y. apply Z.eqb_eq. Qed.

Lemma gate1_eqb_eq a b : gate1_eqb a b = true -> a = b.
Proof. destruct a, b; simpl; intros H; try discriminate; reflexivity. Qed.

Lemma instr_eqb_eq : forall a b, instr_eqb a b = true -> a = b.
Proof.
  apply (instr_ind' (fun a => forall b, instr_eqb a b = true -> a = b)).
  - intros i. destruct i; try exact I; intros j H; destruct j; simpl in H; try discriminate;
      repeat match goal with
             | H : _ && _ = true |- _ => apply andb_true_iff in H as [? ?]
             | H : gate1_eqb _ _ = true |- _ => apply gate1_eqb_eq in H
             | H : (_ =? _) = true |- _ => apply Z.eqb_eq in H
             | H : C09.Stim.leqb Z.eqb _ _ = true |- _ => apply zs_eqb_eq in H
             | H : String.eqb _ _ = true |- _ => apply String.eqb_eq in H
             end; subst; reflexivity.
  - intros n body IH j H. destruct j; simpl in H; try discriminate. apply andb_true_iff in H as [H1 H2].
    apply Z.eqb_eq in H1. subst. f_equal. revert H2. apply leqb9_eq. exact IH.
Qed.

Lemma prog_eqb_eq a b : prog_eqb a b = true -> a = b.
Proof. apply leqb9_eq. apply Forall_forall. intros x _. apply instr_eqb_eq. Qed.

(* ------------------------------------------------------------------ skeleton: what it keeps *)
Lemma skeleton_app a b : skeleton (a ++ b) = skeleton a ++ skeleton b.
Proof. apply map_app. Qed.

Lemma skeleton_length p : List.length (skeleton p) = List.length p.
Proof. apply map_length. Qed.

Lemma skeleton_idem p : skeleton (skeleton p) = skeleton p.
Proof. unfold skeleton. rewrite map_map. apply map_ext. intros []; reflexivity. Qed.

(* gates, resets, measurements and ticks are compared exactly ... *)
Lemma gate_part_skeleton p : gate_part (skeleton p) = gate_part p.
Proof. induction p as [|i p IH]; [reflexivity|]. destruct i; simpl; rewrite ?IH; reflexivity. Qed.

Lemma skeleton_gate_part p q : skeleton p = skeleton q -> gate_part p = gate_part q.
Proof. intros H. rewrite <- (gate_part_skeleton p), <- (gate_part_skeleton q), H. reflexivity. Qed.

(* ... and position by position the two programs differ at most in the rec targets of an annotation *)
Lemma skeleton_pointwise p q : skeleton p = skeleton q ->
  Forall2 (fun i j => i = j \/ (exists a r r', i = IDet a r /\ j = IDet a r') \/ (exists k r r', i = IObs k r /\ j = IObs k r')) p q.
Proof.
  revert q. induction p as [|i p IH]; intros [|j q] H; simpl in H; try discriminate; constructor.
  - injection H as H _. destruct i, j; simpl in H; try discriminate; try (left; exact H);
      injection H as ->; right; [left | right]; do 3 eexists; split; reflexivity.
  - apply IH. injection H as _ H. exact H.
Qed.

Lemma skel_matches_spec got want : skel_matches got want = true ->
  exists p, got = Some p /\ skeleton p = skeleton want.
Proof. destruct got as [p|]; simpl; [|discriminate]. intros H. exists p. split; [reflexivity | apply prog_eqb_eq; exact H]. Qed.

(* ------------------------------------------------------------------ the finite domain, membership *)
Lemma in_all_states : forall n s, List.length s = n -> In s (all_states n).
Proof.
  induction n as [|n IH]; intros [|b s] H; simpl in H; try discriminate; [left; reflexivity|].
  cbn [all_states]. apply in_flat_map. exists s. split; [apply IH; lia|]. destruct b; simpl; auto.
Qed.

Lemma in_prod5 d rf i a c ds inits ancs cs : In d ds -> In i inits -> In a ancs -> In c cs ->
  In (d, rf, i, a, c) (prod5 ds inits ancs cs).
Proof.
  intros Hd Hi Ha Hc. unfold prod5. apply in_flat_map. exists d. split; [exact Hd|].
  apply in_flat_map. exists rf. split; [destruct rf; simpl; auto|].
  apply in_flat_map. exists i. split; [exact Hi|]. apply in_flat_map. exists a. split; [exact Ha|].
  apply in_map_iff. exists c. split; [reflexivity | exact Hc].
Qed.

Lemma in_sb_cycles c : 0 <= c <= 6 -> In c sb_cycles.
Proof.
  intros H. assert (E : c = 0 \/ c = 1 \/ c = 2 \/ c = 3 \/ c = 4 \/ c = 5 \/ c = 6) by lia.
  unfold sb_cycles. simpl. intuition.
Qed.

(* the domain of the bounded theorems, written out *)
Definition sb_domain (d : nat) (init anc : list bool) (cycles : Z) : Prop :=
  In d [2; 3; 4]%nat /\ List.length init = d /\ (anc = [] \/ anc = repeat true (d - 1)) /\ 0 <= cycles <= 6.

Lemma sb_domain_in d rf init anc cycles : sb_domain d init anc cycles -> In (d, rf, init, anc, cycles) sb_inputs.
Proof.
  intros (Hd & Hi & Ha & Hc). unfold sb_inputs, sb_inputs_of.
  assert (G : In (d, rf, init, anc, cycles) (prod5 [d] (all_states d) [[]; all_one (d - 1)] sb_cycles)).
  { apply in_prod5; [left; reflexivity | apply in_all_states; exact Hi | | apply in_sb_cycles; exact Hc].
    destruct Ha as [-> | ->]; simpl; auto. }
  rewrite !in_app_iff. simpl in Hd. destruct Hd as [<- | [<- | [<- | []]]]; auto.
Qed.

(* ------------------------------------------------------------------ B. evaluated once, by the kernel's VM at Qed *)
Lemma sb_checked_2 : forallb (fun x => sb_check x && sb_check_unrolled x) (sb_inputs_of 2 sb_cycles) = true.
Proof. vm_cast_no_check (eq_refl true). Qed.
Lemma sb_checked_3 : forallb (fun x => sb_check x && sb_check_unrolled x) (sb_inputs_of 3 sb_cycles) = true.
Proof. vm_cast_no_check (eq_refl true). Qed.
Lemma sb_checked_4 : forallb (fun x => sb_check x && sb_check_unrolled x) (sb_inputs_of 4 sb_cycles) = true.
Proof. vm_cast_no_check (eq_refl true). Qed.

Lemma sb_checked : forallb (fun x => sb_check x && sb_check_unrolled x) sb_inputs = true.
Proof. unfold sb_inputs. rewrite !forallb_app, sb_checked_2, sb_checked_3, sb_checked_4. reflexivity. Qed.

Lemma or_raised_some o p : o = Some p -> or_raised o = p.
Proof. intros ->. reflexivity. Qed.

(* as constructed: REPEAT blocks in the export, unrolled by the normal form *)
Lemma chain_export_dom d rf init anc cycles : sb_domain d init anc cycles ->
  let D := desc_of_chain d rf in
  lib_export_opt D init anc cycles = Some (lib_export D init anc cycles)
  /\ skeleton (lib_export D init anc cycles) = skeleton (rep_stim D init anc (Z.to_nat cycles)).
Proof.
  intros Hdom D. pose proof sb_checked as H. rewrite forallb_forall in H.
  specialize (H _ (sb_domain_in d rf init anc cycles Hdom)). apply andb_true_iff in H as [H _].
  apply skel_matches_spec in H as (p & E & S). cbn [sb_got sb_want] in E, S. fold D in E, S.
  unfold lib_export. rewrite E. cbn [or_raised]. split; [reflexivity | exact S].
Qed.

(* after apply_modifiers: no REPEAT in the export *)
Lemma chain_export_unrolled_dom d rf init anc cycles : sb_domain d init anc cycles ->
  let D := desc_of_chain d rf in
  lib_export_unrolled_opt D init anc cycles = Some (lib_export_unrolled D init anc cycles)
  /\ skeleton (lib_export_unrolled D init anc cycles) = skeleton (rep_stim D init anc (Z.to_nat cycles)).
Proof.
  intros Hdom D. pose proof sb_checked as H. rewrite forallb_forall in H.
  specialize (H _ (sb_domain_in d rf init anc cycles Hdom)). apply andb_true_iff in H as [_ H].
  apply skel_matches_spec in H as (p & E & S). cbn [sb_got_unrolled sb_want] in E, S. fold D in E, S.
  unfold lib_export_unrolled. rewrite E. cbn [or_raised]. split; [reflexivity | exact S].
Qed.

(* the statements with the bound written out *)
Theorem chain_export_bounded : forall d rf init anc cycles,
  In d [2; 3; 4]%nat -> List.length init = d -> anc = [] \/ anc = repeat true (d - 1) -> 0 <= cycles <= 6 ->
  lib_export_opt (desc_of_chain d rf) init anc cycles = Some (lib_export (desc_of_chain d rf) init anc cycles)
  /\ skeleton (lib_export (desc_of_chain d rf) init anc cycles)
     = skeleton (rep_stim (desc_of_chain d rf) init anc (Z.to_nat cycles)).
Proof. intros d rf init anc cycles H1 H2 H3 H4. apply (chain_export_dom d rf init anc cycles). repeat split; tauto. Qed.

Theorem chain_export_unrolled_bounded : forall d rf init anc cycles,
  In d [2; 3; 4]%nat -> List.length init = d -> anc = [] \/ anc = repeat true (d - 1) -> 0 <= cycles <= 6 ->
  lib_export_unrolled_opt (desc_of_chain d rf) init anc cycles = Some (lib_export_unrolled (desc_of_chain d rf) init anc cycles)
  /\ skeleton (lib_export_unrolled (desc_of_chain d rf) init anc cycles)
     = skeleton (rep_stim (desc_of_chain d rf) init anc (Z.to_nat cycles)).
Proof. intros d rf init anc cycles H1 H2 H3 H4. apply (chain_export_unrolled_dom d rf init anc cycles). repeat split; tauto. Qed.

(* hence: the two exports of the model circuit have the same skeleton, and the gates / resets / measurements / ticks of the
   export are those of rep_stim, in order *)
Theorem chain_export_plain_vs_unrolled : forall d rf init anc cycles,
  In d [2; 3; 4]%nat -> List.length init = d -> anc = [] \/ anc = repeat true (d - 1) -> 0 <= cycles <= 6 ->
  skeleton (lib_export (desc_of_chain d rf) init anc cycles) = skeleton (lib_export_unrolled (desc_of_chain d rf) init anc cycles).
Proof.
  intros d rf init anc cycles H1 H2 H3 H4.
  destruct (chain_export_bounded d rf init anc cycles H1 H2 H3 H4) as [_ A].
  destruct (chain_export_unrolled_bounded d rf init anc cycles H1 H2 H3 H4) as [_ B]. now rewrite A, B.
Qed.

Theorem chain_export_gates : forall d rf init anc cycles,
  In d [2; 3; 4]%nat -> List.length init = d -> anc = [] \/ anc = repeat true (d - 1) -> 0 <= cycles <= 6 ->
  gate_part (lib_export (desc_of_chain d rf) init anc cycles) = gate_part (rep_stim (desc_of_chain d rf) init anc (Z.to_nat cycles)).
Proof.
  intros d rf init anc cycles H1 H2 H3 H4. apply skeleton_gate_part.
  apply (chain_export_bounded d rf init anc cycles H1 H2 H3 H4).
Qed.

(* ------------------------------------------------------------------ R. the record is decided by the gate part *)
Definition sb_strip (m : mstate) : mstate := MkM (m_st m) (m_rec m) [] [].
Definition instr_plain (i : instr) : bool := match i with IRepeat _ _ => false | _ => true end.
Definition no_repeat (p : list instr) : bool := forallb instr_plain p.

Lemma no_repeat_app a b : no_repeat (a ++ b) = no_repeat a && no_repeat b.
Proof. apply forallb_app. Qed.

(* DETECTOR / OBSERVABLE_INCLUDE only read the record: dropping them changes neither the qubits nor the record *)
Lemma run_gate_part p : no_repeat p = true -> forall m m', run p m = Ok m' -> run (gate_part p) (sb_strip m) = Ok (sb_strip m').
Proof.
  induction p as [|i p IH]; intros NR m m' H.
  - injection H as <-. reflexivity.
  - cbn [no_repeat forallb] in NR. apply andb_true_iff in NR as [Ni NR]. unfold run in *. cbn [rfold] in H.
    destruct (step i m) as [m1| |] eqn:E; try discriminate.
    specialize (IH NR m1 m' H).
    destruct i; try discriminate Ni; cbn [gate_part filter is_annotation negb rfold].
    all: try (cbn [step] in E |- *; cbn [sb_strip m_st m_rec m_det m_obs] in * ).
    all: try (injection E as <-; exact IH).
    + (* ICZ *) destruct (a =? b); [discriminate|]. destruct (m_st m a), (m_st m b); try discriminate; injection E as <-; exact IH.
    + (* IM *) destruct (m_st m q); [|discriminate]. injection E as <-. exact IH.
    + (* IDet *) destruct (parity_at (m_rec m) recs); [|discriminate]. injection E as <-. exact IH.
    + (* IObs *) destruct (parity_at (m_rec m) recs); [|discriminate]. destruct (k <? 0); [discriminate|]. injection E as <-. exact IH.
    + (* IOther *) discriminate.
Qed.

Lemma exec_gate_part p r ds os : no_repeat p = true -> exec p = Some (r, ds, os) -> exec (gate_part p) = Some (r, [], []).
Proof.
  intros NR H. unfold exec in *. destruct (run p start) as [m| |] eqn:E; try discriminate.
  injection H as <- _ _. change start with (sb_strip start). rewrite (run_gate_part p NR start m E). reflexivity.
Qed.

(* rep_stim is REPEAT-free, for every description *)
Lemma no_repeat_map {A} (f : A -> instr) l : (forall x, instr_plain (f x) = true) -> no_repeat (map f l) = true.
Proof. intros H. unfold no_repeat. rewrite forallb_forall. intros i Hi. apply in_map_iff in Hi as (x & <- & _). apply H. Qed.
Lemma no_repeat_flat_map {A} (f : A -> list instr) l : (forall x, no_repeat (f x) = true) -> no_repeat (flat_map f l) = true.
Proof. intros H. induction l as [|x l IH]; [reflexivity|]. cbn [flat_map]. now rewrite no_repeat_app, H, IH. Qed.
Lemma no_repeat_tick b : no_repeat (tick_if b) = true.
Proof. destruct b; reflexivity. Qed.

Lemma no_repeat_layers anc ls : forall cur, no_repeat (layers_instrs anc cur ls) = true.
Proof.
  induction ls as [|[gates parks] rest IH]; intros cur; [reflexivity|]. cbn [layers_instrs].
  rewrite !no_repeat_app, !no_repeat_tick, IH, !no_repeat_map by (intros; reflexivity). reflexivity.
Qed.

Lemma no_repeat_round D dd : no_repeat (round_instrs D dd) = true.
Proof.
  unfold round_instrs. rewrite !no_repeat_app, no_repeat_layers, no_repeat_tick, no_repeat_map by (intros; reflexivity).
  destruct (dd && r_refocus D); [rewrite no_repeat_map by (intros; reflexivity)|]; reflexivity.
Qed.

Lemma no_repeat_dets D t back : no_repeat (round_detectors D t back) = true.
Proof. unfold round_detectors. apply no_repeat_map. intros; reflexivity. Qed.

Lemma no_repeat_rep_stim D init anc c : no_repeat (rep_stim D init anc c) = true.
Proof.
  unfold rep_stim. rewrite !no_repeat_app. repeat (apply andb_true_iff; split).
  - unfold init_part. rewrite !no_repeat_app, !no_repeat_map by (intros; unfold C09.Model.prep; reflexivity). reflexivity.
  - unfold qec_part. destruct c as [|c]; [apply no_repeat_map; intros; reflexivity|].
    rewrite !no_repeat_app. repeat (apply andb_true_iff; split).
    + apply no_repeat_flat_map. intros t. unfold block_first. now rewrite no_repeat_app, no_repeat_round, no_repeat_dets.
    + apply no_repeat_flat_map. intros t. unfold block_second. now rewrite !no_repeat_app, no_repeat_round, no_repeat_dets.
    + unfold block_third. now rewrite no_repeat_app, no_repeat_round, no_repeat_dets.
  - unfold final_part. rewrite !no_repeat_app, !no_repeat_map by (intros; reflexivity). reflexivity.
Qed.

(* if a program has the skeleton of rep_stim, executing its gates / resets / measurements gives the protocol's record *)
Lemma record_of_skeleton D init anc cycles p r ds os :
  exec (rep_stim D init anc cycles) = Some (r, ds, os) ->
  skeleton p = skeleton (rep_stim D init anc cycles) -> exec (gate_part p) = Some (r, [], []).
Proof.
  intros E S. rewrite (skeleton_gate_part _ _ S). exact (exec_gate_part _ _ _ _ (no_repeat_rep_stim D init anc cycles) E).
Qed.

Theorem chain_export_record_bounded : forall d rf init anc cycles,
  In d [2; 3; 4]%nat -> List.length init = d -> anc = [] \/ anc = repeat true (d - 1) -> 0 <= cycles <= 6 ->
  exec (gate_part (lib_export (desc_of_chain d rf) init anc cycles))
  = Some (protocol_record init anc (Z.to_nat cycles) rf, [], []).
Proof.
  intros d rf init anc cycles H1 H2 H3 H4. destruct (chain_export_bounded d rf init anc cycles H1 H2 H3 H4) as [_ S].
  refine (record_of_skeleton _ init anc _ _ _ _ _ (chain_record d rf init anc (Z.to_nat cycles) _ H2 _) S).
  - simpl in H1. lia.
  - destruct H3 as [-> | ->]; [simpl; lia | rewrite repeat_length; lia].
Qed.

(* ------------------------------------------------------------------ the duration setting plays no role
   `lib_export` is defined with the environment env0; as constructed the circuit, hence its export, is the same for every
   duration setting (LibBuild_run_prog_env_indep) *)
Theorem lib_export_env_indep : forall env D init anc cycles,
  export_nodes_c09 (run_prog env (rep_code_prog D init anc cycles)) = lib_export_opt D init anc cycles.
Proof. intros env D init anc cycles. unfold lib_export_opt, lib_circuit. now rewrite (run_prog_env_indep env env0). Qed.

(* ------------------------------------------------------------------ non-vacuity *)
(* distance 3, refocusing, data 1 0 1, ancillas 1 1, five cycles: the exporter returns a circuit with two REPEAT 2 blocks;
   133 instructions in normal form, 12 detectors, 3 observable includes, and the skeleton is NOT the whole program *)
Example sb_example :
  sb_domain 3 [true; false; true] [true; true] 5
  /\ (exists c, export_nodes (lib_circuit (desc_of_chain 3 true) [true; false; true] [true; true] 5) = Some c
                /\ List.length (filter (fun i => match i with SRep 2 _ => true | _ => false end) c) = 2%nat)
  /\ List.length (lib_export (desc_of_chain 3 true) [true; false; true] [true; true] 5) = 133%nat
  /\ List.length (filter is_annotation (lib_export (desc_of_chain 3 true) [true; false; true] [true; true] 5)) = 15%nat
  /\ raised_free (lib_export (desc_of_chain 3 true) [true; false; true] [true; true] 5) = true
  /\ lib_export (desc_of_chain 3 true) [true; false; true] [true; true] 5
     <> rep_stim (desc_of_chain 3 true) [true; false; true] [true; true] 5.
Proof.
  split; [unfold sb_domain; simpl; intuition lia|].
  split; [eexists; split; [vm_compute; reflexivity | vm_compute; reflexivity]|].
  repeat split; try (vm_compute; reflexivity). vm_compute. discriminate.
Qed.
