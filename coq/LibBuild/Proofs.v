(* LIBBUILD -- theorems about the constructor programs of LibBuild/Model.v, for ALL descriptions and cycle counts.
   Order.v   the first command's block is listed first (general, any program)
   Tags.v    measurement tags per qubit in the unrolled listing (any description)
   Counts.v  closed formulas for the number of operations / measurements; the listing-size hypothesis numerically
   Chain.v   the chain description of every distance
   Layouts.v the 82 sub-chains of the shipped layouts; C13's vocabulary
   Cert.v    (partial) the C10 certificate on the constructor programs of small chains
   This file: well-formedness, the 1/2/3 split, examples. *)
From Coq Require Import ZArith List Bool Lia Arith Permutation.
Import ListNotations.
From QCE Require Import Base.Prelude Core.Model Core.Run Core.BfsProofs Core.BfsWf C02.Proofs C06.Proofs C09.Model LibBuild.Model.
From QCE Require Export LibBuild.Order LibBuild.Tags LibBuild.Counts LibBuild.Chain LibBuild.Layouts LibBuild.Cert.
From Gen Require Import Ident Classes.
Open Scope Z_scope.

(* ------------------------------------------------------------------ (a) well-formed at every nesting level *)
Theorem rep_code_wf env D init anc cycles : wf_op (OComp 1 (run_prog env (rep_code_prog D init anc cycles))).
Proof. apply run_prog_wf_op. Qed.
Theorem simplified_wf env D init anc cycles : wf_op (OComp 1 (run_prog env (simplified_prog D init anc cycles))).
Proof. apply run_prog_wf_op. Qed.
Theorem calibration_wf env qs qutrit : wf_op (OComp 1 (run_prog env (calibration_prog qs qutrit))).
Proof. apply run_prog_wf_op. Qed.
(* ... also after unrolling *)
Theorem rep_code_unrolled_wf env D init anc cycles :
  wf_op (OComp 1 (apply_modifiers env 1 (run_prog env (rep_code_prog D init anc cycles)))).
Proof. apply TimesWf.apply_modifiers_wf_op. apply run_prog_wf_op. Qed.

(* ------------------------------------------------------------------ the 1 / 2 / 3 sub-circuit split *)
(* from four cycles on: the first block twice, the repeated block cycles - 3 times, the round without decoupling once *)
Theorem qec_split_bulk D cycles : 3 < cycles ->
  circuit_qec_with_detectors D cycles = [CSub 2 (first_sub D); CSub (cycles - 3) (second_sub D); CSub 1 (third_sub D)].
Proof.
  intros H. unfold circuit_qec_with_detectors.
  assert (E0 : (cycles =? 0) = false) by lia. assert (E1 : (cycles >? 1) = true) by lia. assert (E3 : (cycles >? 3) = true) by lia.
  rewrite E0, E1, E3. replace (Z.min 2 (cycles - 1)) with 2 by lia. replace (cycles - 2 - 1) with (cycles - 3) by lia. reflexivity.
Qed.

Theorem qec_split_small D :
  circuit_qec_with_detectors D 0 = map (meas T_FINAL) (r_anc D)
  /\ circuit_qec_with_detectors D 1 = [CSub 1 (third_sub D)]
  /\ circuit_qec_with_detectors D 2 = [CSub 1 (first_sub D); CSub 1 (third_sub D)]
  /\ circuit_qec_with_detectors D 3 = [CSub 2 (first_sub D); CSub 1 (third_sub D)].
Proof. repeat split. Qed.

(* every ancilla is measured exactly once per cycle: the three counts add up *)
Theorem qec_rounds_total cycles : 1 <= cycles -> (n_first cycles + n_second cycles + 1)%nat = Z.to_nat cycles.
Proof. exact (n_rounds cycles). Qed.

(* ------------------------------------------------------------------ examples: the hypotheses are satisfiable, the statements are not vacuous *)
Definition ex_env : denv := mk_env 8 2 4 16 [].
Definition ex_D : rdesc := desc_of_chain 3 true.
Definition ex_prog : list cmd := rep_code_prog ex_D [true; false; true] [true] 5.

Example ex_small : unroll_small_prog ex_prog.
Proof. apply chain_small; [lia | lia | vm_compute; discriminate]. Qed.

(* computed directly: ancilla 1 reads heralded, then five parities; 181 operations, 18 measurements *)
Example ex_tags_computed : tags_of 1 (unrolled_leaves ex_env ex_prog) = [3; 4; 4; 4; 4; 4].
Proof. vm_compute. reflexivity. Qed.
Example ex_tags_theorem : tags_of 1 (unrolled_leaves ex_env ex_prog) = want_anc_tags 5.
Proof. apply chain_anc_tags; try lia. simpl; auto. Qed.
Example ex_counts_computed :
  length (unrolled_leaves ex_env ex_prog) = 181%nat /\ length (filter has_acq (unrolled_leaves ex_env ex_prog)) = 18%nat.
Proof. vm_compute. split; reflexivity. Qed.
Example ex_counts_theorem :
  Z.of_nat (length (unrolled_leaves ex_env ex_prog)) = 16 * 3 + 1 - 2 + 11 * 3 * (5 - 1) + Z.max 0 (5 - 3)
  /\ length (filter has_acq (unrolled_leaves ex_env ex_prog)) = (2 * 3 - 1 + 5 * (3 - 1) + 3)%nat.
Proof.
  split.
  - rewrite (unrolled_n_ops ex_env ex_prog ex_small). unfold ex_prog, ex_D. rewrite chain_n_ops; [reflexivity | lia | lia | reflexivity | simpl; lia].
  - rewrite (unrolled_n_meas ex_env ex_prog ex_small). unfold ex_prog, ex_D. rewrite chain_n_meas by lia. reflexivity.
Qed.
