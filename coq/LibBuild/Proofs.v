(* LIBBUILD -- theorems about the constructor programs of LibBuild/Model.v, for ALL descriptions and cycle counts. *)
From Coq Require Import ZArith List Bool Lia Arith Permutation.
Import ListNotations.
From QCE Require Import Base.Prelude Core.Model Core.Run Core.BfsProofs Core.BfsWf C09.Model LibBuild.Model.
From Gen Require Import Ident Classes.
Open Scope Z_scope.

(* (a) every circuit the constructors build is a well-formed forest at every nesting level *)
Theorem rep_code_wf env D init anc cycles : wf_op (OComp 1 (run_prog env (rep_code_prog D init anc cycles))).
Proof. apply run_prog_wf_op. Qed.
