(* LIBBUILD x C08 x C09 -- part C: the export of the model circuit equals `rep_stim` (up to `skeleton`) for EVERY cycle
   count, for the chain of distance 2 (and 3), every refocusing flag, every list of data and of ancilla values.

   Method.  From four cycles on the constructor program is
       [init; [2 x first_sub; (cycles - 3) x second_sub; 1 x third_sub]; final] ++ detectors ++ observables
   (LibBuild.Proofs.qec_split_bulk).  Building the circuit and listing it never looks at a repetition count, so for a FIXED
   description and state the listing tree is computed by the VM with the count as a free variable:
       Block 1 I :: Block 1 [Block 2 F; Block n S; Block 1 T] :: POST                                     (bulk_tree)
   * the exporter returns on it for 2 <= n < 2^64 (the only place it looks at n is Stim's `circuit * n`)   (export_shape)
   * C08_stim_in_order: the normal form of whatever it returns is the image of the expanded listing, and that is
     I, F, F, n x S, T, POST
   * the SHIFT_COORDS accumulate: one per block, so block k of the n is S with detector time t0 + k -- induction on n (nf_rep)
   * rep_stim is init_part, block_first 0, block_first 1, block_second 2 .. n+1, block_third (n+2), final_part
   and the pieces are compared by the VM with the round number t as a free variable.
   Cycle counts 0..4 are evaluated directly.  The states are reduced to their relevant prefixes (the constructor and
   rep_stim both `combine` them with the qubit lists), which leaves finitely many cases per distance.

   The hypothesis cycles < 2^64 + 3 is needed: beyond it Stim refuses the repetition count and the exporter raises. *)
From Coq Require Import ZArith List Bool String Lia.
Import ListNotations.
From QCE Require Import Base.Prelude Core.Model Core.Run C08.Tree C08.Model C08.Proofs Bridge.TreeOfOp C09.Stim C09.Spec C09.Sem
                        C09.Model C09.Proofs LibBuild.Model LibBuild.Cert LibBuild.Proofs LibBuild.StimBridge LibBuild.StimBridgeProofs.
From Gen Require Import Ident Classes Tables.
Open Scope list_scope.
Open Scope Z_scope.

(* ------------------------------------------------------------------ SHIFT_COORDS folding, compositionally *)
(* the shift accumulated by a flat instruction list *)
Fixpoint shift_of (sh : list Z) (l : list sinstr) : list Z :=
  match l with
  | [] => sh
  | SI g a _ :: r => if String.eqb g "SHIFT_COORDS" then shift_of (shift_acc sh a) r else shift_of sh r
  | SRep _ _ :: r => shift_of sh r
  end.

Lemma fold_coords_app a : forall sh b, fold_coords sh (a ++ b) = fold_coords sh a ++ fold_coords (shift_of sh a) b.
Proof.
  induction a as [|i a IH]; intros sh b; [reflexivity|].
  destruct i as [g ar ts | k body]; cbn [app fold_coords shift_of].
  - destruct (String.eqb g "SHIFT_COORDS"); [apply IH|].
    destruct (String.eqb g "DETECTOR"); cbn [app]; now rewrite IH.
  - cbn [app]. now rewrite IH.
Qed.

Lemma shift_of_app a : forall sh b, shift_of sh (a ++ b) = shift_of (shift_of sh a) b.
Proof.
  induction a as [|i a IH]; intros sh b; [reflexivity|].
  destruct i as [g ar ts | k body]; cbn [app shift_of]; [destruct (String.eqb g "SHIFT_COORDS")|]; apply IH.
Qed.

(* the normal form of a list of exporter leaves, in C09's instruction type, starting from an accumulated shift *)
Definition nf (sh : list Z) (ls : list sleaf) : list instr :=
  flat_map instrs_of_sinstr (fold_coords sh (flat_map instr_list ls)).
Definition sh_after (sh : list Z) (ls : list sleaf) : list Z := shift_of sh (flat_map instr_list ls).

Lemma nf_app sh a b : nf sh (a ++ b) = nf sh a ++ nf (sh_after sh a) b.
Proof. unfold nf, sh_after. now rewrite flat_map_app, fold_coords_app, flat_map_app. Qed.

Lemma sh_after_app sh a b : sh_after sh (a ++ b) = sh_after (sh_after sh a) b.
Proof. unfold sh_after. now rewrite flat_map_app, shift_of_app. Qed.

(* C08_stim_in_order + Bridge: whatever the exporter returns, its normal form is the image of the expanded listing *)
Lemma export_nf t c : to_stim t = Some c -> c09_of_circuit c = nf [] (expand t).
Proof. intros H. unfold c09_of_circuit, nf. now rewrite (stim_in_order t c H). Qed.

(* a block repeated m times, one time step per block *)
Lemma seq_flat_map_shift {X} (h : nat -> list X) m : forall a, flat_map h (seq (S a) m) = flat_map (fun k => h (S k)) (seq a m).
Proof. induction m as [|m IH]; intros a; [reflexivity|]. cbn [seq flat_map]. now rewrite IH. Qed.

Lemma nf_rep (ls : list sleaf) (B : Z -> list instr) :
  (forall t, sh_after [0; t] ls = [0; t + 1]) ->
  (forall t, skeleton (nf [0; t] ls) = skeleton (B t)) ->
  forall m t, skeleton (nf [0; t] (rep_list m ls)) = skeleton (flat_map (fun k => B (t + Z.of_nat k)) (seq 0 m))
              /\ sh_after [0; t] (rep_list m ls) = [0; t + Z.of_nat m].
Proof.
  intros Hs Hb. induction m as [|m IH]; intros t.
  - split; [reflexivity|]. cbn [rep_list]. unfold sh_after. cbn. now rewrite Z.add_0_r.
  - cbn [rep_list]. rewrite nf_app, sh_after_app, Hs. destruct (IH (t + 1)) as [A Bs]. split.
    + rewrite skeleton_app, Hb, A. cbn [seq flat_map]. rewrite skeleton_app, Z.add_0_r. f_equal.
      rewrite seq_flat_map_shift. f_equal. apply flat_map_ext. intros k. f_equal. lia.
    + rewrite Bs. f_equal. f_equal. lia.
Qed.

(* ------------------------------------------------------------------ the exporter on a tree with one symbolic count *)
Definition bulk_tree (I F S T POST : list item) (n : Z) : list item :=
  Block 1 I :: Block 1 [Block 2 F; Block n S; Block 1 T] :: POST.

Definition not_single_rep (c : C08.Model.circuit) : bool := match c with [SRep _ _] => false | _ => true end.

Lemma cmul_wrap c n : 2 <= n < two64 -> not_single_rep c = true -> cmul c n = Some [SRep n c].
Proof.
  intros Hn Hc. unfold cmul.
  assert (E1 : (n <? 0) || (two64 <=? n) = false) by (apply orb_false_iff; split; [apply Z.ltb_ge | apply Z.leb_gt]; lia).
  assert (E2 : (n =? 0) = false) by (apply Z.eqb_neq; lia). assert (E3 : (n =? 1) = false) by (apply Z.eqb_neq; lia).
  rewrite E1, E2, E3. destruct c as [|[g a ts | k b] [|y r]]; try reflexivity. discriminate Hc.
Qed.

(* the walk, unfolded down to the one multiplication by n; everything else is evaluated by the VM in each case *)
Lemma export_shape I F S T POST n cI cF S' :
  construct_item (Block 1 I) [] = Some cI ->
  construct_item (Block 2 F) [] = Some cF ->
  ofold construct_item S [] = Some S' ->
  not_single_rep S' = true -> 2 <= n < two64 ->
  to_stim (bulk_tree I F S T POST n)
  = match ofold construct_item [Block 1 T] (cadd cF [SRep n S']) with
    | Some inner => match cmul inner 1 with Some m => ofold construct_item POST (cadd cI m) | None => None end
    | None => None
    end.
Proof.
  intros HI HF HS Hns Hn. unfold to_stim, bulk_tree.
  change (ofold construct_item (Block 1 I :: Block 1 [Block 2 F; Block n S; Block 1 T] :: POST) [])
    with (match construct_item (Block 1 I) [] with
          | Some s1 => match construct_item (Block 1 [Block 2 F; Block n S; Block 1 T]) s1 with
                       | Some s2 => ofold construct_item POST s2
                       | None => None
                       end
          | None => None
          end).
  rewrite HI.
  change (construct_item (Block 1 [Block 2 F; Block n S; Block 1 T]) cI)
    with (match (match construct_item (Block 2 F) [] with
                 | Some s1 => match (match ofold construct_item S [] with
                                     | Some inner => match cmul inner n with Some m => Some (cadd s1 m) | None => None end
                                     | None => None
                                     end) with
                              | Some s2 => ofold construct_item [Block 1 T] s2
                              | None => None
                              end
                 | None => None
                 end) with
          | Some inner => match cmul inner 1 with Some m => Some (cadd cI m) | None => None end
          | None => None
          end).
  rewrite HF, HS, (cmul_wrap S' n Hn Hns).
  destruct (ofold construct_item [Block 1 T] (cadd cF [SRep n S'])) as [inner|]; [|reflexivity].
  destruct (cmul inner 1); reflexivity.
Qed.

Lemma expand_bulk I F S T POST n :
  expand (bulk_tree I F S T POST n)
  = (expand I ++ expand F ++ expand F) ++ rep_list (Z.to_nat n) (expand S) ++ (expand T ++ expand POST).
Proof.
  unfold bulk_tree, expand. cbn [flat_map expand_item]. change (Z.to_nat 1) with 1%nat. change (Z.to_nat 2) with 2%nat.
  cbn [rep_list]. rewrite !app_nil_r, <- !app_assoc. reflexivity.
Qed.

(* ------------------------------------------------------------------ rep_stim from four cycles on *)
Lemma qec_part_bulk D m : (1 <= m)%nat ->
  qec_part D (3 + m)
  = (block_first D 0 ++ block_first D 1) ++ flat_map (fun t => block_second D (Z.of_nat t)) (seq 2 m)
    ++ block_third D (Z.of_nat (2 + m)) true.
Proof.
  intros Hm. destruct m as [|k]; [lia|]. unfold qec_part. change (3 + S k)%nat with (S (S (S (S k)))).
  assert (H1 : (1 <? S (S (S (S k))))%nat = true) by (apply Nat.ltb_lt; lia).
  assert (H3 : (3 <? S (S (S (S k))))%nat = true) by (apply Nat.ltb_lt; lia).
  assert (H2 : (2 <? S (S (S (S k))))%nat = true) by (apply Nat.ltb_lt; lia).
  rewrite H1, H3, H2.
  replace (Nat.min 2 (S (S (S (S k))) - 1)) with 2%nat by lia.
  replace (S (S (S (S k))) - 3)%nat with (S k) by lia.
  cbn [seq flat_map Nat.add]. rewrite app_nil_r. reflexivity.
Qed.

(* the final part without its record targets: the match on the cycle count only selects targets *)
Definition final_skel (D : rdesc) (tz : Z) : list instr :=
  map IM (r_data D)
  ++ map (fun x => IDet [snd (fst x); tz] []) (combine (enum_from 0 (r_anc D)) (r_nbr D))
  ++ map (fun iq => IObs 0 []) (enum_from 0 (r_data D)).

Lemma skeleton_final D c : skeleton (final_part D c) = final_skel D (Z.of_nat c).
Proof.
  unfold final_part, final_skel, skeleton. rewrite !map_app, !map_map. reflexivity.
Qed.

(* ------------------------------------------------------------------ the program from four cycles on *)
Definition bulk_prog (D : rdesc) (init anc : list bool) (n : Z) : list cmd :=
  [CSub 1 (circuit_initialize_with_heralded D init anc);
   CSub 1 [CSub 2 (first_sub D); CSub n (second_sub D); CSub 1 (third_sub D)];
   CSub 1 (circuit_final_measurement D)]
  ++ detectors D ++ observables D.

Lemma rep_code_prog_bulk D init anc cycles : 3 < cycles -> rep_code_prog D init anc cycles = bulk_prog D init anc (cycles - 3).
Proof. intros H. unfold rep_code_prog, bulk_prog. now rewrite (QCE.LibBuild.Proofs.qec_split_bulk D cycles H). Qed.

(* ------------------------------------------------------------------ one description and state, every cycle count >= 5 *)
Definition export_ok (D : rdesc) (init anc : list bool) (cycles : Z) : Prop :=
  lib_export_opt D init anc cycles = Some (lib_export D init anc cycles)
  /\ skeleton (lib_export D init anc cycles) = skeleton (rep_stim D init anc (Z.to_nat cycles)).

Lemma export_ok_intro D init anc cycles p :
  lib_export_opt D init anc cycles = Some p -> skeleton p = skeleton (rep_stim D init anc (Z.to_nat cycles)) ->
  export_ok D init anc cycles.
Proof. intros E S. unfold export_ok, lib_export. rewrite E. cbn [or_raised]. split; [reflexivity | exact S]. Qed.

Lemma export_ok_check D init anc cycles :
  skel_matches (lib_export_opt D init anc cycles) (rep_stim D init anc (Z.to_nat cycles)) = true -> export_ok D init anc cycles.
Proof. intros H. apply skel_matches_spec in H as (p & E & S). exact (export_ok_intro D init anc cycles p E S). Qed.

Lemma bulk_case D init anc I F S T POST cI cF S' :
  (forall n, tree_of_nodes lib_args (run_prog env0 (bulk_prog D init anc n)) = bulk_tree I F S T POST n) ->
  construct_item (Block 1 I) [] = Some cI ->
  construct_item (Block 2 F) [] = Some cF ->
  ofold construct_item S [] = Some S' ->
  not_single_rep S' = true ->
  (forall n, exists c, match ofold construct_item [Block 1 T] (cadd cF [SRep n S']) with
                       | Some inner => match cmul inner 1 with Some m => ofold construct_item POST (cadd cI m) | None => None end
                       | None => None
                       end = Some c) ->
  skeleton (nf [] (expand I ++ expand F ++ expand F)) = skeleton (init_part D init anc ++ block_first D 0 ++ block_first D 1) ->
  sh_after [] (expand I ++ expand F ++ expand F) = [0; 2] ->
  (forall t, sh_after [0; t] (expand S) = [0; t + 1]) ->
  (forall t, skeleton (nf [0; t] (expand S)) = skeleton (block_second D t)) ->
  (forall t, skeleton (nf [0; t] (expand T ++ expand POST)) = skeleton (block_third D t true) ++ final_skel D (t + 1)) ->
  forall cycles, 5 <= cycles < two64 + 3 -> export_ok D init anc cycles.
Proof.
  intros Ht HI HF HS Hns Hrest H0 Hs0 Hs1 H1 H2 cycles Hc.
  set (n := cycles - 3). assert (Hn : 2 <= n < two64) by (unfold n; lia).
  destruct (Hrest n) as [c Ec]. rewrite <- (export_shape I F S T POST n cI cF S' HI HF HS Hns Hn) in Ec.
  assert (E : lib_export_opt D init anc cycles = Some (c09_of_circuit c)).
  { unfold lib_export_opt, export_nodes_c09, export_nodes, lib_circuit.
    rewrite (rep_code_prog_bulk D init anc cycles) by lia. fold n. rewrite Ht, Ec. reflexivity. }
  apply (export_ok_intro D init anc cycles _ E).
  rewrite (export_nf _ c Ec), expand_bulk.
  set (m := Z.to_nat n). assert (Hm : (2 <= m)%nat) by (unfold m; lia).
  destruct (nf_rep (expand S) (block_second D) Hs1 H1 m 2) as [A B].
  set (X := expand I ++ expand F ++ expand F) in *. set (R := rep_list m (expand S)) in *. set (Y := expand T ++ expand POST) in *.
  rewrite (nf_app [] X (R ++ Y)), Hs0, (nf_app [0; 2] R Y), B.
  replace (Z.to_nat cycles) with (3 + m)%nat by (unfold m, n; lia).
  unfold rep_stim. rewrite (qec_part_bulk D m) by lia.
  rewrite !skeleton_app, H0, A, H2, skeleton_final, !skeleton_app. rewrite <- !app_assoc. f_equal. f_equal. f_equal.
  f_equal; [|f_equal].
  - f_equal. change 2%nat with (1 + 1)%nat at 1. rewrite <- !seq_shift, !flat_map_concat_map, !map_map, <- !flat_map_concat_map.
    apply flat_map_ext. intros k. f_equal. lia.
  - f_equal. f_equal. lia.
  - f_equal. lia.
Qed.

(* ------------------------------------------------------------------ only a prefix of the state lists is read *)
Lemma combine_firstn_r {A B} (l : list A) : forall (l' : list B), combine l (firstn (List.length l) l') = combine l l'.
Proof. induction l as [|x l IH]; intros [|y l']; simpl; try reflexivity. now rewrite IH. Qed.

Lemma init_ops_firstn D init anc :
  init_ops D init anc = init_ops D (firstn (List.length (r_data D)) init) (firstn (List.length (r_anc D)) anc).
Proof. unfold init_ops. now rewrite !combine_firstn_r. Qed.

Lemma rep_code_prog_firstn D init anc cycles :
  rep_code_prog D init anc cycles
  = rep_code_prog D (firstn (List.length (r_data D)) init) (firstn (List.length (r_anc D)) anc) cycles.
Proof.
  unfold rep_code_prog, circuit_initialize_with_heralded, circuit_initialize. now rewrite (init_ops_firstn D init anc).
Qed.

Lemma rep_stim_firstn D init anc c :
  rep_stim D init anc c = rep_stim D (firstn (List.length (r_data D)) init) (firstn (List.length (r_anc D)) anc) c.
Proof. unfold rep_stim, init_part. now rewrite !combine_firstn_r. Qed.

Lemma export_ok_firstn D init anc cycles :
  export_ok D (firstn (List.length (r_data D)) init) (firstn (List.length (r_anc D)) anc) cycles -> export_ok D init anc cycles.
Proof.
  unfold export_ok, lib_export, lib_export_opt, lib_circuit.
  now rewrite <- (rep_code_prog_firstn D init anc cycles), <- (rep_stim_firstn D init anc).
Qed.

(* every value list of length at most n *)
Fixpoint prefix_states (n : nat) : list (list bool) :=
  match n with O => [[]] | S k => [] :: flat_map (fun s => [false :: s; true :: s]) (prefix_states k) end.

Lemma firstn_in_prefix_states n : forall l, In (firstn n l) (prefix_states n).
Proof.
  induction n as [|n IH]; intros l; [left; reflexivity|]. destruct l as [|b l]; [left; reflexivity|].
  cbn [firstn prefix_states]. right. apply in_flat_map. exists (firstn n l). split; [apply IH|]. destruct b; simpl; auto.
Qed.

(* every cycle count the exporter accepts *)
Definition all_cycles_ok (D : rdesc) (init anc : list bool) : Prop :=
  forall cycles, 0 <= cycles < two64 + 3 -> export_ok D init anc cycles.

Lemma all_cycles_from_cases D init anc :
  export_ok D init anc 0 -> export_ok D init anc 1 -> export_ok D init anc 2 -> export_ok D init anc 3 -> export_ok D init anc 4 ->
  (forall cycles, 5 <= cycles < two64 + 3 -> export_ok D init anc cycles) -> all_cycles_ok D init anc.
Proof.
  intros H0 H1 H2 H3 H4 H5 cycles Hc.
  assert (E : cycles = 0 \/ cycles = 1 \/ cycles = 2 \/ cycles = 3 \/ cycles = 4 \/ 5 <= cycles) by lia.
  destruct E as [-> | [-> | [-> | [-> | [-> | E]]]]]; auto. apply H5. lia.
Qed.

Lemma all_states_from_prefixes D :
  Forall (fun i => Forall (fun a => all_cycles_ok D i a) (prefix_states (List.length (r_anc D))))
         (prefix_states (List.length (r_data D))) ->
  forall init anc, all_cycles_ok D init anc.
Proof.
  intros H init anc cycles Hc. apply export_ok_firstn. rewrite Forall_forall in H.
  specialize (H _ (firstn_in_prefix_states (List.length (r_data D)) init)). rewrite Forall_forall in H.
  exact (H _ (firstn_in_prefix_states (List.length (r_anc D)) anc) cycles Hc).
Qed.

(* ------------------------------------------------------------------ the cases, each evaluated by the VM *)
Ltac vm_lhs :=
  lazymatch goal with
  | |- ?L = _ => let v := eval vm_compute in L in transitivity v; [vm_cast_no_check (eq_refl v) | ]
  end.

(* n (the count of the repeated block) and t (the round number) stay free variables in the evaluations *)
Ltac bulk_solve :=
  eapply bulk_case;
  [ intros n; vm_lhs; unfold bulk_tree; reflexivity
  | vm_lhs; reflexivity
  | vm_lhs; reflexivity
  | vm_lhs; reflexivity
  | vm_compute; reflexivity
  | intros n; eexists; vm_lhs; reflexivity
  | vm_compute; reflexivity
  | vm_compute; reflexivity
  | intros t; vm_compute; reflexivity
  | intros t; vm_compute; reflexivity
  | intros t; vm_compute; reflexivity ].

Ltac small_solve := apply export_ok_check; vm_cast_no_check (eq_refl true).

Ltac case_solve := apply all_cycles_from_cases; [small_solve | small_solve | small_solve | small_solve | small_solve | bulk_solve].

Ltac states_solve :=
  apply all_states_from_prefixes;
  lazymatch goal with
  | |- Forall _ (prefix_states ?n) => let v := eval vm_compute in (prefix_states n) in change (prefix_states n) with v
  end;
  repeat (apply Forall_cons; [
    lazymatch goal with
    | |- Forall _ (prefix_states ?n) => let v := eval vm_compute in (prefix_states n) in change (prefix_states n) with v
    end;
    repeat (apply Forall_cons; [case_solve|]); apply Forall_nil |]);
  apply Forall_nil.

(* distance 2: 7 x 3 states, refocusing on / off *)
Theorem chain2_all_cycles : forall rf init anc cycles, 0 <= cycles < two64 + 3 ->
  lib_export_opt (desc_of_chain 2 rf) init anc cycles = Some (lib_export (desc_of_chain 2 rf) init anc cycles)
  /\ skeleton (lib_export (desc_of_chain 2 rf) init anc cycles)
     = skeleton (rep_stim (desc_of_chain 2 rf) init anc (Z.to_nat cycles)).
Proof.
  intros rf init anc. change (all_cycles_ok (desc_of_chain 2 rf) init anc). revert init anc.
  destruct rf; states_solve.
Qed.

(* distance 3: 15 x 7 states, refocusing on / off *)
Theorem chain3_all_cycles : forall rf init anc cycles, 0 <= cycles < two64 + 3 ->
  lib_export_opt (desc_of_chain 3 rf) init anc cycles = Some (lib_export (desc_of_chain 3 rf) init anc cycles)
  /\ skeleton (lib_export (desc_of_chain 3 rf) init anc cycles)
     = skeleton (rep_stim (desc_of_chain 3 rf) init anc (Z.to_nat cycles)).
Proof.
  intros rf init anc. change (all_cycles_ok (desc_of_chain 3 rf) init anc). revert init anc.
  destruct rf; states_solve.
Qed.

(* ------------------------------------------------------------------ the record, every cycle count
   C09_chain_record carried over to the export of the model circuit: executing its gates, resets and measurements (C09's
   semantics) gives exactly the protocol's measurement record *)
Theorem chain2_record_all_cycles : forall rf init anc cycles,
  List.length init = 2%nat -> (List.length anc <= 1)%nat -> 0 <= cycles < two64 + 3 ->
  exec (gate_part (lib_export (desc_of_chain 2 rf) init anc cycles))
  = Some (protocol_record init anc (Z.to_nat cycles) rf, [], []).
Proof.
  intros rf init anc cycles Hi Ha Hc. destruct (chain2_all_cycles rf init anc cycles Hc) as [_ S].
  refine (record_of_skeleton _ init anc _ _ _ _ _ (chain_record 2 rf init anc (Z.to_nat cycles) _ Hi _) S); simpl; lia.
Qed.

Theorem chain3_record_all_cycles : forall rf init anc cycles,
  List.length init = 3%nat -> (List.length anc <= 2)%nat -> 0 <= cycles < two64 + 3 ->
  exec (gate_part (lib_export (desc_of_chain 3 rf) init anc cycles))
  = Some (protocol_record init anc (Z.to_nat cycles) rf, [], []).
Proof.
  intros rf init anc cycles Hi Ha Hc. destruct (chain3_all_cycles rf init anc cycles Hc) as [_ S].
  refine (record_of_skeleton _ init anc _ _ _ _ _ (chain_record 3 rf init anc (Z.to_nat cycles) _ Hi _) S); simpl; lia.
Qed.

(* ------------------------------------------------------------------ non-vacuity *)
(* 100 cycles (outside every evaluated list): the hypotheses are met, the export does not raise, 1610 instructions in normal
   form, 101 detectors + 2 observable includes *)
Example all_cycles_example :
  let D := desc_of_chain 2 true in
  skeleton (lib_export D [true; false] [true] 100) = skeleton (rep_stim D [true; false] [true] 100)
  /\ raised_free (lib_export D [true; false] [true] 100) = true
  /\ List.length (lib_export D [true; false] [true] 100) = 1610%nat
  /\ List.length (filter is_annotation (lib_export D [true; false] [true] 100)) = 103%nat.
Proof.
  intros D. split; [apply (chain2_all_cycles true [true; false] [true] 100); unfold two64; lia|].
  vm_compute. repeat split.
Qed.

(* the bound is sharp: with cycles - 3 = 2^64 Stim refuses the repetition count, the exporter raises *)
Example all_cycles_bound_sharp : lib_export_opt (desc_of_chain 2 true) [true; false] [true] (two64 + 3) = None.
Proof. vm_compute. reflexivity. Qed.
