(* LIBBUILD -- (partial) the C10 no-overlap certificate on the CONSTRUCTOR programs: for the chain descriptions and inputs
   listed in `cert_inputs` the certificate of C10/Model.v holds for run_prog (rep_code_prog ...) as constructed and
   unrolled, hence (C10_certified) the constructed circuit double-books no channel under EVERY admissible duration
   setting.  Finite list, evaluated by the VM: distance 2 with every data state, ancilla state absent / ONE, refocusing on and off,
   0..6 cycles; distance 3 with selected states and 0..5 cycles.  The statement for all d is NOT proved (no closed-form
   symbolic schedule of the round is derived). *)
From Coq Require Import ZArith List Bool Lia.
Import ListNotations.
From QCE Require Import Base.Prelude Core.Model Core.Run Core.BfsWf Lib.Run C09.Model C10.Model C10.Run C10.Proofs LibBuild.Model.
From Gen Require Import Ident Classes.
Open Scope Z_scope.

(* ------------------------------------------------------------------ building never looks at the duration setting *)
Lemma run_cmds_env_of e1 e2 cs : Forall (fun c => cmd_op e1 c = cmd_op e2 c) cs -> forall ns, run_cmds e1 cs ns = run_cmds e2 cs ns.
Proof.
  induction 1 as [|c t Hc _ IH]; intros ns; [reflexivity|].
  rewrite !run_cmds_cons, Hc. change (add_node e1) with (add_node e2). apply IH.
Qed.

Lemma cmd_op_env e1 e2 c : cmd_op e1 c = cmd_op e2 c.
Proof.
  induction c as [l r | l t | r body IH] using cmd_ind'; try reflexivity.
  cbn [cmd_op]. rewrite (run_cmds_env_of e1 e2 body IH), (copy_nodes_env e1 e2). reflexivity.
Qed.

Theorem run_prog_env_indep e1 e2 p : run_prog e1 p = run_prog e2 p.
Proof. apply run_cmds_env_of. apply Forall_forall. intros c _. apply cmd_op_env. Qed.

(* ------------------------------------------------------------------ the inputs the certificate is evaluated on *)
Definition cert_input := (nat * bool * list bool * list bool * Z)%type.      (* distance, refocusing, data, ancilla, cycles *)
Definition cert_prog (x : cert_input) : list cmd :=
  let '(d, rf, init, anc, cycles) := x in rep_code_prog (desc_of_chain d rf) init anc cycles.

Definition prod5 (ds : list nat) (inits ancs : list (list bool)) (cs : list Z) : list cert_input :=
  flat_map (fun d => flat_map (fun rf => flat_map (fun i => flat_map (fun a => map (fun c => (d, rf, i, a, c)) cs) ancs) inits) [true; false]) ds.

Definition cert_inputs : list cert_input :=
  prod5 [2%nat] [[false; false]; [false; true]; [true; false]; [true; true]] [[]; [true]] [0; 1; 2; 3; 4; 5; 6]
  ++ prod5 [3%nat] [[false; false; false]; [true; false; true]] [[]; [true; false]] [0; 1; 2; 3; 4; 5].

Definition env0 : denv := mk_env 8 2 4 16 [].

Lemma cert_checked :
  forallb (fun x => cert_no_overlap (run_prog env0 (cert_prog x))
                    && cert_no_overlap (apply_modifiers env0 1 (run_prog env0 (cert_prog x)))) cert_inputs = true.
Proof. vm_cast_no_check (eq_refl true). Qed.      (* evaluated once, by the kernel's VM at Qed *)

Theorem chain_no_overlap_partial x : In x cert_inputs -> forall env, env_nonneg env -> env_parity env ->
  let ns := run_prog env (cert_prog x) in
  no_overlap (o_ops (model_obs env ns)) = true /\ barrier_clear (o_ops (model_obs env ns)) = true
  /\ no_overlap (o_ops (model_obs env (apply_modifiers env 1 ns))) = true
  /\ barrier_clear (o_ops (model_obs env (apply_modifiers env 1 ns))) = true.
Proof.
  intros Hx env N P ns. pose proof cert_checked as H. rewrite forallb_forall in H. specialize (H x Hx).
  apply andb_true_iff in H as [H1 H2]. unfold ns. rewrite (run_prog_env_indep env env0).
  destruct (certified _ H1 env N P) as [A B]. destruct (certified_unrolled _ env0 H2 env N P) as [C D].
  repeat split; assumption.
Qed.
