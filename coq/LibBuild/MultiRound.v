(* LIBBUILD -- vocabulary for the theorems about the MULTI-ROUND constructor `multi_round_nodes` (LibBuild/Model.v):
   what is read off the constructed circuit, the size hypotheses, and the decidable side condition.  Definitions only. *)
From Coq Require Import ZArith List Bool.
Import ListNotations.
From QCE Require Import Base.Prelude Core.Model Core.Run C06.Proofs C09.Model C13.Model LibBuild.Model LibBuild.Tags LibBuild.Counts LibBuild.Layouts.
From Gen Require Import Ident Classes Kernels.
Open Scope Z_scope.

(* the acquisition tags of qubit q's measurements in the Core listing of a graph, in listing order *)
Definition graph_tags (env : denv) (q : Z) (ns : list node) : list Z := tags_of q (map e_leaf (listing env ns)).

(* one block of the experiment before it is nested: construct_repetition_code_circuit(r).apply_modifiers().flatten() *)
Definition block_graph (env : denv) (D : rdesc) (init anc : list bool) (r : Z) : list node :=
  apply_modifiers env 1 (run_prog env (rep_code_prog D init anc r)).
Definition block_flat (env : denv) (D : rdesc) (init anc : list bool) (r : Z) : option (list node) :=
  flatten env (block_graph env D init anc r).

(* construct_calibration_circuit(QUTRIT) before it is nested *)
Definition cal_graph (env : denv) (qs : list Z) : list node := run_prog env (calibration_prog qs true).

(* what the multi-round constructor's circuit carries for qubit q (None where Core's flatten is undefined) *)
Definition circuit_tags (env : denv) (D : rdesc) (init anc : list bool) (rounds : list Z) (q : Z) : option (list Z) :=
  option_map (graph_tags env q) (multi_round_nodes env D init anc rounds).

(* the constructors never consult the duration setting (proved: MultiRoundProofs.block_flat_env); the side conditions are
   evaluated under this one *)
Definition model_env : denv := mk_env 8 2 4 16 [].

Definition head_is (t : Z) (l : list Z) : bool := match l with x :: _ => x =? t | [] => false end.

(* DECIDABLE SIDE CONDITION, per block: the block can be flattened (Core's flatten is defined: outside finding F10) and in
   the listing of the flattened block the first measurement of qubit a is the heralded one.  Flattening re-inserts the
   listed operations one by one; Core proves that this keeps the multiset of operations (C11).  All other measurements of
   an ancilla carry one and the same tag, so the position of the heralded one is all that is needed.
   MultiRoundOrder.v proves the second half for every description whose gates act on its qubits and every round count, so
   that the condition is equivalent to "flatten is defined on the block" (defined_heralded_first). *)
Definition block_heralded_first (D : rdesc) (init anc : list bool) (r a : Z) : bool :=
  match block_flat model_env D init anc r with
  | Some f => head_is T_HERALDED (graph_tags model_env a f)
  | None => false
  end.

(* stronger and also decidable: flattening keeps the listing order of the whole block *)
Definition block_in_order (D : rdesc) (init anc : list bool) (r : Z) : bool :=
  match block_flat model_env D init anc r with
  | Some f => list_eqb Nat.eqb (bfs (parents f)) (seq 0 (length f))
  | None => false
  end.

(* size hypotheses: beyond them the documented graph-depth limit (4999 layers) truncates a listing and the statements are
   false.  Per block: C06's hypothesis for the unrolled listing, and at most 4999 operations in the flattened block (a flat
   graph may be one single chain); top level: 2 nodes per round and the calibration block form one chain; calibration: at
   most 5 operations per qubit and state. *)
Definition block_small (D : rdesc) (init anc : list bool) (r : Z) : Prop :=
  unroll_small_prog (rep_code_prog D init anc r) /\ Z.of_nat (n_ops (rep_code_prog D init anc r)) <= 4999.
Definition multi_small (D : rdesc) (init anc : list bool) (rounds : list Z) : Prop :=
  Forall (fun r => 0 <= r /\ block_small D init anc r) rounds
  /\ 2 * Z.of_nat (length rounds) + 1 <= 4999
  /\ 5 * Z.of_nat (length (r_qubits D)) <= 4999.

(* C13's closed form in the harness' tag numbers *)
Definition cal_tags : list Z := map z_of_tag (map fst calibration_labelled).

(* the labelled sequence read off the NESTING of the constructed circuit, everything in LISTING order: node 2j of the top
   level is the sub-circuit of the j-th entry of `rounds` (node 2j+1 the Barrier behind it), the last node is the
   calibration sub-circuit, whose three nodes are the sub-circuits of the calibrated states 0, 1, 2 *)
Definition op_tags (q : Z) (o : op) : list Z := tags_of q (C02.Proofs.op_leaves o).
Definition listed_ops (ns : list node) : list op := map (fun i => n_op (nth i ns (Node None LNone (OComp 0 [])))) (bfs (parents ns)).
Definition state_of (i : nat) : StateKey := nth i StateKey_all StateKey_STATE_0.
Fixpoint labelled_ops (q : Z) (rounds : list Z) (os : list op) : list (Z * label) :=
  match rounds, os with
  | r :: t, o :: _ :: os' => map (fun x => (x, Block r)) (op_tags q o) ++ labelled_ops q t os'
  | [], [OComp _ cs] =>
      flat_map (fun io => map (fun x => (x, Cal (state_of (fst io)))) (op_tags q (snd io)))
               (combine (seq 0 (length cs)) (listed_ops cs))
  | _, _ => []
  end.
Definition circuit_labelled (env : denv) (D : rdesc) (init anc : list bool) (rounds : list Z) (q : Z) : option (list (Z * label)) :=
  option_map (fun ns => labelled_ops q rounds (listed_ops ns)) (multi_round_nodes env D init anc rounds).

(* C13's vocabulary over the harness' tag numbers *)
Definition z_labelled (l : list (tag * label)) : list (Z * label) := map (fun x => (z_of_tag (fst x), snd x)) l.
Definition has_tag (t : Z) (x : Z) : bool := x =? t.
Definition is_zl (t : Z) (l : label) (x : Z * label) : bool := (fst x =? t) && label_eqb (snd x) l.
