(* C01 — every operation sits where its relation says: specification predicate evaluated on what the implementation
   reported (never calls the model), and the tie `agree` (= Core.Run.agree_core). *)
From Coq Require Import ZArith List Bool.
Import ListNotations.
From QCE Require Import Base.Prelude Core.Model Core.Run.
From Gen Require Import Ident Classes.
Open Scope Z_scope.

Definition case := Core.Run.case.
Definition agree (c : case) : bool := agree_core c.

(* E1: end = start + duration, durations non-negative *)
Definition e1 (o : oentry) : bool := (oe_e o =? oe_s o + oe_d o) && (0 <=? oe_d o).
(* E2/E3: the reported relation's equation holds against the referent's reported times; no relation = start of the circuit *)
Definition e2 (o : oentry) : bool :=
  match oe_rel o with
  | None => oe_s o =? 0
  | Some (t, rs, re) => oe_s o =? start_from t rs re (oe_d o)
  end.
(* a multi-link is FOLLOWED_BY its latest-ending member *)
Definition multi_ok (o : oentry) : bool :=
  match oe_multi o with
  | [] => true
  | (_, e0) :: ms =>
      match oe_rel o with
      | Some (t, _, re) => RelationType_eqb t RelationType_FOLLOWED_BY && (re =? fold_left Z.max (map snd ms) e0)
      | None => false
      end
  end.
Definition entry_ok (o : oentry) : bool := e1 o && e2 o && multi_ok o.
Definition obs_ok (ob : option obs) : bool := match ob with None => true | Some o => forallb entry_ok (o_ops o) end.

(* E4 (flat programs): an operation added without a relation reports FOLLOWED_BY a channel-sharing operation added before it
   whose relation depth is maximal among those, or no relation when there is none *)
Definition is_flat (p : list cmd) : bool := forallb (fun c => match c with CSub _ _ => false | _ => true end) p.
Definition cmd_implicit (c : cmd) : bool := match c with CAdd _ (Some _) => false | _ => true end.
Fixpoint depth_of (ops : list oentry) (fuel : nat) (i : Z) : Z :=
  match fuel with
  | O => 0
  | S f => match nth_error ops (Z.to_nat i) with
           | Some o => if oe_refpos o <? 0 then 0 else 1 + depth_of ops f (oe_refpos o)
           | None => 0
           end
  end.
Definition chans_share (a b : list ChannelIdentifier) : bool := existsb (fun x => existsb (fun y => ChannelIdentifier_eq y x) b) a.
Definition zindices {A} (l : list A) : list Z := map Z.of_nat (seq 0 (length l)).
Definition e4_entry (p : list cmd) (ops : list oentry) (o : oentry) : bool :=
  if oe_cmd o <? 0 then true else
  match nth_error p (Z.to_nat (oe_cmd o)) with
  | None => false
  | Some c =>
      if negb (cmd_implicit c) then true else
      let fuel := S (length ops) in
      let cands := filter (fun j => match nth_error ops (Z.to_nat j) with
                                    | Some oj => (0 <=? oe_cmd oj) && (oe_cmd oj <? oe_cmd o) && chans_share (oe_chans o) (oe_chans oj)
                                    | None => false end) (zindices ops) in
      match cands with
      | [] => match oe_rel o with None => true | Some _ => false end
      | _ => match oe_rel o with
             | Some (t, _, _) => RelationType_eqb t RelationType_FOLLOWED_BY
                                 && existsb (Z.eqb (oe_refpos o)) cands
                                 && forallb (fun j => depth_of ops fuel j <=? depth_of ops fuel (oe_refpos o)) cands
             | None => false
             end
      end
  end.
Definition e4 (c : case) : bool :=
  if is_flat (c_prog c) then
    match c_plain c with None => true | Some ob => forallb (e4_entry (c_prog c) (o_ops ob)) (o_ops ob) end
  else true.

(* E4 at the top level of ANY program (nested ones included).  The top-level entities are the commands; the driver reports for
   every listed operation the command it belongs to (oe_cmd = k for the operation added by command k, -(10+k) for an operation
   inside the sub-circuit added by command k) and, for a referent that is a top-level sub-circuit, -(10+k) as oe_refpos.
   An entity's channels are those of the listed operations it contains (a sub-circuit's channel_identifiers are the de-duplicated
   union of its contents'); its relation depth among the top-level entities is read off the referents the top-level handles report
   (c_top_ref; a sub-circuit's own relation is not always visible at its listed operations: its relation-free first element may
   be an empty sub-circuit). *)
Definition top_of (o : oentry) : Z :=
  if 0 <=? oe_cmd o then oe_cmd o else if oe_cmd o <=? -10 then - oe_cmd o - 10 else -1.
Definition ref_ent (ops : list oentry) (o : oentry) : Z :=
  if 0 <=? oe_refpos o then match nth_error ops (Z.to_nat (oe_refpos o)) with Some r => top_of r | None => -1 end
  else if oe_refpos o <=? -10 then - oe_refpos o - 10 else -1.
Definition ent_ops (ops : list oentry) (k : Z) : list oentry := filter (fun o => top_of o =? k) ops.
Definition ent_chans (ops : list oentry) (k : Z) : list ChannelIdentifier := flat_map oe_chans (ent_ops ops k).
(* the entity an entity is placed after, as its handle (the object add() returned) reports it after the listing: c_top_ref *)
Definition ent_ref (top_ref : list Z) (k : Z) : Z := if k <? 0 then -1 else nth (Z.to_nat k) top_ref (-1).
Fixpoint ent_depth (top_ref : list Z) (fuel : nat) (k : Z) : Z :=
  match fuel with
  | O => 0
  | S f => let r := ent_ref top_ref k in if r <? 0 then 0 else 1 + ent_depth top_ref f r
  end.
Definition e4_top_entry (p : list cmd) (top_ref : list Z) (ops : list oentry) (o : oentry) : bool :=
  if oe_cmd o <? 0 then true else
  match nth_error p (Z.to_nat (oe_cmd o)) with
  | Some (CAdd _ None) =>
      let fuel := S (length p) in
      let cands := filter (fun j => chans_share (oe_chans o) (ent_chans ops j)) (map Z.of_nat (seq 0 (Z.to_nat (oe_cmd o)))) in
      match cands with
      | [] => match oe_rel o with None => true | Some _ => false end
      | _ => match oe_rel o with
             | Some (t, _, _) => RelationType_eqb t RelationType_FOLLOWED_BY
                                 && existsb (Z.eqb (ref_ent ops o)) cands
                                 && (ref_ent ops o =? ent_ref top_ref (oe_cmd o))      (* the handle and the listed operation agree *)
                                 && forallb (fun j => ent_depth top_ref fuel j <=? ent_depth top_ref fuel (ref_ent ops o)) cands
             | None => false
             end
      end
  | _ => true
  end.
Definition e4_top (c : case) : bool :=
  match c_plain c with None => true | Some ob => forallb (e4_top_entry (c_prog c) (c_top_ref c) (o_ops ob)) (o_ops ob) end.

Definition spec_ok (c : case) : bool :=
  obs_ok (c_plain c) && obs_ok (c_plain_dur_first c) && obs_ok (c_unrolled c) && obs_ok (c_unrolled_twice c) && e4 c && e4_top c.
