(* C01 lemmas: the relation equations computed by the model, over the whole times table of a graph, through nesting, and the
   implicit placement performed by add_node.  Built on Core/TimesProofs.v, Core/TimesListing.v, Core/TimesWf.v. *)
From Coq Require Import ZArith List Bool Lia ZifyBool Arith.
Import ListNotations.
From QCE Require Import Base.Prelude Core.Model Core.Run Core.BfsProofs Core.BfsWf Core.TimesProofs Core.TimesListing Core.TimesWf.
From Gen Require Import Ident Classes.
Open Scope Z_scope.

(* the three relation equations, for a referent occupying [rs, re] and an operation of duration d starting at s *)
Definition rel_eq (t : RelationType) (rs re s d : Z) : Prop :=
  match t with
  | RelationType_FOLLOWED_BY => s = re                 (* starts when the referenced operation ends *)
  | RelationType_JOINED_START => s = rs                (* starts when it starts *)
  | RelationType_JOINED_END => s + d = re              (* ends when it ends *)
  end.

Lemma start_from_sound t rs re d : rel_eq t rs re (start_from t rs re d) d.
Proof. destruct t; simpl; lia. Qed.

Lemma start_from_unique t rs re d s : rel_eq t rs re s d -> s = start_from t rs re d.
Proof. destruct t; simpl; lia. Qed.

Lemma rel_eq_iff t rs re s d : rel_eq t rs re s d <-> s = start_from t rs re d.
Proof. split; [apply start_from_unique | intros ->; apply start_from_sound]. Qed.

(* ------------------------------------------------------------------ the equation of a link against a table *)
(* no relation: the operation starts with its enclosing (sub-)circuit, i.e. it satisfies the equation of the enclosing
   circuit's own link (the hand-off), or starts at the origin when there is none *)
Definition ctx_eq (c : ctx) (s d : Z) : Prop :=
  match c with None => s = 0 | Some (t, rs, re) => rel_eq t rs re s d end.

Definition link_eq (c : ctx) (tm : list (Z * Z)) (l : link) (s d : Z) : Prop :=
  match l with
  | LNone | LDangling _ | LMulti [] => ctx_eq c s d
  | LRel t p => rel_eq t (fst (nth p tm (0, 0))) (snd (nth p tm (0, 0))) s d
  | LMulti ps => exists m, multi_first_latest tm ps m /\ s = snd (nth m tm (0, 0))   (* FOLLOWED_BY the first latest-ending member *)
  end.

Lemma ctx_eq_iff c s d : ctx_eq c s d <-> s = ctx_start c d.
Proof. destruct c as [[[t rs] re]|]; simpl; [apply rel_eq_iff | tauto]. Qed.

Lemma link_eq_iff c tm l s d : link_eq c tm l s d <-> s = link_start c tm l d.
Proof.
  destruct l as [|t p|ps|t]; simpl; try apply ctx_eq_iff.
  - destruct (nth p tm (0, 0)) as [rs re]. simpl. apply rel_eq_iff.
  - destruct ps as [|p ps]; [apply ctx_eq_iff|].
    destruct (multi_ref tm (p :: ps)) as [m|] eqn:E; [|simpl in E; discriminate].
    pose proof (multi_ref_spec _ _ _ E) as Sm. split.
    + intros (m' & Sm' & ->). now rewrite (multi_first_latest_unique _ _ _ _ Sm' Sm).
    + intros ->. exists m. auto.
Qed.

(* ------------------------------------------------------------------ C01: equations, uniqueness, stability *)
Definition node_eqs (env : denv) (c : ctx) (ns : list node) (tm : list (Z * Z)) : Prop :=
  forall i n, nth_error ns i = Some n ->
    snd (nth i tm (0, 0)) = fst (nth i tm (0, 0)) + dur_of env (n_op n) /\
    link_eq c tm (n_link n) (fst (nth i tm (0, 0))) (dur_of env (n_op n)).

Theorem node_times_equations env c ns : wf_links (node_hs env ns) -> node_eqs env c ns (node_times env c ns).
Proof.
  intros W i n E. rewrite node_times_eq. rewrite (times_sound c _ W i _ _ (node_hs_nth env ns i n E)). simpl.
  split; [reflexivity|]. apply link_eq_iff. reflexivity.
Qed.

Theorem node_times_unique env c ns tm' : wf_links (node_hs env ns) -> length tm' = length ns ->
  node_eqs env c ns tm' -> tm' = node_times env c ns.
Proof.
  intros W L Q. rewrite node_times_eq. apply times_unique; [exact W|]. split; [now rewrite node_hs_length|].
  intros i l d E. apply node_hs_nth_inv in E as (n & En & -> & ->). destruct (Q i n En) as [Q1 Q2].
  apply link_eq_iff in Q2. rewrite <- Q2. destruct (nth i tm' (0, 0)) as [s e]; simpl in *. now rewrite Q1.
Qed.

Theorem node_times_prefix_stable env c ns ms i : (i < length ns)%nat ->
  nth i (node_times env c (ns ++ ms)) (0, 0) = nth i (node_times env c ns) (0, 0).
Proof.
  intros Hi. rewrite !node_times_eq, node_hs_app. apply times_prefix_nth. now rewrite node_hs_length.
Qed.

Corollary add_node_keeps_times env c ns o l i : (i < length ns)%nat ->
  nth i (node_times env c (add_node env ns o l)) (0, 0) = nth i (node_times env c ns) (0, 0).
Proof. intros Hi. rewrite add_node_eq. apply node_times_prefix_stable. exact Hi. Qed.

(* ------------------------------------------------------------------ C01 through nesting *)
(* what a graph lists comes from the tables: the entry of a leaf node is its row; a block node lists its own graph, whose
   table is computed in the context sub_ctx (its own link, or the inherited one) -- so node_times_equations, which holds for
   EVERY context, gives the equations at every level, un-related inner operations satisfying the block's equation *)
Lemma listing_in_inv env r ns c se e : In e (listing_op env (OComp r ns) c se) ->
  exists i n, In i (bfs (parents ns)) /\ nth_error ns i = Some n /\
    In e (listing_op env (n_op n) (sub_ctx c (node_times env c ns) (n_link n)) (nth i (node_times env c ns) (0, 0))).
Proof.
  rewrite listing_op_unfold. intros H. apply in_flat_map in H as (i & Hi & H). exists i.
  destruct (nth_error ns i) as [n|] eqn:En.
  - exists n. split; [exact Hi|]. split; [reflexivity|].
    assert (Hl : (i < length ns)%nat) by (apply nth_error_Some; congruence).
    rewrite (nth_indep _ (fun _ _ => []) (listing_op env (n_op n))) in H by (rewrite map_length; exact Hl).
    rewrite (map_nth (fun n => listing_op env (n_op n)) ns n i) in H.
    rewrite (nth_indep (map n_link ns) LNone (n_link n)) in H by (rewrite map_length; exact Hl).
    rewrite (map_nth n_link ns n i) in H. now rewrite (nth_error_nth _ _ n En) in H.
  - apply nth_error_None in En. rewrite (nth_overflow (map _ ns)) in H by (rewrite map_length; exact En). destruct H.
Qed.

Lemma listing_leaf env l c se e : In e (listing_op env (OLeaf l) c se) -> e = {| e_leaf := l; e_start := fst se; e_end := snd se |}.
Proof. simpl. intros [<- | []]. reflexivity. Qed.

(* the sub-context of a node is the context in which the equations of its inner graph are stated: for a related block it is
   its own relation against the referent's row of the enclosing table *)
Lemma sub_ctx_rel c tm t p : sub_ctx c tm (LRel t p) = Some (t, fst (nth p tm (0, 0)), snd (nth p tm (0, 0))).
Proof. simpl. destruct (nth p tm (0, 0)); reflexivity. Qed.

Lemma sub_ctx_none c tm : sub_ctx c tm LNone = c.
Proof. reflexivity. Qed.

Lemma sub_ctx_multi c tm ps m : multi_ref tm ps = Some m ->
  sub_ctx c tm (LMulti ps) = Some (RelationType_FOLLOWED_BY, fst (nth m tm (0, 0)), snd (nth m tm (0, 0))).
Proof. intros E. simpl. rewrite E. destruct (nth m tm (0, 0)); reflexivity. Qed.

(* ------------------------------------------------------------------ C01: implicit placement by add_node *)
Definition implicit_link (n : nat) (l : link) : Prop :=
  match l with
  | LNone | LDangling _ | LMulti [] => True
  | LRel _ p => (n <= p)%nat
  | LMulti _ => False
  end.

Definition implicit_node (ns : list node) (o : op) : node :=
  match leaf_at_any ns (op_channels o) with
  | None => Node None LNone o
  | Some i => Node (Some i) (LRel RelationType_FOLLOWED_BY i) o
  end.

Lemma latest_of_nil ns : latest_of ns [] = None.
Proof. unfold latest_of. induction (rev (bfs (parents ns))) as [|x t IH]; simpl; [reflexivity | exact IH]. Qed.

Theorem add_node_implicit env ns o l : implicit_link (length ns) l -> add_node env ns o l = ns ++ [implicit_node ns o].
Proof.
  intros I. unfold add_node, implicit_node. f_equal. f_equal.
  destruct l as [|t p|[|q ps]|t]; simpl in I; try reflexivity; try contradiction.
  - destruct (Nat.ltb_spec p (length ns)); [lia | reflexivity].
  - now rewrite latest_of_nil.
Qed.

Theorem add_node_explicit env ns o t p : (p < length ns)%nat ->
  add_node env ns o (LRel t p) = ns ++ [Node (Some p) (LRel t p) o].
Proof. intros Hp. unfold add_node. destruct (Nat.ltb_spec p (length ns)); [reflexivity | lia]. Qed.

(* the row of the newly added node *)
Lemma node_times_last env c ns n :
  nth (length ns) (node_times env c (ns ++ [n])) (0, 0) =
    (link_start c (node_times env c ns) (n_link n) (dur_of env (n_op n)),
     link_start c (node_times env c ns) (n_link n) (dur_of env (n_op n)) + dur_of env (n_op n)).
Proof.
  rewrite !node_times_eq, node_hs_app. unfold node_hs at 2. simpl. rewrite times_snoc.
  rewrite <- (node_hs_length env ns), <- (times_length c (node_hs env ns)). apply nth_middle.
Qed.

(* an operation added without a (usable) relation: FOLLOWED_BY the last listed channel-sharing node, which has maximal
   relation depth among the listed channel-sharing nodes; at the start of the circuit's context if there is none *)
Theorem implicit_placement env c ns o l : wf_parents (parents ns) -> implicit_link (length ns) l ->
  let ns' := add_node env ns o l in
  let tm' := node_times env c ns' in
  let d := dur_of env o in
  match leaf_at_any ns (op_channels o) with
  | Some i =>
      nth_error ns' (length ns) = Some (Node (Some i) (LRel RelationType_FOLLOWED_BY i) o) /\
      (i < length ns)%nat /\
      nth (length ns) tm' (0, 0) = (snd (nth i tm' (0, 0)), snd (nth i tm' (0, 0)) + d) /\
      any_match (op_channels o) (node_chans ns i) = true /\
      (forall j, In j (bfs (parents ns)) -> any_match (op_channels o) (node_chans ns j) = true ->
                 (depth (parents ns) j <= depth (parents ns) i)%nat)
  | None =>
      nth_error ns' (length ns) = Some (Node None LNone o) /\
      nth (length ns) tm' (0, 0) = (ctx_start c d, ctx_start c d + d) /\
      (forall j, In j (bfs (parents ns)) -> any_match (op_channels o) (node_chans ns j) = false)
  end.
Proof.
  intros W I ns' tm' d. subst ns' tm'. rewrite (add_node_implicit env ns o l I). unfold implicit_node.
  destruct (leaf_at_any ns (op_channels o)) as [i|] eqn:E.
  - pose proof (leaf_at_any_lt _ _ _ E) as Hi. destruct (leaf_at_any_some _ _ _ W E) as (_ & M & _).
    split; [rewrite nth_error_app2 by lia; now rewrite Nat.sub_diag|]. split; [exact Hi|].
    split; [|split; [exact M | apply (leaf_at_any_max_depth _ _ _ W E)]].
    rewrite node_times_last. simpl n_link. simpl n_op. fold d. simpl link_start.
    rewrite (node_times_prefix_stable env c ns _ i Hi). destruct (nth i (node_times env c ns) (0, 0)); reflexivity.
  - split; [rewrite nth_error_app2 by lia; now rewrite Nat.sub_diag|].
    split; [|apply leaf_at_any_none; exact E]. rewrite node_times_last. reflexivity.
Qed.

(* ------------------------------------------------------------------ every program: equations at every nesting level *)
(* all tables met while listing: the graph itself in its context, and recursively the graph of every block node in the context
   handed to it *)
Inductive table_of (env : denv) : ctx -> list node -> ctx -> list node -> Prop :=
| table_here c ns : table_of env c ns c ns
| table_sub c ns i p l r sub c' ns' :
    nth_error ns i = Some (Node p l (OComp r sub)) ->
    table_of env (sub_ctx c (node_times env c ns) l) sub c' ns' ->
    table_of env c ns c' ns'.

Lemma table_of_wf env c ns c' ns' r : table_of env c ns c' ns' -> wf_links_op (OComp r ns) -> wf_node_links ns'.
Proof.
  intros T. revert r. induction T as [c ns | c ns i p l r0 sub c' ns' E T IH]; intros r W.
  - apply wf_links_op_inv in W. exact (proj1 W).
  - apply wf_links_op_inv in W as [_ WD]. rewrite Forall_forall in WD. apply nth_error_In in E.
    apply (IH r0). exact (WD _ E).
Qed.

Theorem nested_equations env c ns c' ns' r : wf_links_op (OComp r ns) -> table_of env c ns c' ns' ->
  node_eqs env c' ns' (node_times env c' ns').
Proof.
  intros W T. apply node_times_equations. apply wf_node_links_hs. exact (table_of_wf env c ns c' ns' r T W).
Qed.

(* every listed entry is the row of a leaf node in one of these tables *)
Definition is_row (env : denv) (c : ctx) (ns : list node) (e : entry) : Prop :=
  exists c' ns' i n, table_of env c ns c' ns' /\ nth_error ns' i = Some n /\ n_op n = OLeaf (e_leaf e) /\
                     (e_start e, e_end e) = nth i (node_times env c' ns') (0, 0).

Theorem listing_entry_row env o :
  match o with
  | OLeaf _ => True
  | OComp r ns => forall c se e, In e (listing_op env o c se) -> is_row env c ns e
  end.
Proof.
  induction o as [l | r ns IH] using op_nodes_ind; [exact I|]. intros c se e H.
  apply listing_in_inv in H as (i & n & _ & En & H). rewrite Forall_forall in IH.
  specialize (IH n (nth_error_In _ _ En)). destruct n as [p l [lf | r' sub]]; simpl in *.
  - destruct H as [<- | []]. exists c, ns, i, (Node p l (OLeaf lf)). simpl.
    split; [constructor|]. split; [exact En|]. split; [reflexivity|]. now destruct (nth i (node_times env c ns) (0, 0)).
  - destruct (IH _ (0, 0) _ H) as (c' & ns' & j & m & T & Em & Eo & Er). exists c', ns', j, m.
    split; [|auto]. eapply table_sub; [exact En | exact T].
Qed.

Corollary listing_rows_equations env r ns c se e : wf_links_op (OComp r ns) -> In e (listing_op env (OComp r ns) c se) ->
  exists c' ns' i n, table_of env c ns c' ns' /\ nth_error ns' i = Some n /\ n_op n = OLeaf (e_leaf e) /\
                     (e_start e, e_end e) = nth i (node_times env c' ns') (0, 0) /\
                     node_eqs env c' ns' (node_times env c' ns').
Proof.
  intros W H. destruct (listing_entry_row env (OComp r ns) c se e H) as (c' & ns' & i & n & T & En & Eo & Er).
  exists c', ns', i, n. split; [exact T|]. split; [exact En|]. split; [exact Eo|]. split; [exact Er|].
  exact (nested_equations env c ns c' ns' r W T).
Qed.

(* ------------------------------------------------------------------ non-vacuity: a concrete program *)
Definition ex_wait (lab q d : Z) : leaf := mk_leaf lab C_Wait [q] QubitChannel_ALL (DFixed d) None.
Definition ex_env : denv := mk_env 0 0 0 0 [].
(* all three relation types, an implicit placement, a nested block repeated three times *)
Definition ex_prog : list cmd :=
  [ CAdd (ex_wait 0 0 10) None;
    CAdd (ex_wait 1 1 3) (Some (RelationType_JOINED_START, 0%nat));
    CAdd (ex_wait 2 2 4) (Some (RelationType_JOINED_END, 0%nat));
    CAdd (ex_wait 3 1 2) (Some (RelationType_FOLLOWED_BY, 1%nat));
    CSub 3 [ CAdd (ex_wait 4 0 1) None; CAdd (ex_wait 5 1 5) (Some (RelationType_JOINED_START, 0%nat)) ];
    CAdd (ex_wait 6 0 1) None ].
Definition ex_show (ns : list node) : list (Z * Z * Z) :=
  map (fun e => (l_lab (e_leaf e), e_start e, e_end e)) (listing ex_env ns).

Example ex_graph : map (fun n => (n_parent n, n_link n)) (run_prog ex_env ex_prog) =
  [(None, LNone); (Some 0%nat, LRel RelationType_JOINED_START 0); (Some 0%nat, LRel RelationType_JOINED_END 0);
   (Some 1%nat, LRel RelationType_FOLLOWED_BY 1); (Some 3%nat, LRel RelationType_FOLLOWED_BY 3);
   (Some 4%nat, LRel RelationType_FOLLOWED_BY 4)].
Proof. vm_compute. reflexivity. Qed.

Example ex_times : node_times ex_env None (run_prog ex_env ex_prog) = [(0, 10); (0, 3); (6, 10); (3, 5); (5, 10); (10, 11)].
Proof. vm_compute. reflexivity. Qed.

Example ex_listing : ex_show (run_prog ex_env ex_prog) =
  [(0, 0, 10); (1, 0, 3); (2, 6, 10); (3, 3, 5); (4, 5, 6); (5, 5, 10); (6, 10, 11)].
Proof. vm_compute. reflexivity. Qed.

Example ex_listing_unrolled : ex_show (apply_modifiers ex_env 1 (run_prog ex_env ex_prog)) =
  [(0, 0, 10); (1, 0, 3); (2, 6, 10); (3, 3, 5); (4, 5, 6); (5, 5, 10); (4, 10, 11); (5, 10, 15); (4, 15, 16); (5, 15, 20);
   (6, 20, 21)].
Proof. vm_compute. reflexivity. Qed.

(* the hypotheses of the theorems above hold for it (by the general lemmas, not by computation) *)
Example ex_equations : node_eqs ex_env None (run_prog ex_env ex_prog) (node_times ex_env None (run_prog ex_env ex_prog)).
Proof. apply node_times_equations, wf_node_links_hs, run_prog_wf_node_links. Qed.

(* a multi-link: FOLLOWED_BY the first of the latest-ending members *)
Example ex_multi :
  let ns := [Node None LNone (OLeaf (ex_wait 0 0 4)); Node None LNone (OLeaf (ex_wait 1 1 7)); Node None LNone (OLeaf (ex_wait 2 2 7));
             Node (Some 1%nat) (LMulti [0; 1; 2]%nat) (OLeaf (ex_wait 3 0 1))] in
  node_times ex_env None ns = [(0, 4); (0, 7); (0, 7); (7, 8)] /\
  multi_ref (node_times ex_env None ns) [0; 1; 2]%nat = Some 1%nat.
Proof. vm_compute. split; reflexivity. Qed.

(* ------------------------------------------------------------------ programs built through the API, plain and unrolled *)
Theorem program_equations env p e : In e (listing env (run_prog env p)) ->
  exists c' ns' i n, table_of env None (run_prog env p) c' ns' /\ nth_error ns' i = Some n /\ n_op n = OLeaf (e_leaf e) /\
                     (e_start e, e_end e) = nth i (node_times env c' ns') (0, 0) /\
                     node_eqs env c' ns' (node_times env c' ns').
Proof. unfold listing. apply listing_rows_equations. apply run_prog_wf_links. Qed.

Theorem unrolled_equations env p e : In e (listing env (apply_modifiers env 1 (run_prog env p))) ->
  exists c' ns' i n, table_of env None (apply_modifiers env 1 (run_prog env p)) c' ns' /\ nth_error ns' i = Some n /\
                     n_op n = OLeaf (e_leaf e) /\
                     (e_start e, e_end e) = nth i (node_times env c' ns') (0, 0) /\
                     node_eqs env c' ns' (node_times env c' ns').
Proof. unfold listing. apply listing_rows_equations. apply unrolled_prog_wf_links. Qed.

Theorem program_table_unique env p c tm' : length tm' = length (run_prog env p) ->
  node_eqs env c (run_prog env p) tm' -> tm' = node_times env c (run_prog env p).
Proof. apply node_times_unique, wf_node_links_hs, run_prog_wf_node_links. Qed.

(* ------------------------------------------------------------------ ties to the source through the translator *)
(* the model's relation equations are RelationLink.get_start_time as translated from the source, and the model's tie-break for
   multi-links (first of the latest-ending: strict >) is the comparison the source uses *)
From Gen Require Flags.
Lemma start_from_is_source : forall t rs re d, start_from t rs re d = start_from_source t rs re d.
Proof. intros [] rs re d; reflexivity. Qed.
Lemma multi_reference_is_strict : Flags.multi_reference_strict = true.
Proof. reflexivity. Qed.
