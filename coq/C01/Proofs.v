(* C01 lemmas, part 1: the relation equations computed by the model.  (Extended in Core/TimesProofs.v.) *)
From Coq Require Import ZArith List Bool Lia.
Import ListNotations.
From QCE Require Import Base.Prelude Core.Model.
From Gen Require Import Ident Classes.
Open Scope Z_scope.

(* the three relation equations, for a referent occupying [rs, re] and an operation of duration d starting at s *)
Definition rel_eq (t : RelationType) (rs re s d : Z) : Prop :=
  match t with
  | RelationType_FOLLOWED_BY => s = re                 (* starts when the referenced operation ends *)
  | RelationType_JOINED_START => s = rs                (* starts when it starts *)
  | RelationType_JOINED_END => s + d = re              (* ends when it ends *)
  end.

Lemma start_from_sound t rs re d : rel_eq t rs re (start_from t rs re d) d.
Proof. destruct t; simpl; lia. Qed.

Lemma start_from_unique t rs re d s : rel_eq t rs re s d -> s = start_from t rs re d.
Proof. destruct t; simpl; lia. Qed.
