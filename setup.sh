#!/bin/bash
# Clean, full (.vo) build of the whole Coq development from files on disk; offline.
set -e
cd "$(dirname "$0")"
export PYTHONDONTWRITEBYTECODE=1
rm -rf build Makefile.coq Makefile.coq.conf _CoqProject .Makefile.coq.d
find coq -name '*.vo' -o -name '*.vok' -o -name '*.vos' -o -name '*.glob' -o -name '.*.aux' | xargs -r rm -f
mkdir -p build/Gen evidence replay
python3 tools/translate/run.py --repo "${QCE_REPO:-/repo}" --out build/Gen > build/translate.json || { cat build/translate.json; echo "translator failed"; exit 1; }
python3 - <<'PY'
import sys; sys.path.insert(0, 'harness')
import common
common.write_makefile()
PY
# -k: a file that does not compile must not prevent the others from being built; every check re-runs `make` on its own
# targets and reports what no longer checks
timeout 3000 make -f Makefile.coq -j12 -k > build/make.log 2>&1 || { echo "setup: some files did not compile (the checks that need them will report it):"; grep -E "^File|Error" build/make.log | head -20; }
echo "setup ok: $(find coq build/Gen -name '*.vo' | wc -l) files compiled"
