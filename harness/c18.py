"""C18 — drawing shows the schedule and leaves the circuit alone (DESIGN.md 7, C18)."""
import coregen
from coregen import gen_case, gen_env, c_env, c_prog, c_obs, c_oentry, DURS, CHN
from common import cz, cbool, clist, copt

ID = 'C18'
GEN_MODULES = ['Ident', 'Classes', 'Flags']
MODEL_TARGETS = ['coq/C18/Run.vo']
PROOF_TARGETS = ['coq/C18/Proofs.vo', 'coq/C18/ProofsSlots.vo']
PROPS_FILE = 'coq/Props/C18.v'
RUN_MODULE = 'QCE.C18.Run'
COQ_HEADER = 'From Gen Require Import Ident Classes Flags.\nFrom QCE Require Import Core.Model Core.Run C18.Model.'
IMPL = 'harness/impl/c18_impl.py'
IMPL_KW = {'shards': 12}
SHARD = 40
TRUSTED = ['Gen/Flags.v regenerated from the source on every run: @lru_cache decorators, body of invalidate_start_time_cache, the five '
           'schedule-mutation points with "calls the invalidation", what plot_circuit swaps and clears, VISUALIZATION_DURATION_REGISTRY, '
           'the literals of the drawing geometry (pivot x attribute, width floor/margin, row spacing, offset scalar, factory lookups)',
           'Gen/Classes.v, Gen/Ident.v (channel templates, class names)',
           'Core/Model.v (listing, schedule, unrolling) and C18/Model.v (reorder_indices, visual description, pivots, time/space grouping of '
           'two-qubit gates, plot as a state transformer over circuit, durations and the two memo tables): hand-written, tied by this run',
           'the driver reads the drawing from inside ONE real plot_circuit call under Agg (monkey-patches in the driver process only)']
ASSUMPTIONS = ['binary64 arithmetic is exact on the generated durations (multiples of 1/8); pivot coordinates that are not multiples of 1/8 '
               '(row spacing 1.2, offsets by thirds) are read as the unique rational with denominator <= 4096 within 1e-9 of the float',
               'a memo entry is modelled as (listing position of the operation holding the link, own duration) -> start; the value-hash part of the '
               'real lru_cache key only makes the real table miss more often',
               '"drawing succeeds" is matplotlib at run time: exercised on every case (an exception is a spec failure), not proved',
               'operation kinds without a draw component (TwoQubitOperation base class, TwoQubitVirtualPhase) are silently skipped by the drawer and '
               'are outside "drawable kinds"; CoordinateShiftOperation is drawn as one "?" block on its first qubit row only']
RULE = ('random build programs over all 26 operation classes (coregen.gen_case: 1-10 commands, 1-4 qubits, nesting <= 2, repetitions 1-3, relations none/explicit/dangling) '
        'plus a two-qubit family (2-6 simultaneous CPhase / VirtualTwoQubitVacant / TwoQubitOperation / TwoQubitVirtualPhase over 3-6 qubits with JOINED_START relations) '
        'x channel order (none / prefix / permutation of the occupied channels / with an unknown channel / with a repeated channel) '
        'x label map (none / partial / full / with foreign keys) x compact or not x random global durations (each of READOUT, MICROWAVE, FLUX, RESET from {.25,.5,1,2,3,5}) '
        'x plain or apply_modifiers()-unrolled x circuit observed before the drawing or first looked at by the drawing; after the drawing the circuit duration and the times of the '
        'operation objects the drawing listed are read BEFORE the circuit is listed again, then the full observation; a twin built afterwards gives the true times under the drawing\'s durations. '
        'non-trivial: >= 2 leaves and (nested or explicit relation or shared qubit) and the case was drawn or rejected as the order demands; distinct by hash of the case')

TWOQ = ['CPhase', 'CPhase', 'VirtualTwoQubitVacant', 'VirtualTwoQubitVacant', 'TwoQubitOperation', 'TwoQubitVirtualPhase']


# ------------------------------------------------------------------------------------------------ generation
def qubits_of(prog):
    out = []
    for c in prog:
        for q in (qubits_of(c['body']) if c['t'] == 'sub' else c['q']):
            if q not in out:
                out.append(q)
    return out


def gen_two_qubit_case(rng):
    """several two-qubit gates sharing time slots on overlapping rows (the artistic offset), between single-qubit operations"""
    nq = rng.randint(3, 6)
    prog = []
    for _ in range(rng.randint(0, 2)):
        prog.append({'t': 'leaf', 'cls': rng.choice(['Rx180', 'Wait', 'DispersiveMeasure']), 'q': [rng.randrange(nq)], 'rel': None})
        if prog[-1]['cls'] == 'Wait':
            prog[-1].update(dur=['fixed', rng.choice(DURS)], ch=rng.choice(CHN))
        if prog[-1]['cls'] == 'DispersiveMeasure':
            prog[-1]['tag'] = ''
    first = None
    for _ in range(rng.randint(2, 6)):
        cls = rng.choice(TWOQ)
        a = rng.randrange(nq)
        b = rng.choice([x for x in range(nq) if x != a])
        c = {'t': 'leaf', 'cls': cls, 'q': [a, b], 'rel': None}
        if cls in ('VirtualTwoQubitVacant', 'TwoQubitOperation'):
            c['dur'] = ['fixed', rng.choice([0.5, 1.0, 1.0, 2.0, 3.0])]
        if cls == 'VirtualTwoQubitVacant':
            c['ch'] = rng.choice(CHN)
        if first is not None and rng.random() < 0.75:
            c['rel'] = ['S', rng.choice([first, len(prog) - 1])]
        if first is None:
            first = len(prog)
        prog.append(c)
    if rng.random() < 0.5:
        prog.append({'t': 'leaf', 'cls': 'Barrier', 'q': sorted(rng.sample(range(nq), rng.randint(1, nq))), 'rel': None})
    return {'prog': prog, 'env': gen_env(rng), 'reg': {}}


def decorate(rng, c):
    occ = qubits_of(c['prog'])
    c['unroll'] = rng.random() < 0.4
    c['compact'] = rng.random() < 0.6
    c['pre'] = rng.random() < 0.7
    r = rng.random()
    perm = occ[:]
    rng.shuffle(perm)
    if not occ:                      # a circuit without any operation (only empty sub-circuits): nothing to order or label
        c['order'], c['okind'], c['labels'] = None, 'none', None
        return c
    if r < 0.25:
        c['order'], c['okind'] = None, 'none'
    elif r < 0.50:
        c['order'], c['okind'] = perm[:rng.randint(0, len(perm))], 'prefix'
    elif r < 0.75:
        c['order'], c['okind'] = perm, 'perm'
    elif r < 0.90:
        o = perm[:rng.randint(0, len(perm))]
        o.insert(rng.randint(0, len(o)), rng.choice([max(occ) + 1, max(occ) + 7, -1, 99]))
        c['order'], c['okind'] = o, 'unknown'
    else:
        o = perm[:rng.randint(1, len(perm))]
        o.insert(rng.randint(0, len(o)), rng.choice(o))
        c['order'], c['okind'] = o, 'repeated'
    r = rng.random()
    if r < 0.3:
        c['labels'] = None
    else:
        keys = occ if r >= 0.65 else rng.sample(occ, rng.randint(0, len(occ)))
        keys = list(keys)
        if rng.random() < 0.3:
            keys += [max(occ) + 3, -2]            # foreign keys are ignored by the drawer
        rng.shuffle(keys)
        c['labels'] = [[k, 1000 + rng.randrange(50)] for k in keys]
    return c


def gen_cases(rng, tier):
    n = 400 if tier == 'quick' else 12000
    cases = []
    for i in range(n):
        if i % 4 == 3:
            c = gen_two_qubit_case(rng)
        else:
            c = gen_case(rng, maxlen=rng.choice([3, 6, 10]))
        cases.append(decorate(rng, c))
    return cases


def corpus():
    """minimal witnesses of earlier findings, run first"""
    f8 = {'prog': [{'t': 'sub', 'reps': 2, 'body': [{'t': 'leaf', 'cls': 'Rx180', 'q': [0], 'rel': None},
                                                     {'t': 'leaf', 'cls': 'Wait', 'q': [1], 'dur': ['fixed', 1.0], 'ch': 'ALL', 'rel': None}]}],
          'env': {'READOUT': 2.0, 'MICROWAVE': 5.0, 'FLUX': 1.0, 'RESET': 2.0}, 'reg': {},
          'unroll': True, 'compact': True, 'order': None, 'okind': 'none', 'labels': None}
    return [dict(f8, pre=False), dict(f8, pre=True), F19_WITNESS, F22_WITNESS]


# F22 (fixed in 980e845): a sub-circuit with repetition count >= 2 and no operation inside: the repetition highlight raised ValueError
F22_WITNESS = {'prog': [{'t': 'leaf', 'cls': 'Rx180', 'q': [0], 'rel': None}, {'t': 'sub', 'reps': 2, 'body': []}],
               'env': {'READOUT': 2.0, 'MICROWAVE': 1.0, 'FLUX': 1.0, 'RESET': 2.0}, 'reg': {},
               'unroll': False, 'compact': True, 'pre': True, 'order': None, 'okind': 'none', 'labels': None}
F19_WITNESS = {'prog': [{'t': 'leaf', 'cls': 'VirtualTwoQubitVacant', 'q': [0, 1], 'dur': ['fixed', 2.0], 'ch': 'FLUX', 'rel': None},
                        {'t': 'leaf', 'cls': 'VirtualTwoQubitVacant', 'q': [1, 2], 'dur': ['fixed', 2.0], 'ch': 'FLUX', 'rel': ['S', 0]}],
               'env': {'READOUT': 2.0, 'MICROWAVE': 1.0, 'FLUX': 1.0, 'RESET': 2.0}, 'reg': {},
               'unroll': False, 'compact': True, 'pre': True, 'order': None, 'okind': 'none', 'labels': None}


# ------------------------------------------------------------------------------------------------ Coq printing
EMPTY_OBS = "{| o_ops := []; o_duration := 0; o_comps := [] |}"
# an implementation failure outside the drawing (exception while building / observing): a case on which both agree and spec_ok fail
IMPOSSIBLE = ("{| k_prog := []; k_env := mk_env 0 0 0 0 []; k_unroll := false; k_pre := true; k_compact := false; k_order := None; "
              "k_labels := None; k_occupied := []; k_before := " + EMPTY_OBS + "; k_acq_before := []; k_draw := None; k_error := 2; "
              "k_after := " + EMPTY_OBS + "; k_acq_after := []; k_ref := [] |}")


def c_rat(r):
    return f"({cz(r[0])}, {cz(r[1])})"


def c_comp(c):
    trs = clist([f"{{| tr_q := {cz(t[0])}; tr_x := {c_rat(t[1])}; tr_y := {c_rat(t[2])}; tr_w := {cz(t[3])} |}}" for t in c['tr']])
    return f"{{| dc_pos := {cz(c['pos'])}; dc_tr := {trs} |}}"


def c_obs_plain(ob):
    s = c_obs(ob)
    assert s.startswith('(Some ') and s.endswith(')')
    return s[6:-1]


def c_acq(ob):
    return clist([f"({cz(a)}, {cz(b)}, {cz(c)})" for a, b, c in ob.get('acq', [])])


def c_draw(d):
    if d is None:
        return 'None'
    return (f"(Some {{| id_indices := {clist([cz(x) for x in d['indices']])}; id_labels := {clist([cz(x) for x in d['labels']])}; "
            f"id_width := {cz(d['width'])}; id_height := {cz(d['height'])}; id_ops := {clist([c_oentry(o) for o in d['ops']])}; "
            f"id_comps := {clist([c_comp(c) for c in d['comps']])} |}})")


def to_coq(c, o):
    if 'error' in o and not isinstance(o['error'], int):
        return IMPOSSIBLE
    env, reg_ids = c_env(c)
    prog = c_prog(c['prog'], o['leafinfo'], reg_ids, [0])
    order = copt(c.get('order'), lambda v: clist([cz(x) for x in v]))
    labels = copt(c.get('labels'), lambda v: clist([f"({cz(k)}, {cz(l)})" for k, l in v]))
    return (f"{{| k_prog := {prog}; k_env := {env}; k_unroll := {cbool(c.get('unroll'))}; k_pre := {cbool(c.get('pre', True))}; "
            f"k_compact := {cbool(c.get('compact', True))}; k_order := {order}; k_labels := {labels}; "
            f"k_occupied := {clist([cz(x) for x in o['occupied']])}; "
            f"k_before := {c_obs_plain(o['before'])}; k_acq_before := {c_acq(o['before'])}; k_draw := {c_draw(o.get('draw'))}; "
            f"k_error := {cz(o['error'])}; k_dur_first_after := {cz(o['dur_first_after'])}; "
            f"k_held_after := {clist(['(%s, %s)' % (cz(a), cz(b)) for a, b in o['held_after']])}; k_after := {c_obs_plain(o['after'])}; k_acq_after := {c_acq(o['after'])}; "
            f"k_ref := {clist([c_oentry(e) for e in o['ref']])} |}}")


# ------------------------------------------------------------------------------------------------ metadata
def nontrivial(c, o):
    if not isinstance(o.get('error'), int):
        return False
    expected = 1 if c.get('okind') == 'unknown' else 0
    return coregen.nontrivial(c) and o['error'] == expected


def kind(c):
    return (('compact' if c.get('compact', True) else 'global') + ('+unrolled' if c.get('unroll') else '') + '/order:' + c.get('okind', '?')
            + '/labels:' + ('none' if c.get('labels') is None else 'map') + ('' if c.get('pre', True) else '/unobserved'))


def sample(c, o):
    d = o.get('draw') or {}
    return {'prog': c['prog'], 'env': c['env'], 'order': c.get('order'), 'labels': c.get('labels'), 'compact': c.get('compact'),
            'unroll': c.get('unroll'), 'drawn': {'indices': d.get('indices'), 'labels': d.get('labels'), 'width': d.get('width'),
                                                 'first_components': (d.get('comps') or [])[:3]}, 'error': o.get('error')}


def shrink_candidates(case):
    for p in coregen.shrink_progs(case['prog']):
        if not p:
            continue
        occ = qubits_of(p)
        c = dict(case, prog=p)
        if case.get('order') is not None and case.get('okind') != 'unknown':
            c['order'] = [q for q in case['order'] if q in occ]
        yield c
    if case.get('labels') is not None:
        yield dict(case, labels=None)
    if case.get('order') is not None and case.get('okind') != 'unknown':
        yield dict(case, order=None, okind='none')
    if case.get('unroll'):
        yield dict(case, unroll=False)
    if not case.get('pre', True):
        yield dict(case, pre=True)
    if set(case['env'].values()) != {1.0}:
        yield dict(case, env={k: 1.0 for k in case['env']})


# ------------------------------------------------------------------------------------------------ known finding F19
TWO_QUBIT_KINDS = ('TwoQubitOperation', 'TwoQubitVirtualPhase', 'CPhase', 'VirtualTwoQubitVacant')
F19_CLASS = 'two or more two-qubit gates drawn in one time slot on overlapping rows while their duration under the drawing\'s durations exceeds 1'


def _offset_violations(d):
    """components of slot-sharing two-qubit gates whose pivot is further than a quarter of their duration from their start"""
    bad, other = [], []
    ops = d['ops']
    for c in d['comps']:
        o = ops[c['pos']]
        if o['cls'] not in TWO_QUBIT_KINDS:
            continue
        shares = any(i != c['pos'] and p['cls'] in TWO_QUBIT_KINDS and p['s'] == o['s'] for i, p in enumerate(ops))
        for t in c['tr']:
            num, den = t[1]
            if shares and 4 * abs(num - o['s'] * den) > (o['e'] - o['s']) * den:
                (bad if o['e'] - o['s'] > 8 else other).append(c['pos'])
    return bad, other


def known_class(c, o):
    """F19: the only thing wrong with the drawing is the offset of slot-sharing two-qubit gates longer than one time unit.
    Everything else of spec_ok is re-evaluated here on the implementation output, so that no other failure hides behind it."""
    d = o.get('draw') if isinstance(o, dict) else None
    if not d or o.get('error') != 0:
        return None
    bad, other = _offset_violations(d)
    if not bad or other:
        return None
    if not _spec_without_offset_bound(c, o):
        return None
    return F19_CLASS


def _spec_without_offset_bound(c, o):
    d = o['draw']
    b, a = o['before'], o['after']
    key = lambda e: (e['cls'], e['ch'], e['s'], e['e'], e['d'], e.get('tag'))
    if [key(e) for e in b['ops']] != [key(e) for e in a['ops']] or b['duration'] != a['duration'] or b['acq'] != a['acq']:
        return False
    if [(x['s'], x['d']) for x in b['comps']] != [(x['s'], x['d']) for x in a['comps']]:
        return False
    if o['dur_first_after'] != b['duration'] or (o['held_after'] and o['held_after'] != [[e['s'], e['e']] for e in b['ops']]):
        return False
    order = c.get('order') or []
    occ = o['occupied']
    if any(q not in occ for q in order):
        return False
    if len(set(order)) == len(order) and d['indices'] != order + [q for q in occ if q not in order]:
        return False
    lm = None if c.get('labels') is None else {}
    for k, l in (c.get('labels') or []):
        lm.setdefault(k, l)
    if d['labels'] != [(ch if lm is None else lm.get(ch, ch)) for ch in d['indices']]:
        return False
    if d['width'] != max([8] + [e['e'] for e in d['ops']]) + 8:
        return False
    if [key(e) for e in d['ops']] != [key(e) for e in o['ref']]:
        return False
    by_pos = {}
    for cmp_ in d['comps']:
        by_pos.setdefault(cmp_['pos'], []).append(cmp_)
    for p, e in enumerate(d['ops']):
        cs = by_pos.get(p, [])
        if not cs:
            if e['cls'] not in ('TwoQubitOperation', 'TwoQubitVirtualPhase'):
                return False
            continue
        if len(cs) != 1:
            return False
        qs = []
        for ch in e['ch']:
            if ch[0] not in qs:
                qs.append(ch[0])
        tq = [t[0] for t in cs[0]['tr']]
        if not tq or (tq != qs if e['cls'] != 'CoordinateShiftOperation' else any(q not in qs for q in tq)):
            return False
        shares = e['cls'] in TWO_QUBIT_KINDS and any(i != p and x['cls'] in TWO_QUBIT_KINDS and x['s'] == e['s'] for i, x in enumerate(d['ops']))
        for t in cs[0]['tr']:
            (xn, xd), (yn, yd) = t[1], t[2]
            if t[0] not in d['indices'] or yn * 5 != -d['indices'].index(t[0]) * 48 * yd:
                return False
            if not shares and xn != e['s'] * xd:
                return False
    return True


LEVEL_TEXT = ('Machine-checked theorems (Coq, no axioms) over an executable model whose literals and flags are regenerated from the Python source on every run. '
              'Channel order: for a duplicate-free requested order of occupied channels reorder_indices returns a permutation of the occupied channels that starts with the '
              'requested order, the others following in original order (reorder_perm), the row of a requested channel is its position in the request, and an order with an '
              'unknown channel is rejected and never drawn (reorder_rejects). Labels: row i carries the label given for its channel, by default the channel index. '
              'Pivots (pivot_spec): every listed operation of a drawn kind gets exactly one component and nothing else is drawn; its transforms - one per drawn qubit, both '
              'qubits of a two-qubit gate, every qubit of a barrier - sit at y = -(row of the qubit) * spacing, the row exists and carries that channel, and x = its start '
              'time in the listing under the drawing\'s durations, exactly for every operation that is not a two-qubit gate sharing its start time with another one; a '
              'slot-sharing gate is element j of a group of n and shifted by (2j/(n-1) - 1) * duration^2 / 4, proved within a quarter of its duration for durations <= 1 '
              '(and for all durations once the shift is linear: finding F19). Width = latest end + 1, at least 2. '
              'plot_preserves: from any state with coherent memo tables plot_circuit draws the TRUE schedule under the compact durations (the generated '
              'VISUALIZATION_DURATION_REGISTRY), restores the duration settings, leaves the structure untouched and both tables coherent, so the observation afterwards '
              '(operations, start/end/duration, circuit duration, sub-circuits) equals the one before - an instance of a generic memo-table theorem (a table emptied at every '
              'mutation only ever returns the current value) whose hypothesis "all five schedule-mutation points call invalidate_start_time_cache and it clears both tables" '
              'is discharged by vm_compute on the generated flag table: removing one call breaks the proof; with the flags of the tree before the fix the model reproduces F8 '
              '(C18_plot_without_invalidation_refuted). Tie to the running code: every sampled case is REALLY drawn with matplotlib/Agg; description, listing and every '
              'pivot are compared exactly with the model, and the specification is evaluated on the implementation output. "Drawing succeeds" is exercised there, not proved.')
LEVEL_NOTE = ('Trusted: Coq kernel (vm_compute), the ast translators gen_flags / gen_classes / gen_ident (fail-closed; a changed shape stops the check), the hand-written Core and C18 '
              'models (tied by exact comparison on each sampled case, including the binary64 rounding that decides which of two equally low gates is shifted left), the driver '
              'monkey-patches that read description and transforms from inside the one real plot_circuit call. Modelled, not verified: matplotlib itself (run, not proved); Python '
              'object identity as listing position; the lru_cache key as (position, own duration) - the real key also hashes upstream operations by value and, since the hand-off fix, '
              'every listing re-hands links and invalidates, so the real tables are stale in fewer situations than the model\'s. Acquisition indices are a function of the listing order '
              'and are compared before/after on the implementation only. Operation kinds without a draw component (TwoQubitOperation base class, TwoQubitVirtualPhase) are silently '
              'skipped by the drawer and treated as outside "drawable kinds". Known finding F19 (quadratic offset) is excused only inside its class, after re-checking every other clause.')
TECHNIQUE = 'Coq proof over an executable model with translator-generated flags and tables + generic memo-table theory + correspondence (one real Agg drawing per case) evaluated by vm_compute'
