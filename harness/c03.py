"""C03 — answers depend on the circuit, not on what was asked before (DESIGN.md 7, C03): histories."""
import json
import coregen
from coregen import gen_leaf, gen_prog, gen_env, c_leaf_term, c_prog, c_oentry, RTY, t8, DURS
from common import cz, cbool, clist

ID = 'C03'
GEN_MODULES = ['Ident', 'Classes', 'Flags']
MODEL_TARGETS = ['coq/C03/Run.vo']
PROOF_TARGETS = ['coq/C03/Proofs.vo', 'coq/Core/EnvIndep.vo']
PROPS_FILE = 'coq/Props/C03.v'
RUN_MODULE = 'QCE.C03.Run'
COQ_HEADER = 'From Gen Require Import Ident Classes.\nFrom QCE Require Import Core.Model Core.Run C03.Model.'
IMPL = 'harness/impl/c03_impl.py'
IMPL_KW = {'shards': 14}
SHARD = 60
TRUSTED = ['Gen/Flags.v (which methods are memoised, which mutation points invalidate) regenerated from the source on every run',
           'Core/Model.v + C03/Model.v history interpreter: hand-written, tied by this correspondence run (listing / duration observations)']
ASSUMPTIONS = ['object identity modelled as insertion index; observations the model does not answer (acquisition indices, Stim text, copy, plot) are judged by the erased-history comparison on the implementation only',
               'adds after flatten() carry no explicit relation; no growth of nested blocks after flatten()']
RULE = ('random histories of 4-14 commands: add operation / add sub-circuit / grow an already nested sub-circuit / apply_modifiers / flatten / set a registry duration / '
        'enter a global-duration override, interleaved with observations (operations+times, duration, acquisition indices, to_stim, copy, plot_circuit); every observation is '
        'compared with a fresh replay of the same mutations with all earlier observations erased; plus fixed targeted histories (one per memo-invalidation site) and the observation x mutation matrix on one rich circuit ([build; observe O1; mutate M; duration; stim; acq; copy; listing] for 6 kinds of O1 x 9 kinds of M); non-trivial: >= 2 observations with a mutation in between' ' One fixed history moves a registry duration from 10^6 to 10^6 + 4 between two duration queries.')
OBS = ['listing'] * 5 + ['duration'] * 3 + ['acq'] * 2 + ['stim'] * 2 + ['copy'] * 2 + ['plot']


def gen_history(rng, maxlen, plots=True):
    nq = rng.randint(1, 3)
    reg = {f"k{i}": rng.choice(DURS) for i in range(2)}
    cmds, entries, flattened, unrolled = [], [], False, False   # entries: 'leaf' | 'sub'
    depth_glob = 0
    n = rng.randint(4, maxlen)
    while len(cmds) < n:
        r = rng.random()
        if r < 0.38 or not entries:
            lc = gen_leaf(rng, nq, 0 if flattened else len(entries), reg_keys=list(reg), p_rel=0.3, p_dangling=0.03)
            cmds.append(['add', lc])
            entries.append('leaf')
        elif r < 0.50 and not flattened:
            body = gen_prog(rng, nq, 1, 4, p_sub=0.25, reg_keys=list(reg))
            cmds.append(['sub', rng.choice([1, 1, 2, 3]), body])
            entries.append('sub')
        elif r < 0.56 and not flattened and 'sub' in entries:
            e = rng.choice([i for i, k in enumerate(entries) if k == 'sub'])
            lc = gen_leaf(rng, nq, 0, reg_keys=list(reg), p_rel=0.0, p_dangling=0.0)
            cmds.append(['grow', e, lc])
        elif r < 0.61:
            cmds.append(['mods'])
            unrolled = True
        elif r < 0.64:
            cmds.append(['flatten'])
            flattened = True
        elif r < 0.71:
            cmds.append(['setreg', rng.choice(list(reg)), rng.choice(DURS)])
        elif r < 0.75:
            cmds.append(['global', gen_env(rng)])
            depth_glob += 1
        elif r < 0.79 and depth_glob > 0:
            cmds.append(['unglobal'])
            depth_glob -= 1
        else:
            o = rng.choice(OBS)
            if o == 'plot' and not plots:
                o = 'listing'
            cmds.append(['obs', o])
    cmds.append(['obs', rng.choice(['listing', 'listing', 'duration', 'acq'])])
    return {'cmds': cmds, 'env': gen_env(rng), 'reg': reg}


def L(cls, q, **kw):
    d = {'t': 'leaf', 'cls': cls, 'q': q, 'rel': None}
    d.update(kw)
    return d


def fixed_histories():
    """one targeted history per schedule-mutation point (memo invalidation sites), run on every check"""
    env = {'READOUT': 2.0, 'MICROWAVE': 1.0, 'FLUX': 1.0, 'RESET': 2.0}
    reg = {'k0': 1.0, 'k1': 2.0}
    rep = ['sub', 2, [L('Rx90', [0]), L('DispersiveMeasure', [0], tag='a')]]
    hs = [
        # leaving / entering a global-duration override around an unrolled repetition (multi-links)
        [rep, ['mods'], ['obs', 'listing'], ['global', dict(env, READOUT=5.0)], ['obs', 'listing'], ['unglobal'], ['obs', 'listing'], ['obs', 'duration']],
        [rep, ['mods'], ['global', dict(env, READOUT=5.0)], ['obs', 'listing'], ['unglobal'], ['obs', 'listing']],
        [rep, ['mods'], ['global', dict(env, READOUT=5.0)], ['unglobal'], ['obs', 'listing']],
        # a registry duration changes after an observation
        [['add', L('Wait', [0], dur=['reg', 'k0'], ch='ALL')], ['add', L('Rx180', [0])], ['add', L('Wait', [0], dur=['fixed', 3.0], ch='ALL')],
         ['obs', 'listing'], ['setreg', 'k0', 5.0], ['obs', 'listing'], ['obs', 'duration']],
        # an unrolled repetition whose body starts with a relation-free sub-circuit and ends in two parallel branches; a duration
        # change after a listing flips which branch ends last (the handed-down relation must keep referring to the GROUP)
        [['sub', 2, [{'t': 'sub', 'reps': 1, 'body': [L('Rx180', [0])]}, L('Wait', [1], dur=['reg', 'k0'], ch='ALL')]], ['mods'],
         ['obs', 'listing'], ['setreg', 'k0', 5.0], ['obs', 'listing'], ['obs', 'duration']],
        [['sub', 2, [{'t': 'sub', 'reps': 1, 'body': [L('Rx180', [0])]}, L('DispersiveMeasure', [1], tag='')]], ['mods'],
         ['global', dict(env, READOUT=0.5)], ['obs', 'listing'], ['unglobal'], ['obs', 'listing']],
        # a registry key that was NEVER set (the registry answers its default 0) is assigned for the first time after an observation
        [['add', L('Wait', [0], dur=['reg', 'k2'], ch='ALL')], ['add', L('Wait', [0], dur=['fixed', 1.0], ch='ALL')],
         ['add', L('Wait', [1], dur=['fixed', 1.0], ch='ALL', rel=['F', 1])],
         ['obs', 'duration'], ['setreg', 'k2', 5.0], ['obs', 'duration'], ['obs', 'listing']],
        # duration queried before the operations of a nested block (relation hand-off)
        [['add', L('Wait', [0], dur=['fixed', 5.0], ch='ALL')], ['sub', 1, [L('Wait', [0], dur=['fixed', 1.0], ch='ALL'), L('Barrier', [0, 1]), L('Wait', [1], dur=['fixed', 3.0], ch='ALL')]],
         ['add', L('Wait', [1], dur=['fixed', 4.0], ch='ALL')], ['obs', 'duration'], ['obs', 'listing']],
        # duration of a nested block read AFTER the operations were listed (relation hand-off moves its first operations)
        [['add', L('Wait', [0], dur=['fixed', 5.0], ch='ALL')], ['sub', 1, [L('Wait', [0], dur=['fixed', 2.0], ch='ALL'), L('Wait', [1], dur=['fixed', 0.5], ch='ALL')]],
         ['add', L('Wait', [0], dur=['fixed', 1.0], ch='ALL')], ['obs', 'listing'], ['obs', 'duration'], ['obs', 'listing']],
        # an operation added after an observation
        [['add', L('Rx180', [0])], ['obs', 'listing'], ['add', L('CPhase', [0, 1])], ['add', L('DispersiveMeasure', [1], tag='')], ['obs', 'listing'], ['obs', 'acq']],
        # plotting (its own override) between observations, settings different from the drawing's
        [['sub', 2, [L('Rx180', [0]), L('Wait', [1], dur=['fixed', 1.0], ch='ALL')]], ['mods'], ['obs', 'plot'], ['obs', 'listing']],
        [['sub', 2, [L('Rx180', [0]), L('Wait', [1], dur=['fixed', 1.0], ch='ALL')]], ['mods'], ['obs', 'listing'], ['obs', 'plot'], ['obs', 'listing']],
        # listing, then copying by nesting and unrolling (value-equality of sub-circuits sharing a handed-down link: F12)
        [['sub', 2, [{'t': 'sub', 'reps': 2, 'body': [L('DispersiveMeasure', [0], tag='a'), L('DispersiveMeasure', [1], tag='')]}, L('DispersiveMeasure', [0], tag='b')]],
         ['obs', 'acq'], ['mods'], ['obs', 'acq'], ['obs', 'listing']],
    ]
    out = []
    for i, h in enumerate(hs):
        out.append({'cmds': h, 'env': dict(env, MICROWAVE=5.0) if i in (9, 10) else env, 'reg': reg})
    # a registry duration that changes by a step that is tiny RELATIVE to its value (a sweep in fine steps): the change must show
    out.append({'cmds': [['add', L('Wait', [0], dur=['reg', 'k0'], ch='ALL')], ['add', L('Rx180', [0])], ['add', L('Rx180', [1])],
                         ['obs', 'listing'], ['obs', 'duration'], ['setreg', 'k0', 1000004.0], ['obs', 'duration'], ['obs', 'listing']],
                'env': env, 'reg': {'k0': 1000000.0, 'k1': 2.0}})
    return out


def matrix_histories(tier):
    """observation x mutation matrix on one rich circuit: [build; observe O1; mutate M; duration; stim; acq; copy; listing] for every
    kind of observation O1 and every kind of mutation M (including none).  The circuit holds the shapes in which an earlier query
    has mattered: two parallel first blocks of unequal length with an operation following the first of them, a repeated block that
    starts with a plain operation and contains a repeated block, a registry-timed wait, a measured repeated block."""
    env = {'READOUT': 2.0, 'MICROWAVE': 1.0, 'FLUX': 1.0, 'RESET': 2.0}
    env2 = {'READOUT': 5.0, 'MICROWAVE': 3.0, 'FLUX': 0.5, 'RESET': 1.0}
    reg = {'k0': 1.0, 'k1': 2.0}
    w = lambda q, d: L('Wait', [q], dur=['fixed', d], ch='ALL')
    base = [['sub', 1, [L('Rx180', [0])]],
            ['sub', 1, [L('Rx180', [1]), L('Rx180', [1]), L('Rx180', [1])]],
            ['add', L('Hadamard', [0])],
            ['sub', 3, [w(2, 1.0), {'t': 'sub', 'reps': 2, 'body': [w(2, 1.0)]}]],
            ['add', L('Wait', [2], dur=['reg', 'k0'], ch='ALL')],
            ['sub', 2, [L('Rx90', [0]), L('DispersiveMeasure', [0], tag='a')]],
            ['add', L('DispersiveMeasure', [1], tag='')]]
    muts = {'none': [], 'mods': [['mods']], 'flatten': [['flatten']], 'add': [['add', L('Rx180', [0])]],
            'grow': [['grow', 1, w(1, 2.0)]], 'setreg': [['setreg', 'k0', 5.0]], 'global': [['global', env2]],
            'global-unglobal': [['global', env2], ['unglobal']], 'mods-flatten': [['mods'], ['flatten']]}
    tail = [['obs', o] for o in ('duration', 'stim', 'acq', 'copy', 'listing')]
    out = []
    for o1 in ('listing', 'duration', 'acq', 'stim', 'copy', 'plot'):
        for name, m in muts.items():
            if tier == 'quick' and o1 == 'plot' and name not in ('none', 'mods', 'global-unglobal'):
                continue
            out.append({'cmds': json.loads(json.dumps(base + [['obs', o1]] + m + tail)), 'env': env, 'reg': reg, 'matrix': f'{o1}/{name}'})
    return out


def gen_cases(rng, tier):
    n = 110 if tier == 'quick' else 2000
    return fixed_histories() + matrix_histories(tier) + [gen_history(rng, rng.choice([6, 9, 14]), plots=(i % 3 == 0)) for i in range(n)]


# ------------------------------------------------------------------------------------------------ Coq printing
def c_hcmd(cmd, reg_ids, counter):
    k = cmd[0]
    if k == 'add':
        lc = cmd[1]
        leaf = c_leaf_term(lc, reg_ids, counter[0])
        counter[0] += 1
        r = lc.get('rel')
        if r is None:
            return f"(HAdd {leaf} None)"
        if r[0] == 'dangling':
            return f"(HDangling {leaf} {RTY[r[1]]})"
        return f"(HAdd {leaf} (Some ({RTY[r[0]]}, {r[1]}%nat)))"
    if k == 'sub':
        return f"(HSub {cz(cmd[1])} {c_prog(cmd[2], None, reg_ids, counter)})"
    if k == 'grow':
        leaf = c_leaf_term(cmd[2], reg_ids, counter[0])
        counter[0] += 1
        return f"(HGrow {cmd[1]}%nat {leaf})"
    if k == 'mods':
        return "HMods"
    if k == 'flatten':
        return "HFlatten"
    if k == 'setreg':
        return f"(HSetReg {cz(reg_ids[cmd[1]])} {cz(t8(cmd[2]))})"
    if k == 'global':
        e = cmd[1]
        return f"(HGlobal {cz(t8(e['READOUT']))} {cz(t8(e['MICROWAVE']))} {cz(t8(e['FLUX']))} {cz(t8(e['RESET']))})"
    if k == 'unglobal':
        return "HUnglobal"
    if k == 'obs':
        return {'listing': 'HObsListing', 'duration': 'HObsDuration', 'copy': 'HObsCopy'}.get(cmd[1], 'HObsOther')
    raise ValueError(k)


def c_text(a):
    s = json.dumps(a, sort_keys=True)
    return '"' + s.replace('"', '""') + '"%string'


def c_answer(a):
    ops = f"(Some {clist([c_oentry(o) for o in a['ops']])})" if 'ops' in a else 'None'
    dur = f"(Some {cz(a['duration'])})" if 'duration' in a else 'None'
    return f"{{| a_ops := {ops}; a_duration := {dur}; a_text := {c_text(a)} |}}"


def to_coq(c, o):
    reg = c['reg']
    reg_ids = {k: i for i, k in enumerate(sorted(reg))}
    reg_ids.setdefault('k2', len(reg_ids))        # a key histories may use without it ever being pre-set (default 0 in model and registry)
    counter = [0]
    cmds = clist([c_hcmd(cmd, reg_ids, counter) for cmd in c['cmds']])
    e = c['env']
    glob = f"({cz(t8(e['READOUT']))}, {cz(t8(e['MICROWAVE']))}, {cz(t8(e['FLUX']))}, {cz(t8(e['RESET']))})"
    regl = clist([f"({cz(reg_ids[k])}, {cz(t8(reg[k]))})" for k in sorted(reg)])
    if 'error' in o:
        return f"{{| h_cmds := {cmds}; h_glob := {glob}; h_reg := {regl}; h_answers := []; h_erased := []; h_error := true |}}"
    return (f"{{| h_cmds := {cmds}; h_glob := {glob}; h_reg := {regl}; h_answers := {clist([c_answer(a) for a in o['answers']])}; "
            f"h_erased := {clist([c_answer(a) for a in o['erased']])}; h_error := false |}}")


# ------------------------------------------------------------------------------------------------ classification
def positions(c, pred):
    return [i for i, cmd in enumerate(c['cmds']) if pred(cmd)]


LISTING_OBS = ('listing', 'acq', 'stim', 'copy', 'plot')      # observations that call decomposed_operations (relation hand-off)
F17_CLASS = 'operation added to an already nested sub-circuit after the circuit was listed'


def failing_positions(c, o):
    obs = positions(c, lambda x: x[0] == 'obs')
    return [p for p, a, e in zip(obs, o.get('answers', []), o.get('erased', [])) if a != e]


def _untimed(entries):
    """a listing with every reported time removed: what F17 leaves intact"""
    out = []
    for e in entries:
        r = e.get('rel')
        out.append({k: v for k, v in e.items() if k not in ('s', 'e', 'rel')}
                   | {'rel': None if r is None else {k: v for k, v in r.items() if k not in ('multi',)}})
    return out


def only_times_differ(what, a, e):
    """the answer `a` differs from the erased replay `e` only in reported times (listing, copy) / is a duration"""
    if not isinstance(a, dict) or not isinstance(e, dict) or 'error' in a or 'error' in e:
        return False
    if what == 'duration':
        return True
    if what in ('listing', 'copy'):
        return _untimed(a.get('ops', [])) == _untimed(e.get('ops', []))
    return False            # acquisition indices, the Stim program and "plot succeeds" do not involve times


def known_class(c, o):
    """F17: listing hands the sub-circuit's relation link to its first operations (their times become absolute); an operation
    added to that nested sub-circuit afterwards stays in the relative frame, so extent/duration and downstream times mix two
    frames.  Excused: failures AFTER such a growth, in a history that listed before it, in which every failing answer differs
    from its erased replay in reported TIMES only (same operations, same order, same relations; or a duration).  A lost or
    reordered operation, different acquisition indices or a different exported program after the same growth is NOT this finding."""
    if 'error' in o:
        return None
    fails = failing_positions(c, o)
    if not fails:
        return None
    grows = positions(c, lambda x: x[0] == 'grow')
    lists = positions(c, lambda x: x[0] == 'obs' and x[1] in LISTING_OBS)
    ok = [g for g in grows if any(l < g for l in lists)]
    if not (ok and min(fails) > min(ok)):
        return None
    obs = positions(c, lambda x: x[0] == 'obs')
    for p, a, e in zip(obs, o.get('answers', []), o.get('erased', [])):
        if a != e and not only_times_differ(c['cmds'][p][1], a, e):
            return None
    return F17_CLASS


def nontrivial(c, o):
    obs = positions(c, lambda x: x[0] == 'obs')
    muts = positions(c, lambda x: x[0] != 'obs')
    return len(obs) >= 2 and any(obs[0] < m < obs[-1] for m in muts)


def kind(c):
    if c.get('matrix'):
        return 'matrix'
    ks = {cmd[0] for cmd in c['cmds']}
    return '+'.join(sorted(ks & {'mods', 'flatten', 'setreg', 'global', 'unglobal', 'grow', 'sub'})) or 'adds-only'


def sample(c, o):
    return {'history': [cmd if cmd[0] != 'add' else ['add', cmd[1]['cls'], cmd[1]['q']] for cmd in c['cmds']][:12]}


def shrink_candidates(case):
    cmds = case['cmds']
    for i in range(len(cmds)):
        if cmds[i][0] in ('add', 'sub'):
            continue            # removing an entry would shift entry indices; handled by not touching them
        yield dict(case, cmds=cmds[:i] + cmds[i + 1:])
    # drop trailing adds / subs that nothing refers to
    for i in range(len(cmds) - 1, -1, -1):
        if cmds[i][0] in ('add', 'sub'):
            later_refs = any((c[0] == 'add' and c[1].get('rel') and c[1]['rel'][0] != 'dangling') or c[0] == 'grow' for c in cmds[i + 1:])
            idx = sum(1 for c in cmds[:i] if c[0] in ('add', 'sub'))
            refs = [c for c in cmds[i + 1:] if (c[0] == 'add' and c[1].get('rel') and c[1]['rel'][0] != 'dangling' and c[1]['rel'][1] >= idx) or (c[0] == 'grow' and c[1] >= idx)]
            if not refs:
                yield dict(case, cmds=cmds[:i] + cmds[i + 1:])
    for i, c in enumerate(cmds):
        if c[0] == 'sub':
            for b in coregen.shrink_progs(c[2]):
                if b:
                    yield dict(case, cmds=cmds[:i] + [['sub', c[1], b]] + cmds[i + 1:])
            if c[1] > 1:
                yield dict(case, cmds=cmds[:i] + [['sub', c[1] - 1, c[2]]] + cmds[i + 1:])
        if c[0] == 'add' and c[1].get('rel'):
            yield dict(case, cmds=cmds[:i] + [['add', dict(c[1], rel=None)]] + cmds[i + 1:])


LEVEL_TEXT = 'Coq theorems: (1) generic memo theory — a memo table emptied at every mutation of an input only ever returns the current value, so the answer to a query is independent of earlier queries (and a two-step witness that it fails without invalidation); (2) the functional history interpreter over the Core model answers every observation as a function of the mutations only. The correspondence run replays random histories of mutations and observations against the library and compares each answer with a fresh replay in which all earlier observations are erased.'
LEVEL_NOTE = 'Trusted: Coq kernel, Core model + history interpreter tied by correspondence (listing and duration observations); acquisition indices, Stim text, copies and plots are judged by the erased-history comparison only. Known finding F17 (growth of a nested block after listing). No axioms.'
TECHNIQUE = 'Coq proof (memo coherence + functional history interpreter) + history correspondence evaluated by vm_compute'
