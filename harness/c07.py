"""C07 — acquisition indices enumerate measurements exactly, in order (DESIGN.md 7, C07)."""
import copy
from common import cz, cbool, clist
import coregen

ID = 'C07'
GEN_MODULES = ['Ident', 'Classes']
MODEL_TARGETS = ['coq/C07/Run.vo']
PROOF_TARGETS = ['coq/C07/Proofs.vo', 'coq/C07/CoreBridge.vo', 'coq/C07/CoreBridgeProofs.vo']
PROPS_FILE = 'coq/Props/C07.v'
RUN_MODULE = 'QCE.C07.Run'
COQ_HEADER = 'From Gen Require Import Ident Classes.\nFrom QCE Require Import Core.Model Core.Run C07.Model.'
IMPL = 'harness/impl/c07_impl.py'
SHARD = 60
IMPL_KW = {'shards': 8}
TRUSTED = ['C07/Model.v: hand-written model of AcquisitionRegistry.get_registry_at (two-counter scan, first identifier-equal entry wins, '
           'default (-1,-1)), AcquisitionIdentifier equality (qubit, tag, unique_identifier), equal_tag, get_acquisition_indices (both variants); '
           'tied to the code by this correspondence run on every index getter',
           'the listing (decomposed_operations order), the start times and the registry each measurement is attached to are taken from the '
           'implementation: the driver serialises them, together with channels / start / duration of every listed operation and of every sub-circuit '
           '(the listing order and schedule themselves are C01/C02)',
           'Stim: only the order and number of M targets of to_stim(circuit).flattened() are observed']
ASSUMPTIONS = ['every AcquisitionIdentifier gets a fresh unique_identifier (class-level counter), so the uids of a listing are pairwise distinct; '
               'the driver checks it on every case (o_uids_ok, NoDup) instead of assuming it',
               'after apply_modifiers() every repetition count is 1 and the exporter walks the same tree as decomposed_operations(), so the listing is '
               'the record order; the check compares the exported M targets with the listing on every case',
               'the clause "index increases with start time" is proved from the hypothesis that same-qubit measurements are listed in non-decreasing '
               'start-time order (what C01/C02 are to give for implicitly sequenced, overlap-free circuits); on implementation outputs it is judged directly '
               'for library-built circuits and for programs without explicit relations that are free of channel overlaps, where a sub-circuit counts as an '
               'operation occupying its channels from its start to start + duration (two listed operations, a listed operation and a sub-circuit not '
               'containing it, two sub-circuits neither of which contains the other: must not share a channel and overlap in time)',
               'times are compared as integers in ticks of 1/8 (asserted exact by the driver); the memoised start times are cleared before each case']
RULE = ('random build programs: 1-4 qubits, 2-9 commands per circuit, measurements (tags from {"", a, b, heralded, final}; registry of the circuit '
        'they are added to, or of the outermost circuit) interleaved with Wait / Rx180 / CPhase / Barrier; sub-circuits built as their own '
        'DeclarativeCircuit (repetition 1-3) nested with add() up to two levels; outer repetition 1-3; 25% of programs with explicit relations; '
        '50% read all indices before apply_modifiers(), 15% also list a sub-circuit before nesting it; 8% malformed (a measurement attached to an '
        'unrelated circuit); plus a few repetition-code library circuits.  All indices are read after apply_modifiers().  non-trivial: well-formed, >= 3 listed measurements and (>= 2 measured '
        'qubits interleaved, or a repeated tag, or a nested / unrolled block); distinct by hash of the program' ' Some measurements are created with tags that are members of a (str, Enum) class (equal to, but not printed as, their plain-string values); queries use the plain string.')
LEVEL_TEXT = ('Coq theorems over all listings with pairwise distinct identifiers: the two-counter scan returns (number of same-qubit measurements '
              'before, number of measurements before); circuit-level indices are exactly 0..N-1 and per-qubit indices 0..n_q-1 in listing order; '
              'the by-qubit / by-(qubit, tag) getters return exactly the per-qubit indices of the matching measurements; tags partition a qubit\'s '
              'indices; circuit-level index = record position; unknown identifier -> (-1,-1); index increases with start time when same-qubit '
              'measurements are listed in start-time order (partial: that hypothesis is C01/C02\'s). Randomised correspondence evaluated by vm_compute.')
LEVEL_NOTE = ('The scan is a hand-written model tied by correspondence; listing order, schedule (of operations and of sub-circuits) and registry '
              'attachment are read from the implementation. The start-time clause is a theorem only under the stated listing-order hypothesis '
              '(acq_monotone_time_partial); on implementation outputs it is judged directly. Known finding F12: a registry re-targeted to a value-equal '
              'sub-circuit yields -1 after a circuit was listed before being copied. F14 (interleaved unrolled listing) is fixed in 9e78ed9 and kept as a '
              'regression case; the former F13 was a false alarm of this check (premise now read with sub-circuits occupying their channels).')
TECHNIQUE = 'Coq proof over a hand-written model of the scan + randomised correspondence evaluated by vm_compute'

TAGS = ['', 'a', 'b', 'heralded', 'final', 'parity']     # generated programs use the first five; 'parity' comes from the library
RELS = ['F', 'S', 'E']
MAX_MEAS = 48
KNOWN_ALIAS = ('circuit listed (operations or any acquisition index read) before it is copied by nesting or unrolling, while it contains a '
               'relation-free sub-circuit with the same repetition count and a measurement outside that sub-circuit')


KNOWN_INVERSION = ('implicitly sequenced, overlap-free program in which two measurements of a qubit, neither placed after the other by '
                   'construction, are listed (relation depth first) against their start-time order')


# ----------------------------------------------------------------------------------------- program helpers
def subs_of(circ):
    return [c for c in circ['cmds'] if c['op'] == 'sub']


def n_meas(circ):
    """number of measurements of the unrolled circuit"""
    n = 0
    for c in circ['cmds']:
        if c['op'] == 'M':
            n += 1
        elif c['op'] == 'sub':
            n += n_meas(c['circ'])
    return n * max(1, circ.get('rep', 1))


def n_leaves(circ):
    n = 0
    for c in circ['cmds']:
        n += n_leaves(c['circ']) if c['op'] == 'sub' else 1
    return n * max(1, circ.get('rep', 1))


def depth(circ):
    return max([1 + depth(c['circ']) for c in subs_of(circ)] + [0])


def all_cmds(circ):
    for c in circ['cmds']:
        yield c
        if c['op'] == 'sub':
            yield from all_cmds(c['circ'])


def all_circs(circ):
    """(circuit, is_top) for the outer circuit and every nested one"""
    yield circ
    for c in subs_of(circ):
        yield from all_circs(c['circ'])


def has_rel(circ):
    return any(c.get('rel') is not None for c in all_cmds(circ))


def max_rep(circ):
    return max(c.get('rep', 1) for c in all_circs(circ))


def is_lib(case):
    return case.get('k') == 'lib'


def wellformed(case):
    return is_lib(case) or not any(c['op'] == 'M' and c.get('reg') == 'unrelated' for c in all_cmds(case['circ']))


# ----------------------------------------------------------------------------------------- generators
def gen_circ(rng, nq, level, p, budget):
    n = rng.randint(2, 9) if level == 0 else rng.randint(1, 5)
    cmds = []
    for _ in range(n):
        r = rng.random()
        if r < 0.22 and level < 2 and budget > 2:
            rep = rng.choice([1, 1, 1, 2, 2, 3])
            sub = gen_circ(rng, nq, level + 1, p, max(2, budget // (2 * rep)))
            cmd = {'op': 'sub', 'circ': dict(sub, rep=rep)}
            if p['hist'] and rng.random() < 0.5:
                cmd['observe'] = True
            cmds.append(cmd)
            budget -= rep * max(1, n_leaves(sub))
            continue
        if r < 0.62:
            cmd = {'op': 'M', 'q': rng.randrange(nq), 'tag': rng.choice(p['tags']),
                   'reg': 'top' if (level > 0 and rng.random() < 0.2) else 'own'}
        elif r < 0.72:
            cmd = {'op': 'Wait', 'q': rng.randrange(nq), 'd': rng.choice([0, 1, 2, 4, 8, 12, 20])}
        elif r < 0.84:
            cmd = {'op': 'Rx180', 'q': rng.randrange(nq)}
        elif r < 0.92 and nq >= 2:
            a, b = rng.sample(range(nq), 2)
            cmd = {'op': 'CPhase', 'q': [a, b]}
        else:
            cmd = {'op': 'Barrier', 'q': sorted(rng.sample(range(nq), rng.randint(1, nq)))}
        if p['explicit'] and cmds and cmd['op'] != 'Barrier' and rng.random() < 0.35:
            cmd['rel'] = [rng.randrange(len(cmds)), rng.choice(RELS)]
        cmds.append(cmd)
        budget -= 1
        if budget <= 0:
            break
    return {'rep': 1, 'cmds': cmds}


def gen_case(rng):
    for _ in range(200):
        nq = rng.randint(1, 4)
        p = {'explicit': rng.random() < 0.25, 'hist': rng.random() < 0.15,
             'tags': rng.choice([[0, 1, 2, 3, 4], [0, 0, 3, 4], [3, 4], [1, 2, 2], [0]])}
        circ = gen_circ(rng, nq, 0, p, rng.choice([6, 12, 20, 30]))
        circ['rep'] = rng.choice([1, 1, 1, 1, 2, 2, 3])
        if not (1 <= n_meas(circ) <= MAX_MEAS and n_leaves(circ) <= 3 * MAX_MEAS):
            continue
        case = {'k': 'prog', 'circ': circ, 'observe_before': rng.random() < 0.5}
        if rng.random() < 0.08:        # malformed stream: attach one or two measurements to an unrelated circuit
            ms = [c for c in all_cmds(circ) if c['op'] == 'M']
            for m in rng.sample(ms, min(len(ms), rng.randint(1, 2))):
                m['reg'] = 'unrelated'
        return case
    raise RuntimeError('generator could not meet the size bounds')


def gen_two_branch(rng):
    """Two relation branches of different depth and length that meet on one measured qubit through barriers: the family in which listing
    order (relation depth) and start-time order can part (known finding F20); part of the instances are time-ordered."""
    qm = 0
    cmds = []
    slow_first = rng.random() < 0.6
    n1 = rng.randint(1, 3)
    for br in (1, 2):
        if slow_first:      # first branch shallow and long, second deep and short
            n, ds = (n1, [40, 100, 400]) if br == 1 else (n1 + rng.randint(1, 5), [0, 1, 2, 4])
        else:
            n, ds = rng.randint(1, 5), [1, 2, 4, 8, 40, 100, 400]
        cmds += [{'op': 'Wait', 'q': br, 'd': rng.choice(ds)} for _ in range(n)] + [{'op': 'Barrier', 'q': sorted([qm, br])}]
        cmds += [{'op': 'M', 'q': qm, 'tag': rng.choice([0, 1, 3, 4]), 'reg': 'own'} for _ in range(rng.randint(1, 2))]
        if rng.random() < 0.3:
            cmds.append({'op': 'M', 'q': br, 'tag': 0, 'reg': 'own'})
    return {'k': 'prog', 'circ': {'rep': rng.choice([1, 1, 2]), 'cmds': cmds}, 'observe_before': rng.random() < 0.3}


def gen_repeated_two_chain(rng):
    """a repeated block with two parallel chains: one long operation on q0, several measurements of q1 ending (or not) in an
    operation without length; every pass must be listed after the previous one (the family of F14 and of seed C07-3)"""
    cmds = [{'op': 'Wait', 'q': 0, 'd': rng.choice([20, 28, 40])}]
    cmds += [{'op': 'M', 'q': 1, 'tag': rng.choice([0, 1, 3]), 'reg': 'own'} for _ in range(rng.randint(2, 3))]
    tail = rng.choice(['none', 'zero-wait', 'zero-wait', 'rx'])
    if tail == 'zero-wait':
        cmds.append({'op': 'Wait', 'q': 1, 'd': 0})
    elif tail == 'rx':
        cmds.append({'op': 'Rx180', 'q': 1})
    if rng.random() < 0.3:
        cmds.insert(0, {'op': 'Rx180', 'q': 1})
    circ = {'rep': rng.choice([2, 2, 3]), 'cmds': cmds}
    if rng.random() < 0.3:
        circ = {'rep': 1, 'cmds': [{'op': 'sub', 'circ': circ}, {'op': 'M', 'q': 1, 'tag': 4, 'reg': 'own'}]}
    return {'k': 'prog', 'circ': circ, 'observe_before': rng.random() < 0.3}


def gen_cases(rng, tier):
    n = 500 if tier == 'quick' else 5000
    cases = [gen_case(rng) for _ in range(n)]
    cases += [gen_repeated_two_chain(rng) for _ in range(15 if tier == 'quick' else 150)]
    cases += [gen_two_branch(rng) for _ in range(20 if tier == 'quick' else 200)]
    # library-built circuits (repetition code): the start-time clause is claimed for them as well
    libs = [([0, 1], 1), ([0, 1, 0], 3), ([1, 0, 1], 2), ([0, 1, 0], 0)] if tier == 'quick' else \
        [(list(i), c) for i in ([0], [0, 1], [1, 0], [0, 1, 0], [1, 1, 0, 1]) for c in (0, 1, 2, 3, 5)]
    for j, (init, cyc) in enumerate(libs):
        cases.append({'k': 'lib', 'init': init, 'cycles': cyc, 'observe_before': j % 2 == 1})
    return cases


def corpus():
    M = lambda q, t=0, reg='own', **k: dict(op='M', q=q, tag=t, reg=reg, **k)
    S = lambda cmds, rep=1, **k: dict(op='sub', circ=dict(rep=rep, cmds=cmds), **k)
    P = lambda cmds, rep=1, before=False: {'k': 'prog', 'circ': {'rep': rep, 'cmds': cmds}, 'observe_before': before}
    X = lambda q: {'op': 'Rx180', 'q': q}
    return [
        # the shipped tests' shapes: one qubit, two tags, x3
        P([M(0, 3), M(0, 4)], rep=3, before=True),
        # interleaved qubits, repeated tags, nested x2 inside x2, outer registry used inside the block
        P([M(0, 3), X(1), S([M(1, 1), M(0, 1, 'top'), S([M(2, 0), M(1, 1)], rep=2)], rep=2), {'op': 'Barrier', 'q': [0, 1, 2]}, M(0, 4), M(1, 4), M(2, 4)]),
        # malformed: registry of an unrelated circuit -> (-1, -1), the others keep counting it
        P([M(0), M(0, 0, 'unrelated'), M(1), M(0, 4)]),
        # regression cases for the start-time clause.  1st: former F13, a false alarm of this check (DESIGN 8.3): the outer M q0 overlaps the
        # nested block that holds q0, so the premise "free of channel overlaps" fails and the case must PASS.  2nd: F14 (fixed in 9e78ed9):
        # the unrolled listing interleaved the passes, q1 indices 0..5 started at 0, 2, 7, 4, 9, 11.
        P([S([{'op': 'Wait', 'q': 1, 'd': 20}, {'op': 'Barrier', 'q': [0, 1]}, M(0)]), X(2), {'op': 'Barrier', 'q': [0, 2]}, M(0, 1)]),
        P([{'op': 'Wait', 'q': 0, 'd': 28}, M(1), M(1), M(1)], rep=2),
        # F12 witnesses (known finding): listed, then unrolled / nested
        P([S([M(0), M(1)], rep=2), M(0, 1)], rep=2, before=True),
        P([S([S([M(0)]), M(1)], rep=2), M(0, 1)], before=True),
        P([S([S([M(0)]), M(1)], observe=True), M(0, 1)]),
        # F20 (known finding): M q0 behind a long wait on q1 (relation depth 2, start 204) is listed before M q0 behind a short chain on q2
        # (relation depth 5, start 12); no two operations share a channel and overlap
        P([{'op': 'Wait', 'q': 1, 'd': 400}, {'op': 'Barrier', 'q': [0, 1]}, M(0)] + [{'op': 'Wait', 'q': 2, 'd': 4}] * 4
          + [{'op': 'Barrier', 'q': [0, 2]}, M(0, 1)]),
    ]


# ----------------------------------------------------------------------------------------- Coq literals
def c_item(it):
    return f"Meas {cz(it[1])} {cz(it[2])} {cz(it[3])}" if it[0] == 1 else "Other"


def c_listing(l):
    return clist([c_item(it) for it in l])


def c_zl(l):
    return clist([cz(x) for x in l])


def c_obs(o):
    meas = clist([f"MkMeas {cz(m['q'])} {cz(m['tag'])} {cz(m['uid'])} {cz(m['qi'])} {cz(m['ci'])} {cz(m['start'])} {m['reg']}%nat {cz(m['att'])}"
                  for m in o['meas']])
    byq = clist([f"({cz(q)}, {c_zl(l)})" for q, l in o['by_qubit']])
    byt = clist([f"({cz(q)}, {cz(t)}, {c_zl(l)})" for q, t, l in o['by_tag']])
    stim = f"(Some ({c_zl(o['stim_m'])}, {cz(o['stim_n'])}))" if 'stim_m' in o else "None"
    sched = clist([f"({clist([f'MkChannelIdentifier {cz(q)} QubitChannel_{ch}' for q, ch in chs])}, {cz(st)}, {cz(en)})" for chs, st, en in o['sched']])
    chans = lambda chs: clist([f'MkChannelIdentifier {cz(q)} QubitChannel_{ch}' for q, ch in chs])
    subs = clist([f"({chans(chs)}, {cz(st)}, {cz(en)}, {clist([str(i) + '%nat' for i in mem])})" for chs, st, en, mem in o['subcircuits']])
    return (f"(MkObs {c_listing(o['listing'])} {sched} {subs} {clist([c_listing(r) for r in o['regs']])} {meas} {byq} {byt} {stim} "
            f"{cbool(o['uids_consistent'])})")


ENV = {'READOUT': 2.0, 'MICROWAVE': 1.0, 'FLUX': 1.0, 'RESET': 2.0}      # = harness/impl/c07_impl.py ENV


def core_prog(circ):
    """the build program in coregen's vocabulary (what Core.Model.run_prog runs)"""
    out = []
    for c in circ['cmds']:
        if c['op'] == 'sub':
            out.append({'t': 'sub', 'reps': c['circ'].get('rep', 1), 'body': core_prog(c['circ'])})
            continue
        rel = c.get('rel')
        rel = None if rel is None else [rel[1], rel[0]]
        if c['op'] == 'M':
            out.append({'t': 'leaf', 'cls': 'DispersiveMeasure', 'q': [c['q']], 'tag': TAGS[c['tag']], 'rel': rel})
        elif c['op'] == 'Wait':
            out.append({'t': 'leaf', 'cls': 'Wait', 'q': [c['q']], 'dur': ['fixed', c['d'] / 4], 'ch': 'ALL', 'rel': rel})
        elif c['op'] == 'Rx180':
            out.append({'t': 'leaf', 'cls': 'Rx180', 'q': [c['q']], 'rel': rel})
        elif c['op'] == 'CPhase':
            out.append({'t': 'leaf', 'cls': 'CPhase', 'q': list(c['q']), 'rel': rel})
        elif c['op'] == 'Barrier':
            out.append({'t': 'leaf', 'cls': 'Barrier', 'q': list(c['q']), 'rel': None})
        else:
            raise ValueError(c['op'])
    return out


def c_tie(c, o):
    """Core tie: the program as Core commands and the implementation's measurements (qubit, tag, start) in listing order"""
    if is_lib(c):
        return 'None'
    import libgen        # registers the library tag names in coregen.TAGS
    env = f"(mk_env {cz(coregen.t8(ENV['READOUT']))} {cz(coregen.t8(ENV['MICROWAVE']))} {cz(coregen.t8(ENV['FLUX']))} {cz(coregen.t8(ENV['RESET']))} [])"
    prog = coregen.c_prog(core_prog(c['circ']), None, {}, [0])
    impl = clist([f"({cz(m['q'])}, {cz(coregen.TAGS[TAGS[m['tag']]])}, {cz(m['start'])})" for m in o['after']['meas']])
    return f"(Some (MkTie {env} {cz(c['circ'].get('rep', 1))} {prog} {impl}))"


def to_coq(c, o):
    if 'error' in o or 'after' not in o:
        return "CError"
    before = f"(Some {c_obs(o['before'])})" if 'before' in o else "None"
    timed = is_lib(c) or not has_rel(c['circ'])      # library-built, or implicitly sequenced: the start-time clause applies
    return f"(CProg {cbool(wellformed(c))} {cbool(timed)} {before} {c_obs(o['after'])} {c_tie(c, o)})"


# ----------------------------------------------------------------------------------------- metadata
def kind(c):
    if is_lib(c):
        return 'library' + ('+listed-first' if c.get('observe_before') else '')
    circ = c['circ']
    if not wellformed(c):
        k = 'malformed'
    elif depth(circ) == 0:
        k = 'flat' if circ.get('rep', 1) == 1 else 'flat-unrolled'
    else:
        k = 'nested' if max_rep(circ) == 1 else 'nested-unrolled'
    if has_rel(circ):
        k += '+rel'
    if c.get('observe_before') or any(x.get('observe') for x in all_cmds(circ)):
        k += '+listed-first'
    return k


def nontrivial(c, o):
    if not wellformed(c) or 'after' not in o:
        return False
    ms = o['after']['meas']
    if len(ms) < 3:
        return False
    qs = [m['q'] for m in ms]
    interleaved = any(qs[i] != qs[i + 1] for i in range(len(qs) - 1)) and len(set(qs)) >= 2 and len(qs) > len(set(qs))
    keys = [(m['q'], m['tag']) for m in ms]
    return interleaved or len(set(keys)) < len(keys) or is_lib(c) or depth(c['circ']) > 0 or max_rep(c['circ']) > 1


def sample(c, o):
    a = o.get('after', o)
    return {'input': c, 'impl': {k: a.get(k) for k in ('listing', 'meas', 'by_qubit', 'by_tag', 'stim_m')} if isinstance(a, dict) and 'listing' in a else o}


# ----------------------------------------------------------------------------------------- known finding F12
def contains_meas_outside(circ, skip):
    """a measurement in circ's tree that is not inside the sub-circuit command `skip`"""
    for c in circ['cmds']:
        if c is skip:
            continue
        if c['op'] == 'M' and c.get('reg') != 'unrelated':
            return True
        if c['op'] == 'sub' and contains_meas_outside(c['circ'], skip):
            return True
    return False


def descendants(circ):
    """sub-circuit commands strictly inside circ"""
    for c in subs_of(circ):
        yield c
        yield from descendants(c['circ'])


LEAF_CHANNELS = {'M': ['READOUT'], 'Wait': ['ALL'], 'Rx180': ['MICROWAVE'], 'CPhase': ['FLUX', 'MICROWAVE'], 'Barrier': ['ALL']}


def raw_channels(cmd):
    """qubit -> set of channel names the command (a leaf, or a sub-circuit with everything inside it) touches"""
    out = {}
    if cmd['op'] == 'sub':
        for c in cmd['circ']['cmds']:
            for q, chs in raw_channels(c).items():
                out.setdefault(q, set()).update(chs)
    else:
        qs = cmd['q'] if isinstance(cmd['q'], list) else [cmd['q']]
        for q in qs:
            out.setdefault(q, set()).update(LEAF_CHANNELS[cmd['op']])
    return out


def certainly_share_channel(a, b):
    """The implementation decides "shares a channel" on channel_identifiers, which for a sub-circuit is unique_in_order() of the
    identifiers inside it under the wildcard equality of ChannelIdentifier (ALL equals everything on the same qubit): which of several
    equal identifiers survives depends on the listing order.  This test only answers True when every possible outcome has a match."""
    ra, rb = raw_channels(a), raw_channels(b)
    leaf_b = b['op'] != 'sub'

    def covers(q, ch):          # b certainly keeps an identifier equal to (q, ch), ch != ALL
        chs = rb.get(q, set())
        return ch in chs or ('ALL' in chs and (leaf_b or chs == {'ALL'}))
    for q, chs in ra.items():
        if not rb.get(q):
            continue
        if chs == {'ALL'} or (a['op'] != 'sub' and 'ALL' in chs):
            return True
        if any(covers(q, ch) for ch in chs if ch != 'ALL'):
            return True
    return False


def head_subs(circ):
    """sub-circuit commands of circ that may be relation-free: nothing added before them certainly shares a channel with them
    (a sub-circuit never carries a relation of its own into add(); it is placed after the last-listed operation sharing a channel)"""
    for i, c in enumerate(circ['cmds']):
        if c['op'] == 'sub' and not any(certainly_share_channel(p, c) for p in circ['cmds'][:i]):
            yield c


def head_descendants(circ):
    """sub-circuits reached from circ through relation-free sub-circuits only: listing circ hands circ's relation link to exactly these"""
    for c in head_subs(circ):
        yield c
        yield from head_descendants(c['circ'])


def alias_possible(case):
    """Syntactic family of F12.  Listing a circuit C hands C's relation link to its relation-free sub-circuits (recursively), which makes
    such a sub-circuit S `==` C (dataclass equality: relation, repetition strategy; graphs always compare equal) when the repetition
    counts are equal.  A later copy of a composite holding both S and a measurement attached to C then re-targets the measurement's
    registry through a dict lookup that finds S's copy.  Copies happen when a circuit is nested (add) or a repetition >= 2 is unrolled."""
    top = case['circ']
    rt = top.get('rep', 1)
    if case.get('observe_before'):
        # unrolling the outer circuit itself: keys are compared with (link, rep_top)
        if rt >= 2 and any(s['circ'].get('rep', 1) == rt and contains_meas_outside(top, s) for s in head_descendants(top)):
            return True
        # unrolling a nested block K (the outer repetition is already reset to 1 then): keys are compared with (link, 1)
        for k in head_descendants(top):
            if k['circ'].get('rep', 1) >= 2 and any(s['circ'].get('rep', 1) == 1 and contains_meas_outside(k['circ'], s)
                                                    for s in head_descendants(k['circ'])):
                return True
    for c in descendants(top):
        if c.get('observe'):
            rc = c['circ'].get('rep', 1)
            for s in head_descendants(c['circ']):
                rs = s['circ'].get('rep', 1)
                if (rs == rc or rs == rt) and contains_meas_outside(c['circ'], s):
                    return True
    return False


def explained_by_alias(o):
    """Every anomaly of the output is a measurement whose registry was re-targeted to a sub-circuit of the final circuit (att = 1) and
    therefore reports (-1, -1); the measurements attached to the circuit itself carry exactly the right indices and the record is right."""
    a = o['after']
    ms = a['meas']
    if not a.get('uids_consistent') or len({m['uid'] for m in ms}) != len(ms):
        return False
    if not any(m['att'] == 1 for m in ms):
        return False
    for i, m in enumerate(ms):
        if m['att'] == 1:
            if (m['qi'], m['ci']) != (-1, -1):
                return False
        elif m['att'] == 0:
            if m['ci'] != i or m['qi'] != sum(1 for x in ms[:i] if x['q'] == m['q']):
                return False
        else:
            return False
    if a.get('stim_m') != [m['q'] for m in ms] or a.get('stim_n') != len(ms):
        return False
    for q, l in a['by_qubit']:
        if l != [m['qi'] for m in ms if m['q'] == q]:
            return False
    for q, t, l in a['by_tag']:
        if l != [m['qi'] for m in ms if m['q'] == q and m['tag'] == t]:
            return False
    return True


# ----------------------------------------------------------------------------------------- known finding F20
def indices_exact(a):
    """every clause of spec_wellformed except the start-time clause, on the reported output"""
    ms = a['meas']
    if not a.get('uids_consistent') or len({m['uid'] for m in ms}) != len(ms):
        return False
    if [tuple(it[1:]) for it in a['listing'] if it[0] == 1] != [(m['q'], m['tag'], m['uid']) for m in ms]:
        return False
    for i, m in enumerate(ms):
        if m['att'] != 0 or m['ci'] != i or m['qi'] != sum(1 for x in ms[:i] if x['q'] == m['q']):
            return False
    if a.get('stim_m') != [m['q'] for m in ms] or a.get('stim_n') != len(ms):
        return False
    for q, l in a['by_qubit']:
        if l != [m['qi'] for m in ms if m['q'] == q]:
            return False
    for q, t, l in a['by_tag']:
        if l != [m['qi'] for m in ms if m['q'] == q and m['tag'] == t]:
            return False
    return True


def placed_after(a):
    """pos -> set of listed positions the operation at pos is (transitively) placed after by construction"""
    up = a['up']
    memo = {}

    def anc(i):
        if i not in memo:
            memo[i] = set()
            for j in up[i]:
                memo[i].add(j)
                memo[i] |= anc(j)
        return memo[i]
    return anc


def inversions(a):
    ms = a['meas']
    return [(x, y) for x in ms for y in ms if x['q'] == y['q'] and x['start'] < y['start'] and not x['qi'] < y['qi']]


def explained_by_inversion(a):
    """the only failing clause is the start-time clause, and every pair listed against its start-time order consists of two measurements
    neither of which is placed after the other by construction (a pair that IS so ordered and still inverted is a different failure)"""
    if 'up' not in a or not indices_exact(a):
        return False
    inv = inversions(a)
    if not inv:
        return False
    anc = placed_after(a)
    return all(x['pos'] not in anc(y['pos']) and y['pos'] not in anc(x['pos']) for x, y in inv)


def known_class(c, o, agree_ok=True):
    if 'error' in o or 'after' not in o or not wellformed(c) or is_lib(c):
        return None
    if alias_possible(c) and explained_by_alias(o):
        return KNOWN_ALIAS
    # F20 is a consequence of the ACCEPTED placement rule: it is only recognised where the implementation lists and times the
    # measurements exactly as the Core model does (agree_ok: the tie of this case holds); a listing the model does not predict is
    # a different failure
    if agree_ok and not has_rel(c['circ']) and explained_by_inversion(o['after']):
        return KNOWN_INVERSION
    return None


# ----------------------------------------------------------------------------------------- shrinking
def _paths(circ, prefix=()):
    for i, c in enumerate(circ['cmds']):
        yield prefix + (i,)
        if c['op'] == 'sub':
            yield from _paths(c['circ'], prefix + (i,))


def _circ_at(case, path):
    circ = case['circ']
    for i in path:
        circ = circ['cmds'][i]['circ']
    return circ


def _fix_rels(circ, removed):
    for c in circ['cmds']:
        r = c.get('rel')
        if r is not None:
            if r[0] == removed:
                del c['rel']
            elif r[0] > removed:
                c['rel'] = [r[0] - 1, r[1]]


def shrink_candidates(case):
    out = []
    if is_lib(case):
        return out
    if case.get('observe_before'):
        c = copy.deepcopy(case); c['observe_before'] = False; out.append(c)
    for path in _paths(case['circ']):
        c = copy.deepcopy(case)
        parent = _circ_at(c, path[:-1])
        cmd = parent['cmds'][path[-1]]
        # drop the command
        d = copy.deepcopy(c)
        dp = _circ_at(d, path[:-1])
        del dp['cmds'][path[-1]]
        _fix_rels(dp, path[-1])
        if n_meas(d['circ']) >= 1:
            out.append(d)
        if cmd['op'] == 'sub':
            if cmd['circ'].get('rep', 1) > 1:
                e = copy.deepcopy(c); _circ_at(e, path[:-1])['cmds'][path[-1]]['circ']['rep'] -= 1; out.append(e)
            if cmd.get('observe'):
                e = copy.deepcopy(c); del _circ_at(e, path[:-1])['cmds'][path[-1]]['observe']; out.append(e)
        else:
            if cmd.get('rel') is not None:
                e = copy.deepcopy(c); del _circ_at(e, path[:-1])['cmds'][path[-1]]['rel']; out.append(e)
            if cmd['op'] == 'M' and cmd.get('tag', 0) != 0:
                e = copy.deepcopy(c); _circ_at(e, path[:-1])['cmds'][path[-1]]['tag'] = 0; out.append(e)
            if cmd['op'] == 'M' and cmd.get('reg') == 'top':
                e = copy.deepcopy(c); _circ_at(e, path[:-1])['cmds'][path[-1]]['reg'] = 'own'; out.append(e)
    if case['circ'].get('rep', 1) > 1:
        c = copy.deepcopy(case); c['circ']['rep'] -= 1; out.append(c)
    return out
