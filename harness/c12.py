"""C12 -- index kernels tile the acquisition index range (DESIGN.md 7, C12)."""
import itertools
from common import cz, cbool, clist

ID = 'C12'
GEN_MODULES = ['Kernels']
MODEL_TARGETS = ['coq/C12/Run.vo']
PROOF_TARGETS = ['coq/C12/Proofs.vo']
PROPS_FILE = 'coq/Props/C12.v'
RUN_MODULE = 'QCE.C12.Run'
COQ_HEADER = 'From QCE Require Import C12.Model.\nFrom Gen Require Import Kernels.'
IMPL = 'harness/impl/c12_impl.py'
REPEAT_REVERSED = True     # every case is evaluated twice per run, the second time in reversed order in the same processes
SHARD = 150
TRUSTED = ['Gen/Kernels.v is regenerated from kernel_repetition_code.py / kernel_calibration.py / intrf_index_strategy.py / '
           'intrf_index_kernel.py / intrf_stabilizer_index_kernel.py on every run (method bodies translated; the two kernel-building '
           'loops are pinned by shape, any deviation is a translator error)',
           'C12/Model.v: hand-written fold of the kernel-building loops (first kernel FixedIndexStrategy(0), then '
           'RelativeIndexStrategy(previous)), tied by comparison of every public getter on every generated case']
ASSUMPTIONS = ['Python int arithmetic is exact: `dataset_size // cycle_length` is translated to Z.div (since the F9 fix d0955ff there is no float '
               'division left in the anchored code; the generator records float_division_sites = 0 and would model an `int(a / b)` as Z.quot)',
               'qubit identifiers are modelled as integers; membership `q in ids` = some element is ==-equal (QubitIDObj equality is name equality, C19)',
               'numpy int arrays are lists of integers; the empty answer np.asarray([]) is the empty list',
               'the dynamic index_offset_strategy.get_index(self) is modelled as a start_index field filled by the chaining rule of __init__ (pinned by the generator)']
RULE = ('quick: every rounds list of length <= 3 with distinct entries over 0..5 (156) x heralded on/off x repetitions 1..3, calibration flag drawn, '
        'queried qubit = an ancilla and one of (data qubit, uninvolved id, id present in both lists); 150 random longer lists (length 4..6, distinct '
        'entries 0..40); every cycle_stabilizer_count of the list plus one absent count is queried; a malformed stream (empty list, duplicate / negative '
        'entries) compared by error class; every description is run twice: kind exp (all getters) and kind est (the estimate clause alone, on '
        'reps x L, reps x L + 1, reps x repetition-kernel length (+ 1) and a random size), plus two est cases with repetition counts above 2^53 (F9 regression). thorough: lists of length <= 4 over 0..6, 1500 random lists up to length 8 / entries up to 100 / 6 repetitions. '
        'non-trivial: at least two kernels, or a 0-/1-round block, with the queried qubit involved')


def exp_case(rng, rounds, h, reps, qkind, c=None):
    nd = rng.randint(1, 3)
    na = rng.randint(1, 2)
    data = list(range(nd))
    anc = list(range(10, 10 + na))
    if qkind == 'anc':
        q = rng.choice(anc)
    elif qkind == 'data':
        q = rng.choice(data)
    elif qkind == 'none':
        q = 99
    else:  # 'both': the same identifier listed as data and as ancilla qubit
        q = 5
        data = data + [5]
        anc = [5] + anc
    absent = next(n for n in itertools.count(0) if n not in rounds)
    queries = list(dict.fromkeys(rounds)) + [absent]
    return {'k': 'exp', 'rounds': list(rounds), 'h': h, 'c': rng.random() < 0.5 if c is None else c, 'reps': reps, 'data': data, 'anc': anc,
            'q': q, 'qkind': qkind, 'queries': queries}


def est_case(rng, e, sizes=None):
    """the estimate clause for the description of exp case e"""
    return {'k': 'est', 'rounds': e['rounds'], 'h': e['h'], 'c': e['c'], 'reps': e['reps'], 'data': e['data'], 'anc': e['anc'],
            'sizes': [rng.randint(0, 400)] if sizes is None else sizes}


# witness of finding F15 (fixed): flag off, estimate vs kernel cycle length; stays in the corpus as a regression case
FLAG_OFF_WITNESS = {'k': 'est', 'rounds': [1], 'h': False, 'c': False, 'reps': 2, 'data': [0], 'anc': [10], 'sizes': []}


def gen_cases(rng, tier):
    cases = []
    # one very large experiment: rounds 1..60 with heralding and calibration (cycle length 1896), 1 200 000 repetitions, i.e. indices
    # beyond 2^31; queried for the 1-round block of an ancilla (short rows), see C12/Run.v CBig
    cases.append({'k': 'big', 'rounds': list(range(1, 61)), 'h': True, 'c': True, 'reps': 1200000, 'data': [0, 1, 2], 'anc': [10, 11], 'q': 10, 'n': 1})
    top, maxlen = (6, 4) if tier == 'thorough' else (5, 3)
    for n in range(1, maxlen + 1):
        for rounds in itertools.permutations(range(top + 1), n):
            for h in (False, True):
                for reps in (1, 2, 3):
                    cases.append(exp_case(rng, rounds, h, reps, 'anc'))
                    cases.append(est_case(rng, cases[-1]))
                    cases.append(exp_case(rng, rounds, h, reps, rng.choice(['data', 'none', 'both'])))
                    cases.append(est_case(rng, cases[-1]))
    nrand, lmax, vmax, rmax = (1500, 8, 100, 6) if tier == 'thorough' else (150, 6, 40, 3)
    for _ in range(nrand):
        rounds = rng.sample(range(vmax + 1), rng.randint(4, lmax))
        cases.append(exp_case(rng, rounds, rng.random() < 0.5, rng.randint(1, rmax), rng.choice(['anc', 'anc', 'data', 'none', 'both'])))
        cases.append(est_case(rng, cases[-1]))
    # dataset sizes whose repetition count exceeds 2^53 (the estimate must still invert reps x cycle length exactly; F9 regression)
    cases.append(est_case(rng, exp_case(rng, (1,), False, 1, 'anc', c=False), [2 ** 53 + 1, 3 * (2 ** 53 + 1), 4 * (2 ** 53 + 1)]))
    cases.append(est_case(rng, exp_case(rng, (3,), True, 1, 'anc', c=True), [10 * (2 ** 53 + 1), 10 * (2 ** 60 + 7)]))
    # malformed stream: only the error class is compared
    for h in (False, True):
        for c in (False, True):
            cases.append({'k': 'err', 'rounds': [], 'h': h, 'c': c, 'reps': 1, 'data': [0], 'anc': [10], 'size': 4})
    for rounds in ([2, 2], [0, 0, 1], [-1], [3, -2, 3]):
        cases.append({'k': 'err', 'rounds': rounds, 'h': True, 'c': True, 'reps': 2, 'data': [0, 1], 'anc': [10], 'size': rng.randint(0, 60)})
    return cases


def corpus():
    # hand-picked: the suite's list; 0- and 1-round blocks next to the heralded offset; flag off
    import random
    r = random.Random(12)
    exps = [exp_case(r, [0, 3, 6, 2], True, 2, 'anc', c=True), exp_case(r, [0], False, 1, 'anc', c=False),
            exp_case(r, [1, 0], True, 3, 'both', c=False), exp_case(r, [5], False, 1, 'data', c=True)]
    # the witness of finding F15 (known_findings.json, fixed) is replayed first on every run
    return [dict(FLAG_OFF_WITNESS)] + exps + [est_case(r, exps[0]), est_case(r, exps[3])]


def lz(l):
    return clist([cz(x) for x in l])


def mat(m):
    return clist([lz(r) for r in m])


def outcome(o):
    if 'v' in o:
        return f"(Value {cz(o['v'])})"
    return f"(Raised {o['error'] if o['error'] in ('IndexError', 'AssertionError') else 'OtherError'})"


def to_coq(c, o):
    head = f"{lz(c['rounds'])} {cbool(c['h'])} {cbool(c['c'])} {cz(c['reps'])} {lz(c['data'])} {lz(c['anc'])}"
    if c['k'] == 'big' and 'error' not in o:
        rows = clist([f"({cz(i)}, {mat(r)})" for i, r in o['rows']])
        return (f"(CBig {head} {cz(c['q'])} {cz(c['n'])} {cz(o['start'])} {cz(o['stop'])} {cz(o['L'])} {lz(o['nrows'])} {rows})")
    if c['k'] == 'est' and 'error' not in o:
        return f"(CEst {head} {cz(o['L'])} {lz(o['sizes'])} {clist([outcome(e) for e in o['ests']])})"
    if c['k'] == 'err' or 'error' in o:
        if 'error' in o:    # the whole case raised: recorded as a failed construction (agree and spec_ok both reject it for a proper input)
            e = o['error'] if o['error'] in ('IndexError', 'AssertionError') else 'OtherError'
            return f"(CErr {head} 0 (Raised {e}) (Raised OtherError))"
        init = "(Value tt)" if 'v' in o['init'] else outcome(o['init'])
        return f"(CErr {head} {cz(c['size'])} {init} {outcome(o['est'])})"
    ks = clist([f"(MkKobs {cz(k['n'])} {cz(k['start'])} {cz(k['stop'])} {cz(k['len'])} {lz(k['her'])} {lz(k['stab'])} {lz(k['fin'])} {lz(k['contains'])})"
                for k in o['ks']])
    calt = clist([f"(MkCobs {cz(cal['start'])} {cz(cal['stop'])} {cz(cal['len'])} {mat(cal['her'])} {mat(cal['st'])} {lz(cal['contains'])})"
                  for cal in o['cal']])
    qs = clist([f"(MkQobs {cz(x['n'])} {mat(x['her'])} {mat(x['sp'])} {mat(x['proj'])})" for x in o['qs']])
    return (f"(CExp {head} {cz(c['q'])} {cz(o['start'])} {cz(o['stop'])} {cz(o['L'])} {cz(o['klen'])} {cz(o['xreps'])} {ks} {calt} {qs} "
            f"{mat(o['cal_her'])} {mat(o['cal_proj'])})")


def kind(c):
    if c['k'] == 'big':
        return 'big'
    if c['k'] == 'est':
        return f"est/c={'on' if c['c'] else 'off'}"
    return c['k'] if c['k'] == 'err' else f"exp/{c['qkind']}/len{min(len(c['rounds']), 4)}{'+' if len(c['rounds']) > 4 else ''}"


def nontrivial(c, o):
    if c['k'] == 'big':
        return True
    if c['k'] == 'est':
        return len(c['rounds']) >= 2 or min(c['rounds']) <= 1
    return c['k'] == 'exp' and c['qkind'] != 'none' and (len(c['rounds']) >= 2 or min(c['rounds']) <= 1)


def sample(c, o):
    if c['k'] != 'exp' or 'error' in o:
        return {'input': c, 'impl': o}
    return {'input': c, 'impl': {k: o[k] for k in ('start', 'stop', 'L', 'ks', 'cal')}}


LEVEL_TEXT = ('Machine-checked theorems (Coq) over kernel definitions regenerated from the Python source on every run, for ALL non-empty rounds lists, both '
              'heralded / calibration flags, all identifier lists and repetition counts: kernels back to back from 0, the calibration kernel last and present '
              'exactly when the experiment has calibration points, none empty; every index category inside its kernel; all categories of a qubit strictly '
              'increasing hence pairwise disjoint (within a cycle and over all repetitions); an ancilla covers every block with >= 1 round and the calibration '
              'block exactly, and a 0-round block except exactly its final slot; every getter returns translates by the cycle length (calibration getters '
              'nothing when the flag is off); the estimate returns n exactly on n x kernel_cycle_length of the experiment kernel built from the same '
              'description and raises its assertion elsewhere, for both flag values (exact integer division). Correspondence: every public getter compared '
              'with the model and judged by the in-Coq specification on exhaustive small rounds lists, incl. repetition counts above 2^53.')
LEVEL_NOTE = ('Trusted: Coq kernel, the ast translator (cross-checked by comparing every getter with the running code), the hand-written fold of the '
              'kernel-building loop (its shape is pinned by the generator). The theorems are about the code after the fixes of F9 (integer division) and F15 '
              '(qutrit_calibration_points honoured: generated constant experiment_kernel_honours_calibration_flag, theorem C12_calibration_flag_honoured); on a '
              'tree without them the proofs stop checking and the flag-off cases fail spec_ok. Recorded quirks: repeated round counts hide all but the first '
              'kernel (C12_rounds_distinct_needed_refuted); the experiment kernel stop_index is exclusive (not part of the property). No axioms.')
TECHNIQUE = 'Coq proof (induction over the rounds list + lia) over translator-generated definitions + exhaustive correspondence evaluated by vm_compute'
