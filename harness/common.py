"""Shared machinery of every check: translate -> make -> Print Assumptions -> correspondence -> decision protocol
(DESIGN.md section 5) -> evidence.  Runs under the system python3 (standard library only); the implementation is
driven in separate /venv/bin/python processes."""
import fcntl
import hashlib
import json
import os
import random
import re
import subprocess
import sys
import time
from concurrent.futures import ThreadPoolExecutor

ROOT = os.path.dirname(os.path.dirname(os.path.abspath(__file__)))
REPO = os.environ.get('QCE_REPO', '/repo')
BUILD = f"{ROOT}/build"
GEN = f"{BUILD}/Gen"
COQFLAGS = ['-Q', 'coq', 'QCE', '-Q', 'build/Gen', 'Gen']
VENV_PY = '/venv/bin/python'
GUARD = 'QCE_CIRCUIT_VERIF'
ALLOWED_AXIOMS = {  # axioms declared by the Coq standard library itself; named in the trusted base when they appear
    'ClassicalDedekindReals.sig_not_dec', 'ClassicalDedekindReals.sig_forall_dec',
    'FunctionalExtensionality.functional_extensionality_dep', 'Classical_Prop.classic',
}
FORBIDDEN = re.compile(r'\b(Admitted|admit|Axiom|Axioms|Parameter|Parameters|Conjecture|Conjectures|Hypothesis|Hypotheses|Variable|Variables)\b'
                       r'|Unset\s+Guard|bypass_check|Admit\s+Obligations|-type-in-type|Unset\s+Universe\s+Checking|Unset\s+Positivity')


def sh(cmd, timeout, cwd=ROOT, env=None, inp=None):
    e = dict(os.environ)
    if env:
        e.update(env)
    try:
        p = subprocess.run(cmd, cwd=cwd, env=e, input=inp, capture_output=True, text=True, timeout=timeout)
        return p.returncode, p.stdout, p.stderr
    except subprocess.TimeoutExpired as ex:
        return 124, (ex.stdout or b'').decode(errors='replace') if isinstance(ex.stdout, bytes) else (ex.stdout or ''), 'TIMEOUT'


class Lock:
    def __enter__(self):
        os.makedirs(BUILD, exist_ok=True)
        self.f = open(f"{BUILD}/.lock", 'w')
        fcntl.flock(self.f, fcntl.LOCK_EX)
        return self

    def __exit__(self, *a):
        fcntl.flock(self.f, fcntl.LOCK_UN)
        self.f.close()


# ----------------------------------------------------------------------------------------- translate + build
def translate():
    rc, out, err = sh(['python3', 'tools/translate/run.py', '--repo', REPO, '--out', GEN], 120)
    try:
        rep = json.loads(out)
    except Exception:
        rep = {'ok': False, 'modules': {}, 'crash': (out + err)[-2000:]}
    return rep


def coq_sources():
    out = []
    for base in ('coq', 'build/Gen'):
        for d, _, fs in os.walk(f"{ROOT}/{base}"):
            for f in sorted(fs):
                if f.endswith('.v'):
                    out.append(os.path.relpath(f"{d}/{f}", ROOT))
    return sorted(out)


def write_makefile():
    srcs = [s for s in coq_sources() if not s.startswith('coq/Props/')]
    text = "-Q coq QCE\n-Q build/Gen Gen\n" + "\n".join(srcs) + "\n"
    path = f"{ROOT}/_CoqProject"
    if not os.path.exists(path) or open(path).read() != text or not os.path.exists(f"{ROOT}/Makefile.coq"):
        open(path, 'w').write(text)
        rc, out, err = sh(['coq_makefile', '-f', '_CoqProject', '-o', 'Makefile.coq'], 60)
        if rc != 0:
            raise RuntimeError('coq_makefile failed: ' + err)


def make(targets, timeout=1500, jobs=8):
    """Full .vo build of targets (never -vos). Returns (ok, log)."""
    write_makefile()
    rc, out, err = sh(['make', '-f', 'Makefile.coq', f'-j{jobs}', '-k'] + targets, timeout)
    return rc == 0, (out + '\n' + err)


def failing_lemma(log):
    """Locate the statement that stopped checking from a coqc error: File "./x.v", line N -> nearest preceding Lemma."""
    res = []
    for m in re.finditer(r'File "\./?([^"]+)", line (\d+)', log):
        path, line = m.group(1), int(m.group(2))
        name = None
        try:
            lines = open(f"{ROOT}/{path}").read().split('\n')[:line]
            for l in reversed(lines):
                mm = re.match(r'\s*(Theorem|Lemma|Corollary|Example|Fact|Definition|Fixpoint)\s+([A-Za-z0-9_\']+)', l)
                if mm:
                    name = mm.group(2)
                    break
        except OSError:
            pass
        res.append({'file': path, 'line': line, 'statement': name})
    return res


def closure(files):
    """Transitive dependency closure (via coqdep) of the given .v files, restricted to this development."""
    seen, todo = set(), list(files)
    while todo:
        f = todo.pop()
        if f in seen or not os.path.exists(f"{ROOT}/{f}"):
            continue
        seen.add(f)
        rc, out, err = sh(['coqdep'] + COQFLAGS + [f], 60)
        for dep in re.findall(r'(\S+)\.vo', out.split(':', 1)[1] if ':' in out else ''):
            todo.append(dep + '.v')
    return sorted(seen)


def count_obligations(files):
    n = 0
    names = []
    for f in files:
        txt = open(f"{ROOT}/{f}").read()
        txt = re.sub(r'\(\*.*?\*\)', '', txt, flags=re.S)
        for m in re.finditer(r'^\s*(Theorem|Lemma|Corollary|Example|Fact|Remark|Proposition)\s+([A-Za-z0-9_\']+)', txt, flags=re.M):
            n += 1
            names.append(m.group(2))
    return n, names


def hygiene(files):
    """No Admitted/admit/Axiom/Parameter/... anywhere; `Variable`/`Hypothesis` only inside a Section."""
    bad = []
    for f in files:
        txt = open(f"{ROOT}/{f}").read()
        txt = re.sub(r'\(\*.*?\*\)', lambda m: ' ' * len(m.group(0)), txt, flags=re.S)
        depth = 0
        for i, line in enumerate(txt.split('\n'), 1):
            if re.match(r'\s*Section\s', line):
                depth += 1
            if re.match(r'\s*End\s', line) and depth > 0:
                depth -= 1
            for m in FORBIDDEN.finditer(line):
                w = m.group(0)
                if w in ('Variable', 'Variables', 'Hypothesis', 'Hypotheses') and depth > 0:
                    continue
                if w in ('Variable', 'Variables', 'Hypothesis', 'Hypotheses') and re.match(r'\s*Context', line):
                    continue
                bad.append(f"{f}:{i}: {w}")
    return bad


def print_assumptions(props_file, timeout=600):
    """Compile Props/Cxx.v (always, it is tiny) and parse the Print Assumptions output beneath each theorem."""
    rc, out, err = sh(['coqc'] + COQFLAGS + [props_file], timeout)
    ok = rc == 0
    axioms = set()
    closed = out.count('Closed under the global context')
    for m in re.finditer(r'^([A-Za-z_][A-Za-z0-9_\.\']*)\s*:', out, flags=re.M):
        axioms.add(m.group(1))
    axioms.discard('Axioms')      # the header line Coq prints before a non-empty list
    txt = open(f"{ROOT}/{props_file}").read()
    thms = re.findall(r'^\s*Theorem\s+([A-Za-z0-9_\']+)', txt, flags=re.M)
    printed = re.findall(r'^\s*Print Assumptions\s+([A-Za-z0-9_\']+)\s*\.', txt, flags=re.M)
    return {'ok': ok, 'log': (out + err)[-3000:], 'axioms': sorted(axioms), 'closed': closed, 'theorems': thms,
            'unprinted': sorted(set(thms) - set(printed)),
            'foreign_axioms': sorted(a for a in axioms if a not in ALLOWED_AXIOMS)}


# ----------------------------------------------------------------------------------------- implementation driver
def run_impl(script, cases, timeout=900, hashseed='0', shards=8, extra_env=None):
    """Run the implementation driver on cases (list of JSON objects); returns list of outputs (JSON), same order.
    The driver is `script` run by /venv/bin/python with PYTHONPATH=/repo/src; reads JSON list on stdin, writes JSON list."""
    env = {'PYTHONPATH': f"{REPO}/src", 'PYTHONHASHSEED': str(hashseed), 'MPLBACKEND': 'Agg', GUARD: '1',
           'PYTHONWARNINGS': 'ignore', 'PYTHONDONTWRITEBYTECODE': '1'}
    if extra_env:
        env.update(extra_env)
    if not cases:
        return []
    shards = max(1, min(shards, (len(cases) + 19) // 20))
    chunks = [cases[i::shards] for i in range(shards)]
    if shards > 1:
        # The library writes its default configuration files (YAML, untracked) when it is imported for the first time in a checkout;
        # parallel first imports race on them (one process reads a file another is still writing).  Import once, serially, first.
        sh([VENV_PY, f"{ROOT}/{script}"], 300, cwd='/', env=env, inp='[]')

    def one(chunk):
        rc, out, err = sh([VENV_PY, f"{ROOT}/{script}"], timeout, cwd='/', env=env, inp=json.dumps(chunk))
        if rc == 124:       # out of time (a loaded machine?): once more with twice the limit before the shard counts as failed
            rc, out, err = sh([VENV_PY, f"{ROOT}/{script}"], 2 * timeout, cwd='/', env=env, inp=json.dumps(chunk))
        try:
            res = json.loads(out[out.index('\x01JSON\x01') + 6:])
            assert len(res) == len(chunk)
            return res
        except Exception:
            return [{'driver_error': (err or out)[-800:]} for _ in chunk]

    with ThreadPoolExecutor(max_workers=shards) as ex:
        results = list(ex.map(one, chunks))
    outs = [None] * len(cases)
    for s, res in enumerate(results):
        for j, r in enumerate(res):
            outs[s + j * shards] = r
    return outs


# ----------------------------------------------------------------------------------------- model evaluation in Coq
def coq_eval_cases(prop_id, run_module, header, terms, shard_size=300, timeout=900, fns=('agree', 'spec_ok')):
    """Evaluate `failing <fn> cases` for each fn inside Coq (vm_compute). terms: list of Coq terms of type `case`.
    Returns (ok, {fn: sorted list of failing global indices}, log)."""
    d = f"{BUILD}/cases/{prop_id}"
    os.makedirs(d, exist_ok=True)
    for f in os.listdir(d):
        os.remove(f"{d}/{f}")
    files = []
    for s in range(0, len(terms), shard_size):
        chunk = terms[s:s + shard_size]
        name = f"{d}/shard{s // shard_size}.v"
        with open(name, 'w') as f:
            f.write(f"From Coq Require Import ZArith List Bool String.\nImport ListNotations.\n"
                    f"From QCE Require Import Base.Prelude.\n{header}\nRequire Import {run_module}.\n"
                    "Open Scope Z_scope.\nOpen Scope string_scope.\n"
                    "Definition cases : list case := [\n" + ";\n".join(chunk) + "\n].\n")
            for fn in fns:
                f.write(f"Eval vm_compute in (failing {fn} cases).\n")
        files.append((s, name))

    def one(arg):
        s, name = arg
        rc, out, err = sh(['coqc'] + COQFLAGS + [os.path.relpath(name, ROOT)], timeout)
        return s, rc, out, err

    fails = {fn: [] for fn in fns}
    ok, log = True, ''
    with ThreadPoolExecutor(max_workers=8) as ex:
        results = list(ex.map(one, files))
    # a shard that ran out of time (a loaded machine) is evaluated once more, alone and with three times the limit, before the
    # evaluation is declared broken
    slow = [(s, name) for (s, name), r in zip(files, results) if r[1] == 124]
    if slow:
        redo = {}
        for s, name in slow:
            rc, out, err = sh(['coqc'] + COQFLAGS + [os.path.relpath(name, ROOT)], 3 * timeout)
            redo[s] = (s, rc, out, err)
        results = [redo.get(r[0], r) for r in results]
    if True:
        for s, rc, out, err in results:
            groups = re.findall(r'=\s*\[([^\]]*)\]\s*:\s*list nat', out)
            if rc != 0 or len(groups) != len(fns):
                ok = False
                log += f"shard {s}: rc={rc}\n{(out + err)[-1500:]}\n"
                continue
            for fn, g in zip(fns, groups):
                fails[fn] += [s + int(x) for x in re.findall(r'\d+', g)]
    return ok, {k: sorted(v) for k, v in fails.items()}, log


# ----------------------------------------------------------------------------------------- Coq literal helpers
def cz(n):
    n = int(n)
    return f"{n}" if n >= 0 else f"({n})"


def cbool(b):
    return 'true' if b else 'false'


def cstr(s):
    assert '"' not in s
    return f'"{s}"'


def clist(items):
    return "[" + "; ".join(items) + "]"


def copt(x, f=lambda v: v):
    return "None" if x is None else f"(Some {f(x)})"


def chash(obj):
    return hashlib.sha256(json.dumps(obj, sort_keys=True).encode()).hexdigest()[:16]


def load_corpus(pid):
    """Minimised inputs of earlier failures (committed under corpus/<id>/); they run first on every check."""
    d = f"{ROOT}/corpus/{pid}"
    out = []
    if os.path.isdir(d):
        for f in sorted(os.listdir(d)):
            if f.endswith('.json'):
                out.append(json.load(open(f"{d}/{f}"))['input'])
    return out


# ----------------------------------------------------------------------------------------- known findings
def load_known():
    p = f"{ROOT}/known_findings.json"
    if not os.path.exists(p):
        return []
    return json.load(open(p))['findings']


def batch_shrink(P, case, out, budget_s=120, rounds=30):
    """Greedy shrinking: P.shrink_candidates(case) yields smaller cases; all candidates of a round are run together
    (implementation + spec_ok inside Coq); the first that still fails replaces the case."""
    t0 = time.time()
    cur, cur_out = case, out
    for _ in range(rounds):
        if time.time() - t0 > budget_s:
            break
        cands = list(P.shrink_candidates(cur))[:60]
        if not cands:
            break
        outs = run_impl(P.IMPL, cands, hashseed=os.environ.get('VERIF_HASHSEED', '0'), **getattr(P, 'IMPL_KW', {}))
        if any(isinstance(o, dict) and 'driver_error' in o for o in outs):
            break
        terms = [P.to_coq(c, o) for c, o in zip(cands, outs)]
        ok, fails, _ = coq_eval_cases(P.ID + '-shrink', P.RUN_MODULE, getattr(P, 'COQ_HEADER', ''), terms,
                                      shard_size=getattr(P, 'SHARD', 300), fns=('spec_ok',))
        bad = fails.get('spec_ok', [])
        if hasattr(P, 'known_class'):
            bad = [i for i in bad if P.known_class(cands[i], outs[i]) is None]
        if not ok or not bad:
            break
        cur, cur_out = cands[bad[0]], outs[bad[0]]
    return cur, cur_out


# ----------------------------------------------------------------------------------------- the check
LAST_EVIDENCE = {}


def run_check(P, tier, seed, replay=None, report_as=None):
    """P: property module (see harness/cXX.py).  Implements DESIGN.md section 5.
    report_as: id of the property this module supports (a supporting check reports its verdict under that property's id and
    writes its evidence under evidence/support/; harness/main.py merges a summary into the property's own evidence)."""
    t0 = time.time()
    pid = P.ID
    rid = report_as or pid
    os.makedirs(f"{ROOT}/evidence", exist_ok=True)
    os.makedirs(f"{ROOT}/replay", exist_ok=True)
    rng = random.Random(seed)
    broken = []          # reasons the proof / tie no longer checks
    notes = []
    with Lock():
        trep = translate()
        tsources = {}
        for m in P.GEN_MODULES:
            e = trep.get('modules', {}).get(m, {'error': 'not run: ' + trep.get('crash', '')})
            tsources.update(e.get('sources', {}))
            if e.get('error'):
                broken.append({'kind': 'translator', 'module': m, 'detail': e['error']})
        broken.extend(getattr(P, 'SOURCE_TIE_ERRORS', []))     # source shapes a harness module reads itself
        ok_model, log_model = make(P.MODEL_TARGETS)
        ok_proofs, log_proofs = make(P.PROOF_TARGETS)
        pa = {'ok': False, 'axioms': [], 'theorems': [], 'log': '', 'foreign_axioms': [], 'unprinted': []}
        if ok_proofs:
            pa = print_assumptions(P.PROPS_FILE)
            for extra in getattr(P, 'EXTRA_PROPS', []):          # further files of property theorems (same rules)
                pb = print_assumptions(extra)
                pa = {'ok': pa['ok'] and pb['ok'], 'log': pa['log'] if not pa['ok'] else pb['log'],
                      'axioms': sorted(set(pa['axioms']) | set(pb['axioms'])), 'closed': pa['closed'] + pb['closed'],
                      'theorems': pa['theorems'] + pb['theorems'], 'unprinted': pa['unprinted'] + pb['unprinted'],
                      'foreign_axioms': sorted(set(pa['foreign_axioms']) | set(pb['foreign_axioms']))}
            if not pa['ok']:
                broken.append({'kind': 'proof', 'detail': 'property file does not check', 'where': failing_lemma(pa['log']), 'log': pa['log'][-1500:]})
            if pa['foreign_axioms']:
                broken.append({'kind': 'axioms', 'detail': pa['foreign_axioms']})
            if pa['unprinted']:
                broken.append({'kind': 'hygiene', 'detail': 'theorems without Print Assumptions: %s' % pa['unprinted']})
        else:
            broken.append({'kind': 'proof', 'detail': 'a proof obligation no longer checks', 'where': failing_lemma(log_proofs), 'log': log_proofs[-1500:]})
        files = closure([P.PROPS_FILE] + list(getattr(P, 'EXTRA_PROPS', [])))
        bad = hygiene(files)
        if bad:
            broken.append({'kind': 'hygiene', 'detail': bad})
        n_obl, obl_names = count_obligations(files)
        # which obligations sit in files that compiled
        discharged = 0
        for f in files:
            if os.path.exists(f"{ROOT}/{f[:-2]}.vo") and os.path.getmtime(f"{ROOT}/{f[:-2]}.vo") >= os.path.getmtime(f"{ROOT}/{f}"):
                discharged += count_obligations([f])[0]

    # ---- correspondence
    if replay:
        rp = json.load(open(replay))
        cases = [rp['input']] if 'input' in rp else []
        corpus_n = 0
    else:
        corpus = P.corpus() if hasattr(P, 'corpus') else load_corpus(pid)
        cases = corpus + P.gen_cases(rng, tier)
        corpus_n = len(corpus)
        if getattr(P, 'REPEAT_REVERSED', False):
            # functions that must not depend on earlier calls: every case is evaluated a second time, later in the same driver
            # processes and in reversed order, and judged again (state surviving between calls shows as a second, different answer)
            cases = cases + [json.loads(json.dumps(c)) for c in reversed(cases)]
    outs = run_impl(P.IMPL, cases, hashseed=os.environ.get('VERIF_HASHSEED', '0'), **getattr(P, 'IMPL_KW', {}))
    driver_errors = [i for i, o in enumerate(outs) if isinstance(o, dict) and 'driver_error' in o]
    disagree, specfail = [], []
    eval_ok = False
    extra_counts = {}
    if driver_errors:
        broken.append({'kind': 'driver', 'detail': outs[driver_errors[0]]['driver_error'], 'count': len(driver_errors)})
    if ok_model and not driver_errors:
        terms = [P.to_coq(c, o) for c, o in zip(cases, outs)]
        extra_fns = tuple(getattr(P, 'EXTRA_FNS', ()))       # informational boolean functions of a case (reported, not judged)
        eval_ok, fails, elog = coq_eval_cases(pid, P.RUN_MODULE, getattr(P, 'COQ_HEADER', ''), terms,
                                              shard_size=getattr(P, 'SHARD', 300), fns=('agree', 'spec_ok') + extra_fns)
        extra_counts = {fn: len(fails.get(fn, [])) for fn in extra_fns}
        fails = {'agree': fails.get('agree', []), 'spec_ok': fails.get('spec_ok', [])}
        if not eval_ok:
            broken.append({'kind': 'model-eval', 'detail': elog[-1500:]})
        disagree, specfail = fails['agree'], fails['spec_ok']
    elif not ok_model:
        broken.append({'kind': 'model-build', 'detail': 'the executable model does not compile', 'where': failing_lemma(log_model), 'log': log_model[-1500:]})
    if hasattr(P, 'py_spec_fail'):   # optional extra search oracle evaluated on implementation outputs (never the only judge)
        extra = [i for i, (c, o) in enumerate(zip(cases, outs)) if i not in driver_errors and P.py_spec_fail(c, o)]
        specfail = sorted(set(specfail) | set(extra))
    # ---- classify failing inputs against known findings
    known = [k for k in load_known() if k['property'] == pid and k['status'] == 'known']
    violations, known_hits = [], {}
    for i in specfail:
        cls = None
        if hasattr(P, 'known_class'):
            import inspect
            if len(inspect.signature(P.known_class).parameters) >= 3:     # (case, output, does the tie hold for this case)
                cls = P.known_class(cases[i], outs[i], i not in disagree)
            else:
                cls = P.known_class(cases[i], outs[i])
        hit = next((k for k in known if cls is not None and k.get('covers') == cls), None)
        if hit:
            known_hits.setdefault(hit['id'], []).append(i)
        else:
            violations.append(i)
    # a model/implementation difference on an input that fails the specification inside a known-finding class is that finding
    excused = {i for v in known_hits.values() for i in v}
    disagree_unexcused = [i for i in disagree if i not in excused]
    if disagree_unexcused:
        broken.append({'kind': 'correspondence', 'detail': f'{len(disagree_unexcused)} of {len(cases)} cases: implementation and model differ',
                       'first': {'input': cases[disagree_unexcused[0]], 'impl': outs[disagree_unexcused[0]]}})
    lines = []
    for k in known:
        if k['id'] in known_hits:
            lines.append(f"KNOWN-FINDING: property={rid} {k['id']}: {k['what']} ({len(known_hits[k['id']])} failing inputs in class '{k.get('covers')}')")
    exit_code = 0
    replay_path = None
    if violations:
        i = violations[0]
        c, co = cases[i], outs[i]
        if hasattr(P, 'shrink_candidates') and not replay and eval_ok:
            c, co = batch_shrink(P, c, co)
        replay_path = f"{ROOT}/replay/{pid}-{chash(c)}.json"
        json.dump({'property': rid, 'module': pid.lower(), 'input': c, 'impl_output': co,
                   'failed': 'spec_ok evaluated to false on the implementation output',
                   'other_failing_inputs': len(violations) - 1, 'broken': broken}, open(replay_path, 'w'), indent=1)
        lines.append(f"VIOLATION property={rid} replay={replay_path}")
        exit_code = 1
    elif broken:
        replay_path = f"{ROOT}/replay/{pid}-unproved-{chash(broken)}.json"
        json.dump({'property': rid, 'module': pid.lower(), 'no_longer_checks': broken,
                   'searched': {'cases': len(cases), 'spec_failures_in_known_classes': sum(len(v) for v in known_hits.values())}},
                  open(replay_path, 'w'), indent=1)
        lines.append(f"VIOLATION property={rid} replay={replay_path} no-failing-input-found")
        exit_code = 1

    # ---- evidence
    nontrivial = set()
    dist = {}
    for c, o in zip(cases, outs):
        if P.nontrivial(c, o):
            nontrivial.add(chash(c))
        k = P.kind(c) if hasattr(P, 'kind') else 'case'
        dist[k] = dist.get(k, 0) + 1
    ev = {
        'property_id': pid, 'tier': tier, 'seed': seed, 'level': 'proof',
        'coverage': {
            'obligations': n_obl, 'discharged': discharged if ok_proofs and pa['ok'] else min(discharged, max(0, n_obl - 1)),
            'checker_cmd': 'make -f Makefile.coq ' + ' '.join(P.PROOF_TARGETS) + ' && coqc -Q coq QCE -Q build/Gen Gen ' + P.PROPS_FILE,
            'trusted_base': P.TRUSTED + ['Coq 8.16.1 kernel incl. vm_compute (no native_compute)',
                                         'tools/translate (Python ast -> Gallina, fail-closed)',
                                         'harness: generators, canonicaliser, impl driver ' + P.IMPL],
            'property_theorems': pa['theorems'], 'print_assumptions_axioms': pa['axioms'],
            'print_assumptions_closed': pa.get('closed', 0),
            'translator_sources_sha256': tsources,
            'evaluations': len(cases), 'distinct_nontrivial': len(nontrivial), 'rule': P.RULE,
            'samples': [P.sample(c, o) if hasattr(P, 'sample') else {'input': c, 'impl': o} for c, o in list(zip(cases, outs))[:3]],
            'distribution': dist, 'corpus_cases': corpus_n,
            'disagreements_model_vs_impl': len(disagree), 'spec_failures_on_impl': len(specfail),
            'known_findings_replayed': {k: len(v) for k, v in known_hits.items()},
            'model_evaluated_in_coq': bool(eval_ok),
            'extra_functions_false_on': extra_counts,
            'exhaustive': bool(getattr(P, 'EXHAUSTIVE', False)),
            'files_in_closure': files,
        },
        'assumptions': P.ASSUMPTIONS,
        'wall_s': round(time.time() - t0, 2),
        'violations': len(violations) + (1 if (broken and not violations) else 0),
    }
    LAST_EVIDENCE[pid] = ev
    if report_as:
        os.makedirs(f"{ROOT}/evidence/support", exist_ok=True)
        json.dump(ev, open(f"{ROOT}/evidence/support/{pid}-for-{rid}.json", 'w'), indent=1)
    else:
        json.dump(ev, open(f"{ROOT}/evidence/{pid}.json", 'w'), indent=1)
    for l in lines:
        print(l)
    if exit_code == 0:
        print(f"OK property={rid}{' supporting=' + pid if report_as else ''} tier={tier} theorems={len(pa['theorems'])} obligations={n_obl} cases={len(cases)} "
              f"nontrivial={len(nontrivial)} wall={ev['wall_s']}s")
    else:
        for b in broken:
            print("  no longer checks:", json.dumps(b)[:600])
    return exit_code
