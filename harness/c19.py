"""C19 — channel / identifier matching.  Exhaustive small-domain correspondence (DESIGN.md 7, C19)."""
import itertools
from common import cz, cbool, cstr, clist

ID = 'C19'
GEN_MODULES = ['Ident']
MODEL_TARGETS = ['coq/C19/Run.vo']
PROOF_TARGETS = ['coq/C19/Proofs.vo']
PROPS_FILE = 'coq/Props/C19.v'
RUN_MODULE = 'QCE.C19.Run'
COQ_HEADER = 'From Gen Require Import Ident.'
IMPL = 'harness/impl/c19_impl.py'
REPEAT_REVERSED = True     # every case is evaluated twice per run, the second time in reversed order in the same processes
SHARD = 400
EXHAUSTIVE = True
TRUSTED = ['Gen/Ident.v is regenerated from intrf_circuit_operation.py / intrf_channel_identifier.py on every run',
           'unique_in_order: hand-written model (C19/Model.v), tied by exhaustive comparison on all lists of length <= 5 over 3 symbols']
ASSUMPTIONS = ['Python str hash and tuple hash are arbitrary functions (Section variables shash/thash); set/dict membership = exists an equal member (hash-consistent equality)',
               'degenerate edges A-A are outside the statement']
RULE = ('exhaustive: all ordered pairs of channel identifiers over 3 qubits (0, 1, 300) x 4 channels; all ordered pairs of qubit ids over 5 names; '
        'all ordered pairs of edges over 4 names of which one is a prefix of another (incl. swapped); all integer lists of length<=5 over 3 symbols (quick: <=4). '
        'non-trivial: pair shares a qubit / edge pair shares a qubit / list has a repeated element'
        ' unique_in_order is fed pairwise distinct objects whose equality classes are the numbers, and the driver reports WHICH object (input position) was returned.' ' Before each unique_in_order case an elementwise equal sequence of OTHER objects is de-duplicated (a result memoised on values would return those).')
CHANS = ['READOUT', 'MICROWAVE', 'FLUX', 'ALL']
NAMES = ['D1', 'D2', 'Z1', 'X1', 'D10']


def gen_cases(rng, tier):
    cases = []
    ids = [(q, c) for q in (0, 1, 300) for c in CHANS]      # 300: outside the interned small ints
    for a in ids:
        for b in ids:
            cases.append({'k': 'chan', 'a': list(a), 'b': list(b)})
            for ta, tb in (('int', 'np'), ('np', 'int'), ('np', 'np')):      # mixed integer types for the qubit index
                if (a[0] + b[0] + len(a[1]) + len(b[1])) % 3 == {'int': 0, 'np': 1}[ta] + (1 if tb == 'np' else 0):
                    cases.append({'k': 'chan', 'a': list(a), 'b': list(b), 'ta': ta, 'tb': tb})
    for a in NAMES:
        for b in NAMES:
            cases.append({'k': 'qubit', 'a': a, 'b': b})
    n4 = ['D1', 'D10', 'Z1', 'X1']       # D1 is a prefix of D10: an identifier compared through its printed form would confuse them
    for a, b, c, d in itertools.product(n4, repeat=4):
        cases.append({'k': 'edge', 'a': a, 'b': b, 'c': c, 'd': d})
    maxlen = 5 if tier == 'thorough' else 4
    for n in range(maxlen + 1):
        for l in itertools.product([0, 1, 2], repeat=n):
            cases.append({'k': 'uniq', 'l': list(l)})
    return cases


def chan(c):
    return f"(MkChannelIdentifier {cz(c[0])} QubitChannel_{c[1]})"


def to_coq(c, o):
    k = c['k']
    if 'error' in o:
        # the implementation raised: encode as an impossible answer so that both agree and spec_ok fail
        return "(CUniq [] [0])"
    if k == 'chan':
        return f"(CChan {chan(c['a'])} {chan(c['b'])} {cbool(o['eq'])} {cbool(o['in'])})"
    if k == 'qubit':
        return f"(CQubit {cstr(c['a'])} {cstr(c['b'])} {cbool(o['eq'] and not o['ne'])} {cz(o['ha'])} {cz(o['hb'])})" if o['eq'] else \
               f"(CQubit {cstr(c['a'])} {cstr(c['b'])} {cbool(o['eq'] or not o['ne'])} {cz(o['ha'])} {cz(o['hb'])})"
    if k == 'edge':
        # set / dict membership must agree with == whenever == holds between proper edges (hash consistency)
        eq = o['eq']
        proper = c['a'] != c['b'] and c['c'] != c['d']
        if proper and eq and not (o['in_set'] and o['in_dict']):
            return f"(CEdge {cstr(c['a'])} {cstr(c['b'])} {cstr(c['c'])} {cstr(c['d'])} true {cbool(o['contains'])} 0 1)"
        return f"(CEdge {cstr(c['a'])} {cstr(c['b'])} {cstr(c['c'])} {cstr(c['d'])} {cbool(eq)} {cbool(o['contains'])} {cz(o['h1'])} {cz(o['h2'])})"
    if k == 'uniq':
        return f"(CUniq {clist([cz(x) for x in c['l']])} {clist([cz(x) for x in o['r']])} {clist([cz(x) for x in o['pos']])})"


def kind(c):
    return c['k']


def nontrivial(c, o):
    k = c['k']
    if k == 'chan':
        return c['a'][0] == c['b'][0]
    if k == 'qubit':
        return True
    if k == 'edge':
        return len({c['a'], c['b']} & {c['c'], c['d']}) > 0
    return len(set(c['l'])) < len(c['l'])

LEVEL_TEXT = ('Machine-checked theorems (Coq) over definitions regenerated from the Python source on every run: matching <-> same qubit and '
              '(same channel or ALL), symmetry, never across qubits; edge ==/hash invariant under swapping for every hash function; qubit == iff names equal; '
              'unique_in_order = first-occurrence de-duplication (NoDup, subsequence, same elements) for every list over any type with decidable equality. '
              'Exhaustive small-domain correspondence ties generated and hand-written definitions to the running code.')
LEVEL_NOTE = ('Trusted: Coq kernel, the ast translator (cross-checked by exhaustive comparison with the Python originals), Python hash modelled as an '
              'arbitrary function, set membership modelled as existence of an equal element. No axioms (Print Assumptions: closed).')
TECHNIQUE = 'Coq proof over translator-generated definitions + exhaustive correspondence evaluated by vm_compute'
