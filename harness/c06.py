"""C06 — apply_modifiers unrolls n back-to-back copies, once (DESIGN.md 7, C06)."""
import coregen
from coregen import gen_case, gen_prog, gen_env, nontrivial as _nt, c_case
import libgen

ID = 'C06'
GEN_MODULES = ['Ident', 'Classes']
MODEL_TARGETS = ['coq/C06/Run.vo']
PROOF_TARGETS = ['coq/C06/Proofs.vo']
PROPS_FILE = 'coq/Props/C06.v'
RUN_MODULE = 'QCE.C06.Run'
COQ_HEADER = 'From Gen Require Import Ident Classes.\nFrom QCE Require Import Core.Model Core.Run Lib.Run.'
IMPL = 'harness/impl/core_impl.py'
IMPL_KW = {'shards': 12}
SHARD = 80
TRUSTED = ['Gen/Classes.v regenerated from the source on every run',
           'Core/Model.v copy / extend / repeat / apply_modifiers: hand-written, tied by this correspondence run']
ASSUMPTIONS = ['registry-provided repetition counts are resolved by the harness to their current value (the model takes a number)']
RULE = ('random build programs with raised nesting (depth <= 3) and repetition counts 1-4 at every level, plus single repeated flat blocks (for the n*T clause); '
        'observed: unrolled listing and duration, repetition counts afterwards, unrolled twice; non-trivial: contains a sub-circuit with count >= 2 and >= 2 leaves Plus ~13% structured shapes (coregen.gen_structured: parallel first blocks of unequal length under two levels of repetition with a follower of the first, a repeated block starting with a plain operation and containing a repeated block, two relation branches of unequal depth and length meeting through a barrier, a long chain beside a short operation followed by a repeated block, an early-starting operation in a doubly nested block).'
        ' Repetition counts are fixed numbers or, for every third nested block (a deterministic function of the input), provided by a shared repetition registry.' ' After apply_modifiers() every registry-provided count is raised by 2 before the counts are read and the circuit is unrolled a second time; registry durations are written only after the build.')


def gen_cases(rng, tier):
    n = 140 if tier == 'quick' else 2500
    cases = []
    for i in range(n):
        if i % 4 == 0:   # one repeated flat block
            nq = rng.randint(1, 3)
            body = gen_prog(rng, nq, 0, rng.choice([2, 4, 6]), p_rel=0.3, reg_keys=None)
            c = {'prog': [{'t': 'sub', 'reps': rng.randint(1, 4), 'body': body}], 'env': gen_env(rng), 'reg': {}}
        else:
            c = gen_case(rng, maxlen=rng.choice([3, 5, 8]), depth=3, p_sub=0.3, reps=(1, 2, 2, 3, 4))
        c['obs'] = ['plain', 'unrolled']
        cases.append(c)
    for _ in range(24 if tier == 'quick' else 400):      # rarely met shapes (coregen.gen_structured)
        c = coregen.gen_structured(rng)
        c['obs'] = ['plain', 'unrolled']
        cases.append(c)
    for c in coregen.fixed_structured():
        c['obs'] = ['plain', 'unrolled']
        cases.append(c)
    # library-built circuits: the unrolled listing of a repeated block must be the n-fold concatenation of its listing
    nlib = 24 if tier == 'quick' else 300
    for _ in range(nlib):
        c = libgen.gen_repcode(rng, max_d=3 if tier == 'quick' else 5, max_cycles=5 if tier == 'quick' else 8)
        c['obs'] = ['structure', 'plain', 'unrolled']
        cases.append(c)
    return cases


def shrink_candidates(case):
    if case.get('k'):
        if case['cycles'] > 0:
            yield dict(case, cycles=case['cycles'] - 1)
        return
    yield from coregen.shrink_candidates(case)


def to_coq(c, o):
    if c.get('k'):
        return f"(KLib {libgen.c_lcase(c, o)})"
    return f"(KCore {c_case(c, o)})"


def nontrivial(c, o):
    if c.get('k'):
        return c['cycles'] >= 3
    return coregen.max_reps(c['prog']) >= 2 and coregen.n_leaves(c['prog']) >= 2


def kind(c):
    if c.get('k'):
        return 'library:' + c['k']
    return 'single-block' if len(c['prog']) == 1 and c['prog'][0]['t'] == 'sub' else ('nested' if coregen.has_sub(c['prog']) else 'flat')


def sample(c, o):
    if c.get('k'):
        return {'library_input': c}
    return {'prog': c['prog'], 'unrolled_len': len((o.get('unrolled') or {}).get('ops', []))}


LEVEL_TEXT = "Coq theorems over copy / extend / repeat / apply_modifiers of the Core model: the unrolled leaves are a permutation of content x product of enclosing counts; every count is 1 afterwards; applying again is the identity; each copy's first operations start at the latest end over the relation leaves preceding it; a flat block of duration T whose last-ending operation is a relation leaf occupies n*T; an extension is listed after everything that precedes it, hence the unrolled listing is the concatenation of the copies (for every program, not only library circuits). Library circuits are additionally checked through their extracted relation graph."
LEVEL_NOTE = 'Trusted: Coq kernel, Core model tied by correspondence (random nested repetition programs + repetition-code circuits). Exact n-fold concatenation for nested content is proved relative to the copy; n*T is proved for flat blocks. No axioms.'
TECHNIQUE = 'Coq proof over an executable model + correspondence evaluated by vm_compute'
