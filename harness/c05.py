"""C05 — copies are faithful and independent (DESIGN.md 7, C05)."""
import coregen
import c11
from coregen import gen_case, nontrivial as _nt, c_env, c_prog, c_obs
from common import cbool

ID = 'C05'
GEN_MODULES = ['Ident', 'Classes', 'Flags']
MODEL_TARGETS = ['coq/C05/Run.vo']
PROOF_TARGETS = ['coq/C05/Proofs.vo', 'coq/C05/Keys.vo', 'coq/C05/KeysProofs.vo', 'build/Gen/Flags.vo', 'coq/C05/Dispatch.vo']
PROPS_FILE = 'coq/Props/C05.v'
RUN_MODULE = 'QCE.C05.Run'
COQ_HEADER = 'From Gen Require Import Ident Classes.\nFrom QCE Require Import Core.Model Core.Run.'
IMPL = 'harness/impl/core_impl.py'
IMPL_KW = {'shards': 12}
SHARD = 100
TRUSTED = ['Gen/Classes.v (what every class copy() transfers) regenerated from the source on every run',
           'Core/Model.v copy_op / rebuild / copy_leaf: hand-written, tied by this correspondence run']
ASSUMPTIONS = ['object identity modelled as insertion index; independence is a theorem of the functional model and an observation on the implementation']
RULE = ('random build programs over every operation class (each class appears behind predecessors of different relation depth), explicit copy, implicit copy by nesting, '
        'then extension + unrolling of one side while the other is observed; the copy of a circuit whose operations were LISTED first; copies of DERIVED circuits (unrolled / flattened / unrolled then flattened), tied to the model where its flatten is validated and judged by the specification alone elsewhere; programs with relations to a GROUP of operations (specification only); ~13% structured shapes (coregen.gen_structured); non-trivial: >= 2 leaves and (nested or explicit relation or shared qubit)' ' Independence is watched for explicit copies and for the implicit copy made by nesting through add() (as a circuit and as its raw structure), in both directions.')


def L(cls, q, **kw):
    d = {'t': 'leaf', 'cls': cls, 'q': q, 'rel': None}
    d.update(kw)
    return d


def fixed_cases():
    """targeted shapes: sub-circuits that are value-equal but for their link identity (two parallel first blocks, a later
    operation related to the first of them), parallel nested blocks inside a repeated block"""
    env = {'READOUT': 2.0, 'MICROWAVE': 1.0, 'FLUX': 1.0, 'RESET': 2.0}
    w = lambda q, d: L('Wait', [q], dur=['fixed', d], ch='ALL')
    progs = [
        [{'t': 'sub', 'reps': 1, 'body': [w(0, 1.0)]}, {'t': 'sub', 'reps': 1, 'body': [w(1, 3.0)]}, L('Rx90', [2], rel=['F', 0])],
        [{'t': 'sub', 'reps': 1, 'body': [w(0, 3.0)]}, {'t': 'sub', 'reps': 1, 'body': [w(1, 1.0)]}, L('Rx90', [2], rel=['F', 1]), L('Ry90', [3], rel=['E', 0])],
        [{'t': 'sub', 'reps': 2, 'body': [{'t': 'sub', 'reps': 1, 'body': [w(0, 1.0)]}, {'t': 'sub', 'reps': 1, 'body': [w(1, 3.0)]}, L('Rx90', [2], rel=['F', 0])]}],
        [{'t': 'sub', 'reps': 2, 'body': [w(0, 1.0)]}, {'t': 'sub', 'reps': 2, 'body': [w(1, 2.0)]}, L('CPhase', [2, 3], rel=['S', 0]), L('Rx180', [2], rel=['F', 1])],
    ]
    return [{'prog': p, 'env': env, 'reg': {'k0': 1.0, 'k1': 2.0}, 'obs': ['copy']} for p in progs]


def gen_cases(rng, tier):
    n = 160 if tier == 'quick' else 2500
    cases = fixed_cases()
    for _ in range(n):
        c = gen_case(rng, maxlen=rng.choice([3, 6, 10]))
        c['obs'] = ['copy']
        cases.append(c)
    for _ in range(24 if tier == 'quick' else 400):      # rarely met shapes (coregen.gen_structured)
        c = coregen.gen_structured(rng)
        c['obs'] = ['copy']
        cases.append(c)
    # programs with a relation to a GROUP of operations (MultiRelationLink, any relation type): specification only
    for _ in range(30 if tier == 'quick' else 400):
        c = gen_case(rng, maxlen=rng.choice([4, 6, 9]), depth=1)
        tops = [i for i, x in enumerate(c['prog']) if x['t'] == 'leaf' and x['cls'] not in coregen.NO_REL_ARG]
        for i in tops[2:]:
            if rng.random() < 0.5:
                members = sorted(rng.sample(range(i), rng.randint(1, min(3, i))))
                c['prog'][i]['rel'] = ['multi', rng.choice('FSE'), members]
        c['obs'] = ['copy']
        c['spec_only'] = True
        cases.append(c)
    # copies of DERIVED circuits (unrolled, flattened, unrolled then flattened): specification only.  Unrolled-then-flattened is skipped
    # where flatten() itself is known to be broken (C11's finding F10: a repeated block that contains a sub-circuit).
    derived = [dict(c, derive=d) for c in derived_fixed() for d in (['mods'], ['flatten'], ['mods', 'flatten'])]
    for _ in range(40 if tier == 'quick' else 600):
        c = coregen.gen_structured(rng) if rng.random() < 0.4 else gen_case(rng, maxlen=rng.choice([3, 6, 9]), p_rel=0.0, p_dangling=0.0)
        c['derive'] = rng.choice([['mods'], ['flatten'], ['mods', 'flatten'], ['mods', 'flatten']])
        derived.append(c)
    for c in derived:
        if c['derive'] == ['mods', 'flatten'] and c11.block_with_sub_repeated(c['prog']):
            c['derive'] = ['mods']
        c['obs'] = ['copy']
        # the model's flatten is validated (C11) for implicitly sequenced programs only: elsewhere the copy is judged by the specification alone
        c['spec_only'] = 'flatten' in c['derive'] and coregen.has_rel(c['prog'])
        cases.append(c)
    return cases


def derived_fixed():
    """a long chain on q0 beside a short operation on q1, then a repeated block whose two first operations sit on q0 and q1: after
    unrolling and flattening, the group the second pass refers to is no longer stored in listing-depth order"""
    env = {'READOUT': 2.0, 'MICROWAVE': 1.0, 'FLUX': 1.0, 'RESET': 2.0}
    w = lambda q, d: L('Wait', [q], dur=['fixed', d], ch='ALL')
    progs = []
    for n in (3, 6):
        progs.append([{'t': 'sub', 'reps': 1, 'body': [L('Rx180', [0]) for _ in range(n)] + [w(1, 1.0)]},
                      {'t': 'sub', 'reps': 2, 'body': [L('Rx90', [0]), w(1, 5.0)]}])
        progs.append([L('Rx180', [0]) for _ in range(n)] + [w(1, 1.0), {'t': 'sub', 'reps': 3, 'body': [L('Rx90', [0]), w(1, 5.0), L('Ry90', [2])]}])
    # F21 (fixed in c6503c2): two parallel first blocks of unequal length inside a repeated block; the unrolled circuit is copied
    progs.append([{'t': 'sub', 'reps': 1, 'body': [{'t': 'sub', 'reps': 2, 'body': [{'t': 'sub', 'reps': 1, 'body': [w(0, 5.0)]}, {'t': 'sub', 'reps': 1, 'body': [w(1, 2.0)]}, L('Rx90', [0])]}]}])
    return [{'prog': p, 'env': env, 'reg': {'k0': 1.0, 'k1': 2.0}} for p in progs]


IMPOSSIBLE = ("{| k_prog := []; k_env := mk_env 0 0 0 0 []; k_derive := 0; k_orig := Some {| o_ops := []; o_duration := 0; o_comps := [] |}; "
              "k_copy := None; k_copy_listed := None; k_nested := Some {| o_ops := []; o_duration := 0; o_comps := [] |}; k_copy_unchanged := false; k_orig_unchanged := false |}")


def to_coq(c, o):
    if c.get('spec_only'):
        if 'error' in o:
            return "(KSpecOnly None None None None false false)"
        return (f"(KSpecOnly {c_obs(o.get('orig'))} {c_obs(o.get('copy'))} {c_obs(o.get('copy_listed'))} {c_obs(o.get('nested'))} "
                f"{cbool(o.get('copy_unchanged', True))} {cbool(o.get('orig_unchanged', True))})")
    return f"(KCore {to_coq_core(c, o)})"


def to_coq_core(c, o):
    if 'error' in o:
        return IMPOSSIBLE
    env, reg_ids = c_env(c)
    prog = c_prog(c['prog'], o['leafinfo'], reg_ids, [0])
    derive = {(): 0, ('mods',): 1, ('flatten',): 2, ('mods', 'flatten'): 3}[tuple(c.get('derive', []))]
    return (f"{{| k_prog := {prog}; k_env := {env}; k_derive := {derive}; k_orig := {c_obs(o.get('orig'))}; k_copy := {c_obs(o.get('copy'))}; k_copy_listed := {c_obs(o.get('copy_listed'))}; "
            f"k_nested := {c_obs(o.get('nested'))}; k_copy_unchanged := {cbool(o.get('copy_unchanged', True))}; "
            f"k_orig_unchanged := {cbool(o.get('orig_unchanged', True))} |}}")


def nontrivial(c, o):
    return _nt(c)


def kind(c):
    return (('nested' if coregen.has_sub(c['prog']) else 'flat') + ('+rel' if coregen.has_rel(c['prog']) else '')
            + ('/derived:' + '+'.join(c['derive']) if c.get('derive') else '') + ('/structured' if c.get('shape') else '')
            + ('/spec-only' if c.get('spec_only') else ''))


def sample(c, o):
    return {'prog': c['prog'], 'copy_first_ops': (o.get('copy') or {}).get('ops', [])[:2]}


LEVEL_TEXT = 'Coq theorems: the generated class table is faithful (every copy() transfers link and init fields: vm_compute over Gen/Classes.v); for every well-formed, fully listed graph the copy is the original renumbered in listing order (copy_iso), so listing, schedule, duration and channels are identical, internal relations are re-pointed, a copy of a copy is identical; the same for a circuit nested into an empty circuit. Independence of the two object graphs is an observation of the correspondence run (mutate one side, watch the other).'
LEVEL_NOTE = 'Trusted: Coq kernel, translator (Gen/Classes.v), Core model tied by correspondence over every operation class. Graphs deeper than the 4999-level limit are outside the theorems. No axioms.'
TECHNIQUE = 'Coq proof over an executable model + correspondence evaluated by vm_compute'


def shrink_candidates(case):
    for c in coregen.shrink_candidates(case):
        if case.get('spec_only'):
            # keep only candidates whose group relations still point at existing earlier entries
            okc = True
            for i, x in enumerate(c['prog']):
                r = x.get('rel') if x['t'] == 'leaf' else None
                if r and r[0] == 'multi' and (not r[2] or max(r[2]) >= i):
                    okc = False
            if not okc:
                continue
        yield c
