"""C11 — flattening keeps the operations (DESIGN.md 7, C11)."""
import json
import coregen
from coregen import gen_case, nontrivial as _nt, c_env, c_prog, c_obs, c_oentry
from common import cbool, clist, cz
import libgen

ID = 'C11'
GEN_MODULES = ['Ident', 'Classes']
MODEL_TARGETS = ['coq/C11/Run.vo']
PROOF_TARGETS = ['coq/C11/Proofs.vo']
PROPS_FILE = 'coq/Props/C11.v'
RUN_MODULE = 'QCE.C11.Run'
COQ_HEADER = 'From Gen Require Import Ident Classes.\nFrom QCE Require Import Core.Model Core.Run Lib.Run.'
IMPL = 'harness/impl/core_impl.py'
IMPL_KW = {'shards': 12}
SHARD = 80
TRUSTED = ['Gen/Classes.v regenerated from the source on every run',
           'Core/Model.v glisting / flatten (re-insertion of the decomposed listing with the fallback branch of add_to_graph): hand-written, tied by this correspondence run']
ASSUMPTIONS = ['the property quantifies over implicitly sequenced programs: generated programs carry no explicit relations (dangling ones excepted)']
RULE = ('random implicitly sequenced build programs (no explicit relation) with nesting depth <= 3 and repetition counts 1-3; flatten() of the plain and of the unrolled circuit, '
        'twice; non-trivial: contains a sub-circuit and >= 2 leaves Plus ~13% structured shapes (coregen.gen_structured: parallel first blocks of unequal length under two levels of repetition with a follower of the first, a repeated block starting with a plain operation and containing a repeated block, two relation branches of unequal depth and length meeting through a barrier, a long chain beside a short operation followed by a repeated block, an early-starting operation in a doubly nested block).')


def gen_cases(rng, tier):
    n = 140 if tier == 'quick' else 2500
    cases = []
    for _ in range(n):
        c = gen_case(rng, maxlen=rng.choice([3, 5, 8]), depth=3, p_sub=0.3, p_rel=0.0, p_dangling=0.02)
        c['obs'] = ['flatten']
        cases.append(c)
    for _ in range(24 if tier == 'quick' else 400):      # rarely met shapes (coregen.gen_structured), implicitly sequenced ones only
        c = coregen.gen_structured(rng)
        if coregen.has_rel(c['prog']):
            continue
        c['obs'] = ['flatten']
        cases.append(c)
    # library-built circuits, modifier-applied then flattened: order, schedule, indices and Stim program must be identical
    # one long experiment: 12 cycles, whose flattened relation graph is > 200 layers deep (the nested one never is)
    cases.append({'k': 'repcode', 'desc': {'src': 'chain', 'length': 3, 'refocus': True}, 'init': [0, 1], 'cycles': 12,
                  'env': {'READOUT': 2.0, 'MICROWAVE': 1.0, 'FLUX': 1.0, 'RESET': 2.0}, 'obs': ['structure', 'unrolled', 'flat']})
    nlib = 20 if tier == 'quick' else 250
    for _ in range(nlib):
        c = libgen.gen_repcode(rng, max_d=3 if tier == 'quick' else 5, max_cycles=5 if tier == 'quick' else 8)
        if c['desc']['src'] == 'layout' and rng.random() < 0.6:
            # an explicit qubit -> channel map: distinct hardware channel numbers in arbitrary order (not ascending along the chain)
            n = len(c['desc']['involved'])
            c['desc']['index_map'] = rng.sample(range(0, 17), n)
        c['obs'] = ['structure', 'unrolled', 'flat']
        cases.append(c)
    # a description with hardware channel numbers that do not ascend along the chain (two ancillas: Z3 on 12, Z1 on 10)
    for cyc in ((0, 1, 3) if tier == 'quick' else (0, 1, 2, 3, 5)):
        cases.append({'k': 'repcode', 'desc': {'src': 'layout', 'name': 'Repetition9Code', 'involved': ['D7', 'Z3', 'D4', 'Z1', 'D5'], 'refocus': True,
                                              'index_map': [6, 12, 3, 10, 4]},
                      'init': [0, 1, 0], 'cycles': cyc, 'env': libgen.gen_env(rng), 'obs': ['structure', 'unrolled', 'flat']})
    # the other constructors the statement names: multi-round experiments and the simplified repetition-code constructor
    for kind, n in (('multi', 6 if tier == 'quick' else 60), ('simplified', 6 if tier == 'quick' else 60)):
        for _ in range(n):
            c = libgen.gen_lib_case(rng, kind, max_d=3, max_cycles=3 if tier == 'quick' else 5, env=libgen.gen_env(rng))
            if kind == 'multi':
                c['rounds'] = [min(r, 3) for r in c['rounds'][:3]]
            c['obs'] = ['structure', 'unrolled', 'flat']
            cases.append(c)
    return cases


def c_fexp(x):
    if x is None:
        return 'None'
    before = clist([c_oentry(o) for o in x['before']])
    if x.get('recursion_error'):
        return (f"(Some {{| f_before := {before}; f_after := {{| o_ops := []; o_duration := 0; o_comps := [] |}}; f_again := false; "
                f"f_ncomps := 0; f_error := true |}})")
    after = f"{{| o_ops := {clist([c_oentry(o) for o in x['ops']])}; o_duration := {cz(x['duration'])}; o_comps := [] |}}"
    return (f"(Some {{| f_before := {before}; f_after := {after}; f_again := {cbool(x['again'])}; f_ncomps := {cz(x['n_comps'])}; "
            f"f_error := false |}})")


ERR = "{| f_prog := []; f_env := mk_env 0 0 0 0 []; f_plain := Some {| f_before := []; f_after := {| o_ops := []; o_duration := 0; o_comps := [] |}; f_again := false; f_ncomps := 1; f_error := true |}; f_unrolled := None |}"


def to_coq(c, o):
    if c.get('k'):
        return f"(KLib {libgen.c_lcase(c, o)})"
    return f"(KCore {to_coq_core(c, o)})"


def to_coq_core(c, o):
    if 'error' in o:
        return ERR
    env, reg_ids = c_env(c)
    prog = c_prog(c['prog'], o['leafinfo'], reg_ids, [0])
    return f"{{| f_prog := {prog}; f_env := {env}; f_plain := {c_fexp(o.get('flat_plain'))}; f_unrolled := {c_fexp(o.get('flat_unrolled'))} |}}"


def block_with_sub_repeated(prog, outer_rep=False):
    for c in prog:
        if c['t'] == 'sub':
            if (c['reps'] >= 2 or outer_rep) and any(x['t'] == 'sub' for x in c['body']):
                return True
            if block_with_sub_repeated(c['body'], outer_rep or c['reps'] >= 2):
                return True
    return False


def struct_block_with_sub_repeated(nodes, outer_rep=False):
    """the same test on an extracted structure (harness/impl/lib_impl.py: nodes with 'op': {'reps', 'nodes'} for sub-circuits)"""
    for n in nodes:
        op = n['op']
        if 'nodes' in op:
            rep = op.get('reps', 1) >= 2 or outer_rep
            if rep and any('nodes' in m['op'] for m in op['nodes']):
                return True
            if struct_block_with_sub_repeated(op['nodes'], rep):
                return True
    return False


def _keys(ops):
    return sorted(json.dumps([e['cls'], e['ch'], e['d'], e.get('tag')]) for e in ops)


def fexp_ok_py(x):
    """Python mirror of C11.Run.fexp_ok, used ONLY to scope the known-finding class (never to pass a case)."""
    if x is None:
        return True
    if x.get('recursion_error'):
        return False
    return _keys(x['before']) == _keys(x['ops']) and x['n_comps'] == 0 and x['again']


F10_CLASS = 'flatten() after apply_modifiers() of a repeated block (count >= 2) that contains a sub-circuit'


def f10_symptom(x):
    """what F10 does to a flattened circuit: RecursionError, or the right operations (same multiset, no sub-circuit left) in a changed
    order / schedule or changing again on a second flatten.  A lost or extra operation, or a remaining sub-circuit, is not F10."""
    if x is None:
        return False
    if x.get('recursion_error'):
        return True
    return _keys(x['before']) == _keys(x['ops']) and x['n_comps'] == 0


def f10_symptom_lib(o):
    u, f = o.get('unrolled') or {}, o.get('flat') or {}
    if f.get('recursion_error'):
        return True
    if 'ops' not in u or 'ops' not in f:
        return False
    return _keys(u['ops']) == _keys(f['ops']) and f.get('n_comps', 0) == 0


def known_class(c, o):
    """F10: after unrolling, the chained copies carry multi-links whose reference group contains a sub-circuit; flatten()
    re-inserts only the leaf operations, the links keep consulting the vanished nested graphs: RecursionError (cyclic
    relations) or a listing that a second flatten() changes.  The class excuses only the unrolled half of a case."""
    if 'error' in o:
        return None
    if c.get('k'):
        # library circuits: the same class, read off the structure the constructor really built (a repeated block holding a
        # sub-circuit: the simplified repetition-code constructor with >= 2 cycles)
        return F10_CLASS if (c['k'] == 'simplified' and struct_block_with_sub_repeated(o.get('structure', [])) and f10_symptom_lib(o)) else None
    if (block_with_sub_repeated(c['prog']) and fexp_ok_py(o.get('flat_plain')) and not fexp_ok_py(o.get('flat_unrolled'))
            and f10_symptom(o.get('flat_unrolled'))):
        return F10_CLASS
    return None


def nontrivial(c, o):
    if c.get('k'):
        return c.get('cycles', max(c.get('rounds', [0]) or [0])) >= 2
    return coregen.has_sub(c['prog']) and coregen.n_leaves(c['prog']) >= 2


def kind(c):
    if c.get('k'):
        return 'library:' + c['k']
    return 'repeated' if coregen.max_reps(c['prog']) >= 2 else ('nested' if coregen.has_sub(c['prog']) else 'flat')


def sample(c, o):
    if c.get('k'):
        return {'library_input': c}
    return {'prog': c['prog'], 'flat_len': len((o.get('flat_unrolled') or {}).get('ops', []))}


LEVEL_TEXT = 'Coq theorems over the model of apply_flatten_to_self (re-insertion of the decomposed listing, fallback branch included): when the model is defined the flat graph has one leaf node per listed leaf, in listing order, unchanged; no sub-circuit remains; it is well-formed; the listed multiset is unchanged; flattening a flat result again reproduces the same listing and times; the model is undefined exactly when a multi-link keeps a vanished sub-circuit among its members (finding F10, witness proved). Library circuits: order, schedule, indices and Stim normal form are compared before/after flatten on the implementation.'
LEVEL_NOTE = 'Trusted: Coq kernel, Core model tied by correspondence on implicitly sequenced nested programs and library circuits. F10 is a recorded known finding (class: flatten after unrolling a repeated block that contains a sub-circuit; among the library constructors that is the simplified repetition-code constructor with >= 2 cycles; the full and the multi-round constructors are checked and pass). No axioms.'
TECHNIQUE = 'Coq proof over an executable model + correspondence evaluated by vm_compute'


def shrink_candidates(case):
    if case.get('k'):
        if case.get('cycles', 0) > 0:
            yield dict(case, cycles=case['cycles'] - 1)
        if len(case.get('rounds', [])) > 1:
            yield dict(case, rounds=case['rounds'][:-1])
            yield dict(case, rounds=case['rounds'][1:])
        return
    yield from coregen.shrink_candidates(case)
