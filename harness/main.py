import sys, os, importlib
sys.path.insert(0, os.path.dirname(os.path.abspath(__file__)))
import common


def main():
    args = sys.argv[1:]
    pid = args[0]
    tier = os.environ.get('VERIF_TIER', 'quick')
    replay = None
    i = 1
    while i < len(args):
        if args[i] == '--tier':
            tier = args[i + 1]; i += 2
        elif args[i] == '--replay':
            replay = args[i + 1]; i += 2
        else:
            i += 1
    seed = int(os.environ.get('VERIF_SEED', '0'))
    P = importlib.import_module(pid.lower())
    if replay:
        import json
        mod = json.load(open(replay)).get('module', pid.lower())
        if mod != pid.lower():          # the replay was written by a supporting check of this property
            sys.exit(common.run_check(importlib.import_module(mod), tier, seed, replay, report_as=pid))
        sys.exit(common.run_check(P, tier, seed, replay))
    rc = common.run_check(P, tier, seed, None)
    # supporting checks (shared models that carry part of this property's "for all inputs" claim): same protocol, verdict reported
    # under this property's id, summary merged into this property's evidence
    for sid in getattr(P, 'SUPPORTING', []):
        import json
        S = importlib.import_module(sid.lower())
        rc2 = common.run_check(S, tier, seed, None, report_as=pid)
        rc = rc or rc2
        path = f"{common.ROOT}/evidence/{pid}.json"
        ev = json.load(open(path))
        sev = common.LAST_EVIDENCE[S.ID]
        cov = sev['coverage']
        ev['coverage'].setdefault('supporting_checks', {})[S.ID] = {
            k: cov.get(k) for k in ('obligations', 'discharged', 'property_theorems', 'print_assumptions_axioms', 'evaluations',
                                    'distinct_nontrivial', 'rule', 'distribution', 'disagreements_model_vs_impl', 'spec_failures_on_impl',
                                    'model_evaluated_in_coq', 'checker_cmd')} | {'violations': sev['violations'], 'wall_s': sev['wall_s'],
                                                                                'evidence_file': f"evidence/support/{S.ID}-for-{pid}.json"}
        ev['violations'] += sev['violations']
        ev['wall_s'] = round(ev['wall_s'] + sev['wall_s'], 2)
        json.dump(ev, open(path, 'w'), indent=1)
    sys.exit(rc)



def guarded():
    """Fail closed at the top level: if the harness itself crashes (an unrecognised source shape read at import, a driver format it
    cannot print, ...) the property is no longer shown to hold -- report that instead of dying without a verdict."""
    try:
        main()
    except SystemExit:
        raise
    except BaseException as e:
        import json, traceback, hashlib
        pid = sys.argv[1] if len(sys.argv) > 1 else '?'
        tb = traceback.format_exc()
        os.makedirs(f"{common.ROOT}/replay", exist_ok=True)
        path = f"{common.ROOT}/replay/{pid}-unproved-{hashlib.sha256(tb.encode()).hexdigest()[:16]}.json"
        json.dump({'property': pid, 'no_longer_checks': [{'kind': 'harness', 'detail': f'{type(e).__name__}: {e}', 'traceback': tb[-3000:]}]},
                  open(path, 'w'), indent=1)
        print(f"VIOLATION property={pid} replay={path} no-failing-input-found")
        print("  no longer checks:", json.dumps({'kind': 'harness', 'detail': f'{type(e).__name__}: {e}'})[:600])
        sys.exit(1)


guarded()
