import sys, os, importlib
sys.path.insert(0, os.path.dirname(os.path.abspath(__file__)))
import common


def main():
    args = sys.argv[1:]
    pid = args[0]
    tier = os.environ.get('VERIF_TIER', 'quick')
    replay = None
    i = 1
    while i < len(args):
        if args[i] == '--tier':
            tier = args[i + 1]; i += 2
        elif args[i] == '--replay':
            replay = args[i + 1]; i += 2
        else:
            i += 1
    seed = int(os.environ.get('VERIF_SEED', '0'))
    P = importlib.import_module(pid.lower())
    sys.exit(common.run_check(P, tier, seed, replay))


main()
