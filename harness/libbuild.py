"""LIBBUILD — the library constructors as Gallina build programs, tied to the real constructors (coq/LibBuild).

Not one of the 19 properties (not in MANIFEST): `./check LIBBUILD` runs the tie between LibBuild/Model.v
(rep_code_prog, simplified_prog, calibration_prog, multi_round_nodes) and construct_repetition_code_circuit,
..._simplified, ..._multi_round_circuit, construct_calibration_circuit, and re-checks the LibBuild theorems."""
from common import cz, cbool, cstr, clist, copt
import libgen

ID = 'LIBBUILD'
GEN_MODULES = ['Ident', 'Classes', 'Layouts']
MODEL_TARGETS = ['coq/LibBuild/Run.vo']
PROOF_TARGETS = ['coq/LibBuild/Proofs.vo', 'coq/LibBuild/Order.vo', 'coq/LibBuild/Tags.vo', 'coq/LibBuild/Counts.vo', 'coq/LibBuild/Chain.vo',
                 'coq/LibBuild/Layouts.vo', 'coq/LibBuild/Cert.vo', 'coq/LibBuild/StimBridgeProofs.vo', 'coq/LibBuild/StimBridgeCycles.vo', 'coq/LibBuild/StimBridgeLayouts.vo',
                 'coq/LibBuild/MultiRoundProofs.vo', 'coq/LibBuild/MultiRoundOrder.vo', 'coq/LibBuild/MultiRoundInst.vo', 'coq/LibBuild/MultiRoundDefined.vo',
                 'coq/LibBuild/CertCyclesProofs.vo', 'coq/LibBuild/CertCyclesChain4.vo', 'coq/LibBuild/CertCyclesLayouts.vo']
PROPS_FILE = 'coq/Props/LIBBUILD.v'
EXTRA_PROPS = ['coq/Props/LIBBUILD_stim.v', 'coq/Props/LIBBUILD_stim_layouts.v', 'coq/Props/LIBBUILD_multi.v', 'coq/Props/LIBBUILD_multi_total.v', 'coq/Props/LIBBUILD_cert.v']     # constructor program -> Core listing -> C08 exporter model = C09's rep_stim
RUN_MODULE = 'QCE.LibBuild.Run'
COQ_HEADER = ('From Gen Require Import Ident Classes Layouts.\n'
              'From QCE Require Import Core.Model Core.Run Lib.Run C09.Model LibBuild.Model.')
IMPL = 'harness/impl/lib_impl.py'
IMPL_KW = {'shards': 14}
SHARD = 8
EXTRA_FNS = ('agree_structure_only', 'agree_desc_only')
TRUSTED = ['Core/Model.v run_prog / add_node / copy_nodes (DeclarativeCircuit.add, add_sub_circuit, add_to_graph) and apply_modifiers / flatten: hand-written, '
           'tied to the implementation by C01-C06, C11 on random build programs and here on every library circuit',
           'LibBuild/Model.v: hand-written mirror of the constructors; tied by this run (node-for-node equality with the relation graph extracted from the real circuit)',
           'C09/Model.v desc_of_chain, desc_of_layout (through C17/Model.v from_connectivity and Gen/Layouts.v): tied here and in C09 by equality with the description object',
           'Gen/Classes.v (class indices, default duration strategies, channel templates) regenerated from the source on every run',
           'harness/impl/lib_impl.py records the true insertion order with a monkey-patch of add_to_graph inside the driver process']
ASSUMPTIONS = ['computational-basis initial states (ZERO / ONE); at most one state per data qubit and per ancilla (beyond that the implementation raises IndexError)',
               'descriptions: RepetitionCodeDescription.from_chain(2d-1) and from_connectivity on contiguous data-to-data sub-chains of the three shipped layouts with the default index map',
               'DetectorOperation / LogicalObservableOperation arguments (acquisition indices) are not fields of a Core leaf and are not compared (C08 / C09 compare them)',
               'leaf labels are not compared (the library has none)']
RULE = ('constructor inputs: construct_repetition_code_circuit on from_chain descriptions of distance 2..5 with EVERY cycle count 0..6 and refocusing on and off, and on EVERY '
        'contiguous data-to-data sub-chain of the three shipped layouts (82 descriptions, each with refocusing on and off; cycles 0..6 spread over them), random data states, ancilla states absent / '
        'partial / full; construct_repetition_code_circuit_simplified on chains of distance 2..4 with every cycle count 0..6 and on layout sub-chains; '
        'construct_repetition_code_multi_round_circuit on rounds lists; construct_calibration_circuit for 1..5 qubits, QUBIT and QUTRIT. Observed: the description object through its '
        'accessors, the relation graph in true insertion order, and (small inputs) the listing as constructed and after apply_modifiers(). '
        'Non-trivial: at least 2 QEC cycles (first and third sub-circuit), a rounds list with 2 entries, or a QUTRIT calibration')


def rep(kind, desc, init, anc, cycles, env, obs):
    return {'k': kind, 'desc': desc, 'init': list(init), 'anc_init': None if anc is None else list(anc), 'cycles': int(cycles), 'env': env,
            'obs': ['structure', 'desc'] + obs}


def _anc(rng, d, mode):
    return {'none': None, 'zero': [0] * (d - 1), 'random': [rng.randint(0, 1) for _ in range(d - 1)],
            'partial': [rng.randint(0, 1) for _ in range(rng.randint(0, d - 1))]}[mode]


def gen_cases(rng, tier):
    thorough = tier == 'thorough'
    cases = []
    chain = lambda d, rf: {'src': 'chain', 'length': 2 * d - 1, 'refocus': bool(rf)}
    modes = ['none', 'random', 'partial', 'zero']
    i = 0
    # (a) the full constructor on chains: every cycle count, refocusing on / off
    for d in ((2, 3, 4, 5, 6) if thorough else (2, 3, 4, 5)):
        for cycles in range(7 if not thorough else 10):
            for rf in (True, False):
                i += 1
                obs = ['plain', 'unrolled'] if (d <= 3 or (thorough and d <= 4)) and (thorough or (cycles + d + rf) % 2 == 0) else []
                cases.append(rep('repcode', chain(d, rf), [rng.randint(0, 1) for _ in range(d)], _anc(rng, d, modes[i % 4]), cycles,
                                 libgen.gen_env_wide(rng), obs))
    # (b) every contiguous sub-chain of the three shipped layouts
    j = 0
    for name in libgen.LAYOUT_CHAINS:
        for inv in libgen.sub_chains(name):
            d = (len(inv) + 1) // 2
            for rep_i in range(4 if thorough else 2):
                j += 1
                cycles = (j * 3 + rep_i) % 7
                if d >= 7 and not thorough:
                    cycles = min(cycles, 4)
                desc = {'src': 'layout', 'name': name, 'involved': inv, 'refocus': rep_i % 2 == 0}
                obs = ['plain', 'unrolled'] if d <= 3 and (thorough or j % 4 == 0) else []
                cases.append(rep('repcode', desc, [rng.randint(0, 1) for _ in range(d)], _anc(rng, d, modes[j % 4]), cycles,
                                 libgen.gen_env_wide(rng), obs))
    # (c) the simplified constructor
    for d in ((2, 3, 4, 5) if thorough else (2, 3, 4)):
        for cycles in range(7):
            for rf in ((True, False) if thorough else (bool((cycles + d) % 2),)):
                cases.append(rep('simplified', chain(d, rf), [rng.randint(0, 1) for _ in range(d)], _anc(rng, d, modes[(cycles + d) % 4]), cycles,
                                 libgen.gen_env_wide(rng), ['plain'] if d <= 3 else []))
    subs = [(n, inv) for n in libgen.LAYOUT_CHAINS for inv in libgen.sub_chains(n, 9 if thorough else 5)]
    for n, inv in (subs if thorough else subs[::4]):
        d = (len(inv) + 1) // 2
        cases.append(rep('simplified', {'src': 'layout', 'name': n, 'involved': inv, 'refocus': rng.random() < 0.7},
                         [rng.randint(0, 1) for _ in range(d)], _anc(rng, d, rng.choice(modes)), rng.randint(0, 6), libgen.gen_env_wide(rng), []))
    # (d) the multi-round experiment
    multi = [(chain(2, True), [0, 2]), (chain(2, False), [1, 3, 1]), (chain(3, True), [4]), (chain(3, True), [2, 0]), (chain(2, True), []),
             ({'src': 'layout', 'name': 'Repetition5Round4Code', 'involved': ['D3', 'Z2', 'D6', 'Z4', 'D5'], 'refocus': True}, [1, 2])]
    if thorough:
        multi += [(chain(3, False), [5, 1]), (chain(4, True), [3, 4]), (chain(2, True), [6]),
                  ({'src': 'layout', 'name': 'Repetition9Code', 'involved': ['D1', 'X1', 'D2', 'X2', 'D3'], 'refocus': True}, [4, 0, 1])]
    for desc, rounds in multi:
        d = (desc['length'] + 1) // 2 if desc['src'] == 'chain' else (len(desc['involved']) + 1) // 2
        cases.append({'k': 'multi', 'desc': desc, 'init': [rng.randint(0, 1) for _ in range(d)], 'anc_init': _anc(rng, d, rng.choice(modes)),
                      'rounds': rounds, 'env': libgen.gen_env_wide(rng), 'obs': ['structure', 'desc']})
    # (e) state calibration
    for n in range(1, 6):
        for ty in ('QUBIT', 'QUTRIT'):
            cases.append({'k': 'calib', 'n': n, 'type': ty, 'env': libgen.gen_env_wide(rng), 'obs': ['structure', 'plain']})
    return cases


def shrink_candidates(case):
    k = case['k']
    if k in ('repcode', 'simplified'):
        if case['cycles'] > 0:
            yield dict(case, cycles=case['cycles'] - 1)
            if case['cycles'] > 4:
                yield dict(case, cycles=4)
        d = case['desc']
        anc = case.get('anc_init')
        n = len(case['init'])
        if d['src'] == 'chain' and d['length'] > 3:
            yield dict(case, desc=dict(d, length=d['length'] - 2), init=case['init'][:-1], anc_init=None if anc is None else anc[:n - 2])
        if d['src'] == 'layout' and len(d['involved']) > 3:
            yield dict(case, desc=dict(d, involved=d['involved'][:-2]), init=case['init'][:-1], anc_init=None if anc is None else anc[:n - 2])
            yield dict(case, desc=dict(d, involved=d['involved'][2:]), init=case['init'][1:], anc_init=None if anc is None else anc[1:n - 1])
        if d['src'] == 'layout':
            yield dict(case, desc={'src': 'chain', 'length': 2 * n - 1, 'refocus': d['refocus']})
        if anc:
            yield dict(case, anc_init=None)
        if d['refocus']:
            yield dict(case, desc=dict(d, refocus=False))
    elif k == 'multi':
        r = case['rounds']
        if len(r) > 1:
            yield dict(case, rounds=r[:-1])
            yield dict(case, rounds=r[1:])
        for i, x in enumerate(r):
            if x > 0:
                yield dict(case, rounds=r[:i] + [x - 1] + r[i + 1:])
    elif k == 'calib':
        if case['n'] > 1:
            yield dict(case, n=case['n'] - 1)
        if case['type'] == 'QUTRIT':
            yield dict(case, type='QUBIT')


# ----------------------------------------------------------------------------------------- Coq printing
def c_pairs(l):
    return clist([f"({cz(a)}, {cz(b)})" for a, b in l])


def c_desc(d):
    """the description object as an `rdesc`; the accessor equalities the record relies on are asserted"""
    for k in ('prepare', 'measure', 'calibration'):
        assert d[k] == d['qubits'], 'RepetitionCodeDescription prepares / measures / calibrates every qubit'
    assert d['measure_data'] == d['data'] == d['rotation_data'] == d['observable']
    assert d['measure_ancilla'] == d['ancilla'] == d['rotation_ancilla'] == d['detector'] == [n[0] for n in d['neighbours']]
    assert len(d['gates']) == len(d['parks']) == len(d['active'])
    anc = set(d['ancilla'])
    for gates, act in zip(d['gates'], d['active']):        # get_active_ancilla_indices = C09.Model.active
        assert [q for e in gates for q in e if q in anc] == act
    zs = lambda l: clist([cz(x) for x in l])
    return (f"(MkDesc {zs(d['qubits'])} {zs(d['data'])} {zs(d['ancilla'])} {clist([c_pairs(g) for g in d['gates']])} "
            f"{clist([zs(p) for p in d['parks']])} {c_pairs([n[1:] for n in d['neighbours']])} {cbool(d['refocus'])})")


def c_src(desc):
    if desc['src'] == 'chain':
        return f"(SrcChain {cz(desc['length'])})"
    return f"(SrcLayout {cstr(desc['name'])} {clist([cstr(q) for q in desc['involved']])})"


def c_bools(l):
    return clist([cbool(b) for b in l])


def to_coq(c, o):
    if 'error' in o:
        return f"(MkCase KError SrcNone false None [] [] {libgen.LIB_ERR})"
    lib = libgen.c_lcase(c, o)
    if c['k'] == 'calib':
        return f"(MkCase (KCalib {cz(c['n'])} {cbool(c['type'] == 'QUTRIT')}) SrcNone false None [] [] {lib})"
    ctor = {'repcode': lambda: f"(KRep {cz(c['cycles'])})", 'simplified': lambda: f"(KSimp {cz(c['cycles'])})",
            'multi': lambda: f"(KMulti {clist([cz(r) for r in c['rounds']])})"}[c['k']]()
    return (f"(MkCase {ctor} {c_src(c['desc'])} {cbool(c['desc']['refocus'])} (Some {c_desc(o['desc'])}) {c_bools(c['init'])} "
            f"{c_bools(c.get('anc_init') or [])}\n  {lib})")


# ----------------------------------------------------------------------------------------- metadata
def kind(c):
    if c['k'] == 'calib':
        return 'calib:' + c['type']
    d = c['desc']
    return c['k'] + ':' + ('chain' if d['src'] == 'chain' else d['name'])


def nontrivial(c, o):
    if 'error' in o:
        return False
    if c['k'] in ('repcode', 'simplified'):
        return c['cycles'] >= 2
    if c['k'] == 'multi':
        return len(c['rounds']) >= 2
    return c.get('type') == 'QUTRIT'


def _count(nodes):
    return sum(_count(n['op']['nodes']) + 1 if 'nodes' in n['op'] else 1 for n in nodes)


def sample(c, o):
    return {'constructor_input': {k: v for k, v in c.items() if k != 'obs'}, 'nodes_in_extracted_structure': _count(o.get('structure', []))}


LEVEL_TEXT = ('The library constructors are Gallina functions (LibBuild/Model.v: rep_code_prog, simplified_prog, calibration_prog as Core build programs, multi_round_nodes through '
              'Core\'s apply_modifiers and flatten) and are compared NODE FOR NODE (parent pointer, relation link, operation, nested blocks with repetition counts) with the relation graph '
              'extracted from the circuit the real constructor returns, for every generated constructor input. Machine-checked (Coq) for EVERY description and cycle count: the built '
              'circuit is a well-formed forest at every level; closed formulas for the number of listed / unrolled operations and measurements; the repeated block\'s count is cycles - 3; '
              'and, under the listing-size hypothesis of C06 (every block times its count has at most 4999 entries: beyond it the documented depth limit truncates the listing), the '
              'measurement tags of every ancilla in the unrolled listing read heralded; parity^cycles (heralded; final for 0 cycles) = C13\'s block_tags, and of every data qubit '
              'heralded; final; instantiated for the chain description of every distance with explicit numeric bounds.')
LEVEL_NOTE = ('The theorems are about Core/Model.v run on the constructor programs; the tie (this run) makes the programs the constructors. spec_ok is the tag-sequence statement '
              'evaluated on the implementation\'s reported unrolled listing (where reported), without the model; (for chain descriptions also the two count formulas); for the other cases it is `true` (pseudo-property: the tie is the point). '
              ' Partial: the C10 no-overlap certificate on the constructor programs is evaluated for a finite list of small chains only '
              '(LibBuild_chain_no_overlap_partial: distance 2, 3; up to 6 cycles), not proved for all d. Not covered: detector / observable arguments. No axioms.')
TECHNIQUE = 'Gallina mirror of the constructors + node-for-node structural correspondence evaluated by vm_compute + Coq proofs over all descriptions and cycle counts'
