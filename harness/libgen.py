"""Inputs for the library constructors and Coq printers for Lib.Run.lcase (shared by the library clauses of C06, C08, C11
and by C10 / C09)."""
from common import cz, cbool, clist, cstr
import coregen
from coregen import CLS_ID, GK, RTY, TAGS, c_chan, c_oentry, t8

# chain order (data, ancilla, data, ...) of the shipped repetition layouts; derived once from the layouts' gate tables
LAYOUT_CHAINS = {
    'Repetition9Code': ['D1', 'X1', 'D2', 'X2', 'D3', 'Z2', 'D6', 'Z4', 'D5', 'Z1', 'D4', 'Z3', 'D7', 'X3', 'D8', 'X4', 'D9'],
    'Repetition9Round6Code': ['D1', 'X1', 'D2', 'X2', 'D3', 'Z2', 'D6', 'Z4', 'D5', 'Z1', 'D4', 'Z3', 'D7', 'X3', 'D8', 'X4', 'D9'],
    'Repetition5Round4Code': ['D3', 'Z2', 'D6', 'Z4', 'D5', 'Z1', 'D4', 'X3', 'D7'],
}
LIB_TAGS = {'': 0, 'a': 1, 'b': 2, 'heralded': 3, 'parity': 4, 'final': 5}
TAGS.update(LIB_TAGS)


def sub_chains(name, max_d=None):
    """every contiguous data-to-data sub-chain of a layout (as involved-qubit lists)"""
    ch = LAYOUT_CHAINS[name]
    out = []
    for a in range(0, len(ch), 2):
        for b in range(a + 2, len(ch), 2):
            if max_d is None or (b - a) // 2 + 1 <= max_d:
                out.append(ch[a:b + 1])
    return out


def gen_env(rng, positive=True):
    vals = [0.25, 0.5, 1.0, 1.0, 2.0, 2.0, 3.0, 5.0]
    return {k: rng.choice(vals) for k in ('READOUT', 'MICROWAVE', 'FLUX', 'RESET')}


def gen_desc(rng, max_d=4):
    if rng.random() < 0.5:
        d = rng.randint(2, max_d)
        return {'src': 'chain', 'length': 2 * d - 1, 'refocus': rng.random() < 0.8}, d
    name = rng.choice(list(LAYOUT_CHAINS))
    inv = rng.choice(sub_chains(name, max_d))
    return {'src': 'layout', 'name': name, 'involved': inv, 'refocus': rng.random() < 0.8}, (len(inv) + 1) // 2


def gen_repcode(rng, max_d=4, max_cycles=5):
    desc, d = gen_desc(rng, max_d)
    return {'k': 'repcode', 'desc': desc, 'init': [rng.randint(0, 1) for _ in range(d)], 'cycles': rng.randint(0, max_cycles), 'env': gen_env(rng)}


# ------------------------------------------------------------------------------------------------ Coq printing
def c_dstrat(d, reg_ids=None):
    if d[0] == 'fixed':
        return f"(DFixed {cz(d[1])})"
    if d[0] == 'global':
        return f"(DGlobal {GK[d[1]]})"
    if d[0] == 'decouple':
        return "DDecouple"
    return f"(DRegistry {cz((reg_ids or {}).get(d[1], 0))})"


def c_leaf(l, lab):
    acq = f"(Some ({cz(l['q'][0])}, {cz(TAGS[l['tag']])}))" if 'tag' in l else 'None'
    return (f"(mk_leaf {cz(lab)} {cz(CLS_ID[l['cls']])} {clist([cz(q) for q in l['q']])} QubitChannel_{l.get('ch') or 'ALL'} "
            f"{c_dstrat(l['dur'])} {acq})")


def c_link(l):
    if l is None:
        return 'LNone'
    if l[0] == 'R':
        return f"(LRel {RTY[l[1]]} {l[2]}%nat)"
    return f"(LMulti {clist([f'{m}%nat' for m in l[1]])})"


def c_nodes(nodes, counter):
    items = []
    for n in nodes:
        p = 'None' if n['p'] is None else f"(Some {n['p']}%nat)"
        if 'nodes' in n['op']:
            op = f"(OComp {cz(n['op']['reps'])} {c_nodes(n['op']['nodes'], counter)})"
        else:
            op = f"(OLeaf {c_leaf(n['op'], counter[0])})"
            counter[0] += 1
        items.append(f"(Node {p} {c_link(n['l'])} {op})")
    return clist(items)


def c_env(env):
    return f"(mk_env {cz(t8(env['READOUT']))} {cz(t8(env['MICROWAVE']))} {cz(t8(env['FLUX']))} {cz(t8(env['RESET']))} [])"


def c_acq(a):
    return clist([f"({cz(int(q))}, {clist([cz(x) for x in a[q]])})" for q in sorted(a, key=int)])


def c_str(s):
    return '"' + s.replace('"', '""') + '"%string'


def c_lobs(o):
    if o is None or 'ops' not in o:
        return 'None'
    return (f"(Some {{| lo_ops := {clist([c_oentry(x) for x in o['ops']])}; lo_duration := {cz(o['duration'])}; "
            f"lo_acq := {c_acq(o.get('acq', {}))}; lo_stim_flat := {c_str(o.get('stim_flat', ''))} |}})")


def c_sig(s):
    return clist([f"({cz(CLS_ID[c])}, {clist([c_chan(x) for x in ch])})" for c, ch in s])


LIB_ERR = ("{| lc_nodes := []; lc_env := mk_env 0 0 0 0 []; lc_plain := Some {| lo_ops := []; lo_duration := 1; lo_acq := []; lo_stim_flat := \"\"%string |}; "
           "lc_unrolled := None; lc_flat := None; lc_flat_error := true; lc_flat_ncomps := 1; lc_blocks := [{| lb_n := 1; lb_S := []; lb_U := [(0, [])] |}] |}")


def c_lcase(case, out):
    if 'error' in out:
        return LIB_ERR
    flat = out.get('flat') or {}
    blocks = clist([f"{{| lb_n := {cz(b['n'])}; lb_S := {c_sig(b['S'])}; lb_U := {c_sig(b['U'])} |}}" for b in out.get('blocks', [])])
    return (f"{{| lc_nodes := {c_nodes(out.get('structure', []), [0])}; lc_env := {c_env(case['env'])}; lc_plain := {c_lobs(out.get('plain'))}; "
            f"lc_unrolled := {c_lobs(out.get('unrolled'))}; lc_flat := {c_lobs(flat)}; lc_flat_error := {cbool(bool(flat.get('recursion_error')))}; "
            f"lc_flat_ncomps := {cz(flat.get('n_comps', 0))}; lc_blocks := {blocks} |}}")


# ------------------------------------------------------------------------------------------------ additions for C10
BIG = float(2 ** 15)


def gen_env_wide(rng):
    """positive global durations (multiples of 0.25) with the corner classes of C10: microwave > readout, all equal,
    all 0.25, 2^15, and gen_env's plain random choice"""
    keys = ('READOUT', 'MICROWAVE', 'FLUX', 'RESET')
    mode = rng.choice(['random', 'random', 'mw>ro', 'equal', 'quarter', 'big', 'quarters'])
    if mode == 'random':
        return gen_env(rng)
    if mode == 'mw>ro':
        ro = rng.choice([0.25, 0.5, 1.0, 2.0])
        return {'READOUT': ro, 'MICROWAVE': ro + rng.choice([0.25, 0.5, 1.75, 3.0]), 'FLUX': rng.choice([0.25, 1.0, 3.0]),
                'RESET': rng.choice([0.25, 1.0, 3.0])}
    if mode == 'equal':
        v = rng.choice([0.25, 0.5, 1.0, 2.0, 5.0])
        return {k: v for k in keys}
    if mode == 'quarter':
        return {k: 0.25 for k in keys}
    if mode == 'big':
        e = {k: rng.choice([0.25, 1.0, BIG, BIG + 0.25]) for k in keys}
        e[rng.choice(keys)] = BIG
        return e
    return {k: 0.25 * rng.randint(1, 40) for k in keys}


def gen_lib_case(rng, kind, max_d=4, max_cycles=5, env=None):
    """input for one of the library constructors handled by harness/impl/lib_impl.py"""
    env = env or gen_env_wide(rng)
    if kind == 'calib':
        return {'k': 'calib', 'n': rng.randint(1, max_d + 1), 'type': rng.choice(['QUBIT', 'QUTRIT']), 'env': env}
    desc, d = gen_desc(rng, max_d)
    init = [rng.randint(0, 1) for _ in range(d)]
    if kind == 'multi':
        rounds = [rng.randint(0, max_cycles) for _ in range(rng.randint(1, 3))]
        return {'k': 'multi', 'desc': desc, 'init': init, 'rounds': rounds, 'env': env}
    return {'k': kind, 'desc': desc, 'init': init, 'cycles': rng.randint(0, max_cycles), 'env': env}
