"""C09 — repetition-code circuits run the protocol: deterministic detectors, exact record (DESIGN.md 7, C09)."""
import ast
import itertools
import os
from common import cz, cbool, cstr, clist, copt, REPO
import libgen

ID = 'C09'
GEN_MODULES = ['Layouts']
MODEL_TARGETS = ['coq/C09/Run.vo']
PROOF_TARGETS = ['coq/C09/Proofs.vo']
PROPS_FILE = 'coq/Props/C09.v'
RUN_MODULE = 'QCE.C09.Run'
COQ_HEADER = 'From Gen Require Import Layouts.\nFrom QCE Require Import C09.Stim C09.Spec C09.Sem C09.Model C09.Wf.'
IMPL = 'harness/impl/c09_impl.py'
SHARD = 24
IMPL_KW = {'shards': 14}

SRC_COMPONENTS = 'src/qce_circuit/library/repetition_code/circuit_components.py'
SRC_LANGUAGE = 'src/qce_circuit/language/intrf_declarative_circuit.py'

TRUSTED = ['the product-state rules of C09/Sem.v (ten one-line facts about R, I, X, Y, Z, H, SQRT_Y, SQRT_Y_DAG, CZ, M on Pauli eigenstates) are not '
           'proved from quantum mechanics; every one is compared with Stim on every run (probe programs) and the whole semantics with Stim on '
           'every generated repetition-code circuit (record, detector parities, observable)',
           'Stim (1.x, /venv) as the executor of the exported circuit: compile_sampler, compile_detector_sampler, detector_error_model, flattened()',
           'C09/Spec.v, the protocol on bits, is written by hand from the property text (record order: chain order)',
           'C09/Model.v rep_stim / desc_of_chain are hand-written closed forms of the constructor; desc_of_layout goes through C17/Model.v '
           '(from_connectivity, C16 requires_parking) and Gen/Layouts.v (regenerated from the source on every run); all tied by the correspondence run',
           'the listing order of the operations is not re-derived: the closed form lists each constructor segment in insertion order and is compared '
           'instruction for instruction with the real export',
           'which ancilla-preparation code the source has (finding F5) is read off the source text by harness/c09.py (ast, fail-closed)']
ASSUMPTIONS = ['computational-basis initial states (ZERO / ONE) only, as the property quantifies; one state per data qubit; at most one per ancilla',
               'descriptions: RepetitionCodeDescription.from_chain(2d-1) and from_connectivity on contiguous data-to-data sub-chains of the three '
               'shipped layouts with the default index map; default global durations',
               'the order of entries inside the record is read as: heralding in chain order, per cycle the ancillas in chain order, finally the data '
               'qubits in chain order; the detector list is read as the outcome XOR the same ancilla\'s outcome two cycles earlier (alone in the '
               'first two cycles), which is what "deterministic" demands for every initial state',
               'noise-free execution: Stim without noise channels, 8 samples per circuit (64 per probe)']
RULE = ('constructor inputs: chain descriptions for distance 1..6 and EVERY contiguous data-to-data sub-chain of the three shipped layouts (6 + 82 '
        'descriptions), every computational-basis data state for d <= 3 with every cycle count 0..9 and refocusing on/off, every data state for d = 4, '
        'random states beyond; ancilla states absent (default 0) and explicit (all (data, ancilla) combinations for d = 2, 3); each input is built '
        'three times (as constructed / apply_modifiers() / apply_modifiers().flatten()) and executed by Stim; plus probe programs for every '
        'single-qubit gate word of length <= 2 and every CZ input pair. non-trivial: >= 1 QEC cycle with a non-zero data or ancilla value, or a '
        'probe that contains a basis change' ' Directly built state containers come with full or sparse (only the ONE entries) data dictionaries, so that an ancilla index need not be a data key.')
SUPPORTING = ['libbuild']      # LibStim_*: exporting the MODEL circuit of the constructor program (Core listing, C08 exporter model) yields rep_stim
LEVEL_TEXT = ('Machine-checked (Coq) for EVERY description satisfying a decidable well-formedness check, every data / ancilla state and every number '
              'of cycles: executing the closed-form export under the product-state semantics yields exactly the protocol record (heralding zeros, '
              'accumulated parities XOR prepared ancilla values, refocusing flips in every cycle but the last, final data values), the protocol\'s '
              'detector parities (0 from the third cycle on) and the observable; the program never leaves the product-state fragment and never '
              'measures an X-basis qubit; detector count (d-1)(cycles+1). Well-formedness is proved for the chain description of every distance and '
              'by computation for all 82 sub-chains of the generated layout tables. The closed form, the description models and the semantics are '
              'tied to the running code and to Stim on every generated input (instruction-for-instruction equality of the real export with the closed '
              'form in all three variants; exec = Stim\'s record / detector parities / observable), and the specification (protocol on bits, no '
              'circuit model) judges what Stim sampled from the real export.')
LEVEL_NOTE = ('Trusted: Coq kernel; the ten Clifford facts of Sem.v (cross-checked against Stim, not derived); Stim itself as executor; the '
              'hand-written closed form and protocol (tied by correspondence only, listing order taken from the implementation). The theorem is about '
              'the values actually prepared; that the requested ancilla values are the prepared ones was finding F5 (found by spec_ok, fixed in 0b48e8e). '
              'The supporting check LIBBUILD (run by this check) closes the gap between constructor and closed form inside Coq for chains d = 2, 3 and all 82 layout '
              'sub-chains, every cycle count < 2^64 + 3, and for d = 2..4 with cycles 0..6 also unrolled: exporting (C08 exporter model) the Core circuit built by the '
              'constructor program rep_code_prog (tied node for node to the real constructor) yields rep_stim up to the record targets of the annotations, and its gate part '
              'executes to the protocol record (LibStim_*). No axioms (Print Assumptions: closed).')
TECHNIQUE = ('Coq proof (induction on cycles over an executable product-state semantics, one-round parity lemma for arbitrary well-formed '
             'descriptions) + Stim-executed correspondence evaluated by vm_compute')

F5_CLASS = 'explicit ancilla initial states that differ from the data state at the same index'


# ----------------------------------------------------------------------------------------- which preparation code is in the source
def _method(tree, cls, name):
    for n in tree.body:
        if isinstance(n, ast.ClassDef) and n.name == cls:
            for m in n.body:
                if isinstance(m, ast.FunctionDef) and m.name == name:
                    return m
    raise ValueError(f'{cls}.{name} not found')


def anc_source(repo=REPO):
    """'AncFromData' | 'AncGuardedByData' | 'AncOwn' (C09/Model.v anc_source), read off the source; fail-closed."""
    comp = ast.parse(open(os.path.join(repo, SRC_COMPONENTS)).read())
    m = _method(comp, 'RepetitionCodeDescription', 'get_operations')
    comps = [n for n in ast.walk(m) if isinstance(n, ast.ListComp)]
    if len(comps) != 2:
        raise ValueError('get_operations: expected two list comprehensions')
    found = {}
    for lc in comps:
        it = lc.generators[0].iter
        if not (len(lc.generators) == 1 and isinstance(it, ast.Call) and isinstance(it.func, ast.Attribute) and it.func.attr == 'keys'
                and isinstance(it.func.value, ast.Attribute) and isinstance(it.func.value.value, ast.Name)
                and it.func.value.value.id == 'initial_state' and not lc.generators[0].ifs):
            raise ValueError('get_operations: unrecognised comprehension')
        el = lc.elt
        if not (isinstance(el, ast.Call) and isinstance(el.func, ast.Attribute) and isinstance(el.func.value, ast.Name)
                and el.func.value.id == 'initial_state'):
            raise ValueError('get_operations: unrecognised element')
        found[it.func.value.attr] = el.func.attr
    if sorted(found) != ['ancilla_initial_states', 'initial_states'] or found['initial_states'] != 'get_data_qubit_operation':
        raise ValueError(f'get_operations: unrecognised shape {found}')
    meth = found['ancilla_initial_states']
    if meth == 'get_data_qubit_operation':
        return 'AncFromData'
    if meth != 'get_ancilla_qubit_operation':
        raise ValueError(f'get_operations: ancilla states prepared with {meth}')
    lang = ast.parse(open(os.path.join(repo, SRC_LANGUAGE)).read())
    g = _method(lang, 'InitialStateContainer', 'get_ancilla_qubit_operation')
    ifs = [n for n in ast.walk(g) if isinstance(n, ast.If)]
    if len(ifs) != 1:
        raise ValueError('get_ancilla_qubit_operation: expected one guard')
    t = ifs[0].test
    if not (isinstance(t, ast.Compare) and len(t.ops) == 1 and isinstance(t.ops[0], ast.In) and isinstance(t.left, ast.Name)
            and t.left.id == 'initial_state_index' and isinstance(t.comparators[0], ast.Attribute)
            and isinstance(t.comparators[0].value, ast.Name) and t.comparators[0].value.id == 'self'):
        raise ValueError('get_ancilla_qubit_operation: unrecognised guard')
    body = ifs[0].body
    if not (len(body) == 1 and isinstance(body[0], ast.Assign) and ast.unparse(body[0].value) == 'self.ancilla_initial_states[initial_state_index]'
            and not ifs[0].orelse):
        raise ValueError('get_ancilla_qubit_operation: unrecognised guarded statement')
    which = t.comparators[0].attr
    if which == 'initial_states':
        return 'AncGuardedByData'
    if which == 'ancilla_initial_states':
        return 'AncOwn'
    raise ValueError(f'get_ancilla_qubit_operation: guard on {which}')


SOURCE_TIE_ERRORS = []         # shapes of the source this module reads itself and no longer recognises (reported as a broken tie)
try:
    ANC_SOURCE = anc_source()
except Exception as _e:        # fail closed: the check reports it (harness/common.py), it must not crash at import
    ANC_SOURCE = 'AncOwn'
    SOURCE_TIE_ERRORS.append({'kind': 'translator', 'module': 'harness/c09.py:anc_source', 'detail': f'{type(_e).__name__}: {_e}'})


# ----------------------------------------------------------------------------------------- generators
def all_descs():
    out = [({'src': 'chain', 'length': 2 * d - 1}, d) for d in range(1, 7)]
    for name in libgen.LAYOUT_CHAINS:
        for inv in libgen.sub_chains(name):
            out.append(({'src': 'layout', 'name': name, 'involved': inv}, (len(inv) + 1) // 2))
    return out


def rep(desc, refocus, init, anc, cycles):
    return {'k': 'rep', 'desc': dict(desc, refocus=bool(refocus)), 'init': list(init), 'anc_init': None if anc is None else list(anc),
            'cycles': int(cycles)}


SINGLE = ['I', 'X', 'Y', 'Z', 'H', 'SQRT_Y', 'SQRT_Y_DAG']
PREPS = {'0': [], '1': ['X 0'], '+': ['H 0'], '-': ['X 0', 'H 0']}


def probes():
    """every single-qubit gate word of length <= 2 from |0> and |1>, measured directly and after H; CZ on every input pair"""
    out = []
    for n in (0, 1, 2):
        for w in itertools.product(SINGLE, repeat=n):
            for start in ('0', '1'):
                for tail in ([], ['H 0']):
                    out.append({'k': 'probe', 'text': ['R 0'] + PREPS[start] + [f'{g} 0' for g in w] + tail + ['M 0']})
    for a in PREPS:
        for b in PREPS:
            for order in ('0 1', '1 0'):
                pre = PREPS[a] + [s.replace(' 0', ' 1') for s in PREPS[b]]
                for tail in ([], ['H 0'], ['H 1'], ['H 0', 'H 1']):
                    out.append({'k': 'probe', 'text': ['R 0 1'] + pre + [f'CZ {order}'] + tail + ['M 0 1']})
    out.append({'k': 'probe', 'text': ['R 0 1', 'X 1', 'M 1 0', 'DETECTOR rec[-1] rec[-2]', 'REPEAT 3 {', 'X 0', 'M 0', '}',
                                       'OBSERVABLE_INCLUDE(0) rec[-1] rec[-3]', 'TICK', 'SHIFT_COORDS(0, 1)']})
    return out


def states(d):
    return [list(s) for s in itertools.product([0, 1], repeat=d)]


def gen_cases(rng, tier):
    thorough = tier == 'thorough'
    cases = []
    chain = lambda d: {'src': 'chain', 'length': 2 * d - 1}
    # (a) small distances: every data state, every cycle count, refocusing on / off, ancilla states not given
    for d in (1, 2, 3):
        for x in states(d):
            for cycles in range(10):
                for rf in (True, False):
                    if thorough or d < 3 or rf or cycles in (0, 1, 2, 3, 4, 7):
                        cases.append(rep(chain(d), rf, x, None, cycles))
    # (b) d = 4: every data state; all cycle counts are visited
    for i, x in enumerate(states(4)):
        for cycles in (range(10) if thorough else [(i * 3) % 10, (i * 3 + 5) % 10]):
            cases.append(rep(chain(4), (i + cycles) % 3 != 0, x, None, cycles))
    # (c) explicit ancilla states: every (data, ancilla) combination for d = 2, 3
    for d in (2, 3):
        for i, x in enumerate(states(d)):
            for j, a in enumerate(states(d - 1)):
                for cycles in (range(10) if thorough else [(i + j) % 5, 5 + (i + 2 * j) % 5]):
                    cases.append(rep(chain(d), (i + j + cycles) % 4 != 0, x, a, cycles))
    # (d) every description: random states, cycles, refocusing; ancilla states absent / all zero / equal to the data prefix / random
    for desc, d in all_descs():
        for _ in range(4 if thorough else 1 if d >= 6 else 2):
            x = [rng.randint(0, 1) for _ in range(d)]
            mode = rng.choice(['none', 'none', 'zero', 'prefix', 'random', 'partial'])
            anc = {'none': None, 'zero': [0] * (d - 1), 'prefix': x[:d - 1], 'random': [rng.randint(0, 1) for _ in range(d - 1)],
                   'partial': [rng.randint(0, 1) for _ in range(rng.randint(0, d - 1))]}[mode]
            cases.append(rep(desc, rng.random() < 0.75, x, anc, rng.randint(0, 9)))
    # (d') the same logical states given through a DIRECTLY built InitialStateContainer: data dictionary in reversed insertion order,
    # ancilla dictionary sparse (only the ONE entries, absent = ZERO) and in reversed order
    for d in (2, 3, 4):
        for _ in range(12 if thorough else 4):
            x = [rng.randint(0, 1) for _ in range(d)]
            a = [rng.randint(0, 1) for _ in range(d - 1)]
            c = rep(chain(d), rng.random() < 0.75, x, a, rng.randint(0, 6))
            c['direct'] = True
            c['sparse_data'] = len(cases) % 2 == 0
            cases.append(c)
        # ancilla ONE at an index that is no key of the (sparse) data dictionary
        c = rep(chain(d), True, [1] + [0] * (d - 1), [0] * (d - 2) + [1], 2)
        c['direct'] = True
        c['sparse_data'] = True
        cases.append(c)
    # (e) chains d = 5, 6
    for d in (5, 6):
        for cycles in range(10):
            if thorough or cycles % 2 == d % 2:
                cases.append(rep(chain(d), rng.random() < 0.75, [rng.randint(0, 1) for _ in range(d)], None, cycles))
    return probes() + cases


def corpus():
    """F5's witness (DESIGN 8.1) runs first on every check"""
    return [rep({'src': 'chain', 'length': 5}, True, [0, 1, 0], [1, 0], 2)]


# ----------------------------------------------------------------------------------------- Coq printing
def c_bools(l):
    return clist([cbool(b) for b in l])


def c_rows(rows):
    return clist([c_bools(r) for r in rows])


def c_rinstr(i):
    name, args, ts = i
    return f"RI {cstr(name)} {clist([cz(a) for a in args])} {clist([('RQ ' if k == 'q' else 'RR ') + cz(v) for k, v in ts])}"


def c_variant(v):
    return (f"(MkVariant {clist([c_rinstr(i) for i in v['instrs']])} {c_rows(v['samples'])} {c_rows(v['dets'])} {c_rows(v['obs'])} "
            f"{cbool(v['dem_ok'])} {cz(v['nmeas'])} {cz(v['ndet'])} {cz(v['nobs'])})")


def c_pairs(l):
    return clist([f"({cz(a)}, {cz(b)})" for a, b in l])


def c_desc(d):
    for k in ('prepare', 'measure'):
        assert d[k] == d['qubits'], 'RepetitionCodeDescription prepares / measures every qubit'
    assert d['measure_data'] == d['data'] == d['rotation_data'] == d['observable']
    assert d['measure_ancilla'] == d['ancilla'] == d['detector'] == [n[0] for n in d['neighbours']]
    zs = lambda l: clist([cz(x) for x in l])
    return (f"(MkDesc {zs(d['qubits'])} {zs(d['data'])} {zs(d['ancilla'])} {clist([c_pairs(g) for g in d['gates']])} "
            f"{clist([zs(p) for p in d['parks']])} {c_pairs([n[1:] for n in d['neighbours']])} {cbool(d['refocus'])})")


def c_src(desc):
    if desc['src'] == 'chain':
        return f"(SrcChain {cz(desc['length'])})"
    return f"(SrcLayout {cstr(desc['name'])} {clist([cstr(q) for q in desc['involved']])})"


def to_coq(c, o):
    if 'error' in o:
        return 'CError'
    if c['k'] == 'probe':
        return f"(CProbe {clist([c_rinstr(i) for i in o['instrs']])} {c_rows(o['samples'])})"
    # the active-ancilla lists are derived by the model from gates and ancillas; compare them here with the accessor's answer
    anc = set(o['desc']['ancilla'])
    for gates, act in zip(o['desc']['gates'], o['desc']['active']):
        assert [q for e in gates for q in e if q in anc] == act
    return ("(CRep (MkRep " + c_src(c['desc']) + f" {cbool(c['desc']['refocus'])} {c_bools(c['init'])} "
            + copt(c['anc_init'], c_bools) + f" {cz(c['cycles'])} {ANC_SOURCE} {cbool(bool(c.get('direct')))} {c_desc(o['desc'])}\n  "
            + c_variant(o['plain']) + "\n  " + c_variant(o['unrolled']) + "\n  " + c_variant(o['flat']) + "))")


# ----------------------------------------------------------------------------------------- metadata
def known_class(c, o):
    """F5: explicitly requested ancilla values are not prepared -- the data value at the same index is.  The class is
    exactly the inputs on which that makes a difference."""
    if c.get('k') != 'rep' or not c.get('anc_init'):
        return None
    init = c['init']
    if any(a != (init[i] if i < len(init) else 0) for i, a in enumerate(c['anc_init'])):
        return F5_CLASS
    return None


def kind(c):
    if c['k'] == 'probe':
        return 'probe'
    d = c['desc']
    return ('chain' if d['src'] == 'chain' else d['name']) + (':explicit-ancilla' if c['anc_init'] is not None else '')


def nontrivial(c, o):
    if c['k'] == 'probe':
        return any(t.split()[0] in ('H', 'SQRT_Y', 'SQRT_Y_DAG', 'CZ') for t in c['text'])
    return c['cycles'] >= 1 and (any(c['init']) or any(c['anc_init'] or []))


def sample(c, o):
    if c['k'] == 'probe' or 'error' in o:
        return {'input': c, 'impl': o}
    return {'input': c, 'record': o['plain']['samples'][0], 'detectors': o['plain']['ndet'], 'instructions': len(o['plain']['instrs'])}


def shrink_candidates(case):
    if case.get('k') != 'rep':
        return
    d = len(case['init'])
    desc = case['desc']
    if case['cycles'] > 0:
        yield dict(case, cycles=case['cycles'] - 1)
        if case['cycles'] > 4:
            yield dict(case, cycles=4)
    if d > 1:                                   # drop the last / the first data qubit (and its ancilla)
        anc = case['anc_init']
        if desc['src'] == 'chain':
            nd = dict(desc, length=desc['length'] - 2)
            yield dict(case, desc=nd, init=case['init'][:-1], anc_init=None if anc is None else anc[:d - 2])
            yield dict(case, desc=nd, init=case['init'][1:], anc_init=None if anc is None else anc[1:d - 1])
        elif d > 2:
            yield dict(case, desc=dict(desc, involved=desc['involved'][:-2]), init=case['init'][:-1], anc_init=None if anc is None else anc[:d - 2])
            yield dict(case, desc=dict(desc, involved=desc['involved'][2:]), init=case['init'][1:], anc_init=None if anc is None else anc[1:d - 1])
    if desc['src'] == 'layout':                 # same distance on the plain chain
        yield dict(case, desc={'src': 'chain', 'length': 2 * d - 1, 'refocus': desc['refocus']})
    if case['anc_init'] is not None:
        yield dict(case, anc_init=None)
        for i, b in enumerate(case['anc_init']):
            if b:
                yield dict(case, anc_init=case['anc_init'][:i] + [0] + case['anc_init'][i + 1:])
    for i, b in enumerate(case['init']):
        if b:
            yield dict(case, init=case['init'][:i] + [0] + case['init'][i + 1:])
    if desc['refocus']:
        yield dict(case, desc=dict(desc, refocus=False))
