"""C16 — simultaneous two-qubit gates are accepted iff they cannot collide in frequency (DESIGN.md 7, C16)."""
import itertools
import os
import sys
import common
from common import cz, cbool, cstr, clist

sys.path.insert(0, os.path.join(common.ROOT, 'tools', 'translate'))

ID = 'C16'
GEN_MODULES = ['Layouts']
MODEL_TARGETS = ['coq/C16/Run.vo']
PROOF_TARGETS = ['coq/C16/Proofs.vo']
PROPS_FILE = 'coq/Props/C16.v'
RUN_MODULE = 'QCE.C16.Run'
COQ_HEADER = 'From Gen Require Import Layouts.\nFrom QCE Require Import C16.Spec C16.Model.'
REPEAT_REVERSED = True     # every case is evaluated twice per run, the second time in reversed order in the same processes
IMPL = 'harness/impl/c16_impl.py'
IMPL_KW = {'shards': 12}
SHARD = 32
BATCH = 10
EXHAUSTIVE = True
TRUSTED = ['Gen/Layouts.v (device tables, frequency ordering) is regenerated from connectivity_surface_code.py / '
           'intrf_connectivity_surface_code.py / repetition_code_connectivity.py on every run and compared with the runtime Surface17Layer()',
           'C16/Model.v: hand-written model of get_requires_parking / OperationConstraint / get_mutually_allowed / the sequence generator, '
           'tied by the exhaustive sweep over edge subsets',
           'C16/Spec.v: the frequency-collision reading of the property text (DESIGN.md 8.2)']
ASSUMPTIONS = ['gate sets are duplicate-free lists of device edges (in either orientation); get_mutually_allowed([g, g]) is True in the code and outside the statement',
               'max_combinations < 2^53 (float division in get_combination_size is then exact)',
               'membership in Python lists/sets/dicts = existence of an equal member under the translated __eq__']
RULE = ('exhaustive: every subset of 1..3 (thorough: 1..4) of the 24 Surface-17 edges through get_mutually_allowed, in batches of 10 per case; '
        'random larger / re-oriented subsets; get_requires_parking for all 17 qubits on accepted gate sets (all accepted singletons, sampled pairs/triples, '
        'greedy maximal accepted sets) and on some rejected ones; construct_allowed_gate_sequences + construct_operation_sequences for random duplicate-free '
        'edge lists and subgroup sizes (incl. non-dividing sizes and exceeded limits); all 9 frequency-group pairs; the runtime tables. '
        'non-trivial: a batch with a set of >=2 gates / an accepted non-empty gate set / a generator run that emits >=1 sequence / a pair of different groups / tables')

FALLBACK_EDGES = [('D1', 'Z1'), ('D1', 'X1'), ('D2', 'X1'), ('D2', 'Z1'), ('D2', 'X2'), ('D3', 'X2'), ('D3', 'Z2'), ('D4', 'Z3'),
                  ('D4', 'X3'), ('D4', 'Z1'), ('D5', 'Z1'), ('D5', 'X3'), ('D5', 'Z4'), ('D5', 'X2'), ('D6', 'X2'), ('D6', 'Z4'),
                  ('D6', 'Z2'), ('D7', 'Z3'), ('D7', 'X3'), ('D8', 'X3'), ('D8', 'X4'), ('D8', 'Z4'), ('D9', 'Z4'), ('D9', 'X4')]
FALLBACK_FREQ = dict([(f'D{i}', 'LOW') for i in (1, 2, 3, 7, 8, 9)] + [(f'D{i}', 'HIGH') for i in (4, 5, 6)]
                     + [(f'{t}{i}', 'MID') for t in 'XZ' for i in (1, 2, 3, 4)])
RANK = {'LOW': 0, 'MID': 1, 'HIGH': 2}


def tables():
    """Device tables read from the current source text (fallback: the stock Surface-17, so that the search still runs
    when the translator refuses the source)."""
    try:
        import gen_layouts
        t = gen_layouts.parse_tables(common.REPO)
        return [tuple(e) for e in t['edges']], dict(t['frequency'])
    except Exception:
        return list(FALLBACK_EDGES), dict(FALLBACK_FREQ)


# ------------------------------------------------------------------------- python mirror of C16/Spec.v (sampling + shrinking only)
class PySpec:
    def __init__(self, edges, freq):
        self.edges, self.freq = edges, freq
        self.adj = {frozenset(e) for e in edges}

    def level(self, q):
        return RANK.get(self.freq.get(q))

    def gate_level(self, e):
        a, b = self.level(e[0]), self.level(e[1])
        return None if a is None or b is None else min(a, b)

    def mover(self, e):
        a, b = self.level(e[0]), self.level(e[1])
        if a is None or b is None or a == b:
            return None
        return e[1] if a < b else e[0]

    def collide(self, e, f):
        le, lf = self.gate_level(e), self.gate_level(f)
        return le is not None and le == lf and any(frozenset((a, b)) in self.adj and a != b for a in e for b in f)

    def accept(self, ops):
        qs = [q for e in ops for q in e]
        if len(set(qs)) != len(qs):
            return False
        return not any(self.collide(e, f) for e, f in itertools.permutations(ops, 2))

    def park(self, q, ops):
        if any(q in e for e in ops):
            return False
        for e in ops:
            m = self.mover(e)
            if m is not None and frozenset((m, q)) in self.adj and m != q and self.level(q) is not None \
                    and self.level(q) == self.gate_level(e):
                return True
        return False


def batches(sets):
    return [{'k': 'allowed', 'sets': [[list(e) for e in s] for s in sets[i:i + BATCH]]} for i in range(0, len(sets), BATCH)]


def orient(rng, s):
    return [e if rng.random() < 0.5 else (e[1], e[0]) for e in s]


def greedy_accepted(rng, spec, edges):
    order = list(edges)
    rng.shuffle(order)
    cur = []
    for e in order:
        if spec.accept(cur + [e]):
            cur.append(e)
    return cur


def gen_cases(rng, tier):
    edges, freq = tables()
    spec = PySpec(edges, freq)
    thorough = tier == 'thorough'
    cases = [{'k': 'tables'}]
    for a in RANK:
        for b in RANK:
            cases.append({'k': 'freq', 'a': a, 'b': b})
    # ---- acceptance: exhaustive small subsets, table orientation
    maxk = 4 if thorough else 3
    sets = [list(c) for k in range(1, maxk + 1) for c in itertools.combinations(edges, k)]
    cases += batches(sets)
    # random larger and re-oriented subsets, permuted; and greedy maximal accepted sets with their sub-/super-sets
    extra = [[]]
    for _ in range(300 if thorough else 60):
        s = rng.sample(edges, rng.randint(2, 7))
        extra.append(orient(rng, s))
    accepted_big = []
    for _ in range(60 if thorough else 12):
        g = greedy_accepted(rng, spec, edges)
        accepted_big.append(g)
        extra.append(orient(rng, g))
        rest = [e for e in edges if e not in g]
        if rest:
            extra.append(orient(rng, g + [rng.choice(rest)]))
        if len(g) > 2:
            extra.append(orient(rng, rng.sample(g, len(g) - 1)))
    cases += batches(extra)
    # ---- parking: every qubit, on accepted sets (and a few rejected ones for the model tie)
    acc = {k: [s for s in sets if len(s) == k and spec.accept(s)] for k in (1, 2, 3)}
    rej = [s for s in sets if len(s) == 2 and not spec.accept(s)]
    park_sets = list(acc[1])
    park_sets += acc[2] if thorough else rng.sample(acc[2], min(40, len(acc[2])))
    park_sets += rng.sample(acc[3], min(300 if thorough else 40, len(acc[3])))
    park_sets += accepted_big
    park_sets += [orient(rng, s) for s in rng.sample(acc[2], min(10, len(acc[2])))]
    park_sets += rng.sample(rej, min(30 if thorough else 8, len(rej)))
    park_sets.append([])
    for s in park_sets:
        cases.append({'k': 'park', 'ops': [list(e) for e in s]})
    # ---- the sequence generator
    runs = []
    plan = [(2, 1), (2, 2), (3, 1), (3, 2), (4, 2), (4, 2), (4, 4), (5, 2), (6, 2), (6, 3), (6, 3), (6, 2), (8, 2), (8, 4), (4, 3), (3, 0)]
    if thorough:
        plan += [(n, k) for n in range(1, 9) for k in range(1, n + 1)] + [(9, 3), (9, 3), (10, 5), (10, 2), (8, 2), (8, 2), (8, 4), (6, 3)] * 2
    for n, k in plan:
        # half of the lists are drawn from a maximal accepted set (so that sequences are emitted), half uniformly
        if rng.random() < 0.6:
            pool = greedy_accepted(rng, spec, edges)
            more = [e for e in edges if e not in pool]
            rng.shuffle(more)
            pool = (pool + more)[:max(n, len(pool))]
            lst = rng.sample(pool, n) if len(pool) >= n else rng.sample(edges, n)
        else:
            lst = rng.sample(edges, n)
        runs.append({'k': 'gen', 'edges': [list(e) for e in orient(rng, lst)], 'size': k, 'max': 20000})
    runs.append({'k': 'gen', 'edges': [list(e) for e in rng.sample(edges, 6)], 'size': 2, 'max': 14})     # 15 > 14: exceeds
    runs.append({'k': 'gen', 'edges': [list(e) for e in rng.sample(edges, 6)], 'size': 2, 'max': 15})
    runs.append({'k': 'gen', 'edges': [list(e) for e in edges], 'size': 2, 'max': 20000})                  # 24 edges: far beyond the limit
    runs.append({'k': 'gen', 'edges': [list(e) for e in edges], 'size': 24, 'max': 20000})                 # one group of all edges
    runs.append({'k': 'gen', 'edges': [], 'size': 2, 'max': 20000})
    cases += runs
    return cases


# ------------------------------------------------------------------------- Coq literals
def ce(e):
    return f"({cstr(e[0])}, {cstr(e[1])})"


def cedges(s):
    return clist([ce(e) for e in s])


def cnat(n):
    return f"{int(n)}%nat"


def cgroup(g):
    return f"(MkParityGroup StabilizerType_{g['type']} {cstr(g['ancilla'])} {clist([cstr(d) for d in g['data']])})"


def to_coq(c, o):
    k = c['k']
    if not isinstance(o, dict) or 'error' in o:
        return "CError"
    if k == 'allowed':
        return f"(CAllowed {clist([cedges(s) for s in c['sets']])} {clist([cbool(b) for b in o['r']])})"
    if k == 'park':
        return f"(CPark {cedges(c['ops'])} {clist(['(%s, %s)' % (cstr(q), cbool(b)) for q, b in o['r']])})"
    if k == 'gen':
        head = f"CGen {cedges(c['edges'])} {cz(c['size'])} {cz(c['max'])}"
        if o['r'] == 'exceeds':
            return f"({head} GenExceeds [])"
        if o['r'] == 'badsize':
            return f"({head} GenError [])"
        ptr = clist([clist([clist([cnat(i) for i in sub]) for sub in g]) for g in o['pointers']])
        seqs = clist([clist([cedges(step) for step in s]) for s in o['seqs']])
        return f"({head} (GenOk {ptr}) {seqs})"
    if k == 'freq':
        return f"(CFreq FrequencyGroup_{c['a']} FrequencyGroup_{c['b']} {cbool(o['eq'])} {cbool(o['hi'])} {cbool(o['lo'])})"
    if k == 'tables':
        return ("(CTables " + clist([cstr(q) for q in o['qubits']]) + " " + cedges(o['edges']) + " "
                + clist(['(%s, FrequencyGroup_%s)' % (cstr(q), g) for q, g in o['freq']]) + " "
                + clist([cgroup(g) for g in o['gx']]) + " " + clist([cgroup(g) for g in o['gz']]) + " "
                + clist(['(%s, %s)' % (cstr(q), clist([cstr(n) for n in ns])) for q, ns in o['neigh']]) + " "
                + clist(['(%s, %s)' % (cstr(q), cedges(es)) for q, es in o['qedges']]) + ")")
    raise ValueError(k)


def kind(c):
    if c['k'] == 'allowed':
        return 'allowed(batch of %d)' % BATCH if len(c['sets']) == BATCH else 'allowed(batch)'
    return c['k']


def nontrivial(c, o):
    k = c['k']
    if not isinstance(o, dict) or 'error' in o:
        return False
    if k == 'allowed':
        return any(len(s) >= 2 for s in c['sets'])
    if k == 'park':
        return len(c['ops']) >= 1 and any(b for _, b in o['r'])
    if k == 'gen':
        return o['r'] == 'ok' and len(o['pointers']) >= 1 and len(c['edges']) >= 2
    if k == 'freq':
        return c['a'] != c['b']
    return True


def sample(c, o):
    if c['k'] == 'allowed':
        return {'input': {'k': 'allowed', 'sets': c['sets'][:3]}, 'impl': {'r': o.get('r', [])[:3] if isinstance(o, dict) else o}}
    if c['k'] == 'tables':
        return {'input': c, 'impl': {'edges': (o.get('edges') or [])[:3], 'qubits': o.get('qubits')} if isinstance(o, dict) else o}
    return {'input': c, 'impl': o}


def shrink_candidates(c):
    """Smaller cases (common.batch_shrink runs them and keeps the first that still fails spec_ok): a failing batch is split
    into its single subsets, a single subset / gate set loses one gate at a time."""
    if c['k'] == 'allowed':
        if len(c['sets']) > 1:
            for s in c['sets']:
                yield {'k': 'allowed', 'sets': [s]}
        elif c['sets'] and len(c['sets'][0]) > 1:
            s = c['sets'][0]
            for i in range(len(s)):
                yield {'k': 'allowed', 'sets': [s[:i] + s[i + 1:]]}
    elif c['k'] == 'park' and len(c['ops']) > 1:
        for i in range(len(c['ops'])):
            yield {'k': 'park', 'ops': c['ops'][:i] + c['ops'][i + 1:]}
    elif c['k'] == 'gen' and len(c['edges']) > c['size'] > 0:
        k = c['size']
        for i in range(0, len(c['edges']), k):
            yield dict(c, edges=c['edges'][:i] + c['edges'][i + k:])


LEVEL_TEXT = ('Coq theorems over the Surface-17 tables and the frequency ordering regenerated from the Python source on every run: get_mutually_allowed is a conjunction of '
              'ordered pair checks for gate lists of any length, and on all 48 x 48 oriented edge pairs the pair check equals the frequency-collision rule (vm_compute), hence '
              'acceptance = rule for every duplicate-free list of device edges of ANY size. get_requires_parking = rule for all 17 qubits and every accepted gate set, and every '
              'sequence emitted by the generator model is a permutation of the requested gates split into accepted steps of the requested size.')
LEVEL_NOTE = ('The theorems are about the hand-written model C16/Model.v, tied to the code by an exhaustive sweep (every edge subset of size <= 3, thorough <= 4, through '
              'get_mutually_allowed; every qubit for the parking question on accepted sets; generator runs) whose answers are judged by the rule of C16/Spec.v, which never '
              'mentions the model. The generator clause is proved for the model of construct_allowed_gate_sequences (exact-size partitions + filter), not for itertools/tqdm. '
              'Trusted: Coq kernel, the ast translator (tables and ordering also compared with the runtime objects). No axioms.')
TECHNIQUE = 'Coq proof (pairwise reduction + finite pair table by vm_compute + generic list lemmas) over translator-generated tables, with an exhaustive small-subset model/implementation correspondence judged in Coq'
