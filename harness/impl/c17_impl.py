import sys, os
sys.path.insert(0, os.path.dirname(os.path.abspath(__file__)))
from driver_base import main
from qce_circuit.connectivity.intrf_channel_identifier import QubitIDObj, EdgeIDObj
from qce_circuit.connectivity.connectivity_surface_code import Surface17Layer
from qce_circuit.library.repetition_code import repetition_code_connectivity as rcc
from qce_circuit.library.repetition_code.circuit_components import RepetitionCodeDescription, CompositeRepetitionCodeDescription

S = Surface17Layer()


def Q(n):
    return QubitIDObj(n)


def pair(e):
    a, b = e.qubit_ids
    return [a.id, b.id]


def group(g):
    return {'type': g.parity_type.name, 'ancilla': g.ancilla_id.id, 'data': [d.id for d in g.data_ids]}


def layers_of(seqs):
    return [{'parks': [p.identifier.id for p in l.park_operations], 'gates': [pair(o.identifier) for o in l.gate_operations]}
            for l in seqs]


def idx(x):
    if x is None:
        return None
    return [[int(a), int(b)] for a, b in x]


def observe(d):
    n = len(d.gate_sequences)
    assert n == d.gate_sequence_count
    chan = d.circuit_channel_map
    parks = [d.get_park_sequence_indices(i) for i in range(-1, n + 1)]
    return {'qubits': [q.id for q in d.qubit_ids], 'data': [q.id for q in d.data_qubit_ids],
            'ancilla': [q.id for q in d.ancilla_qubit_ids], 'layers': layers_of(d.gate_sequences),
            'gate_idx': [idx(d.get_gate_sequence_indices(i)) for i in range(-1, n + 1)],
            'park_idx': [None if p is None else [int(i) for i in p] for p in parks],
            'chan': [[int(k), v.id] for k, v in chan.items()]}


def layout(name):
    return getattr(rcc, name)()


def handle(c):
    k = c['k']
    if k == 'device':
        return {'qubits': [q.id for q in S.qubit_ids], 'edges': [pair(e) for e in S.edge_ids],
                'freq': [[q.id, S.get_frequency_group_identifier(q).id.name] for q in S._frequency_group_lookup.keys()],
                'gx': [group(g) for g in S.parity_group_x], 'gz': [group(g) for g in S.parity_group_z]}
    if k == 'layout':
        L = layout(c['name'])
        seqs = [L.get_gate_sequence_at_index(i) for i in range(L.gate_sequence_count)]
        return {'layers': layers_of(seqs), 'pz': [group(g) for g in L.parity_group_z], 'px': [group(g) for g in L.parity_group_x],
                'involved': [q.id for q in L.involved_qubit_ids], 'data': [q.id for q in L.data_qubit_ids],
                'ancilla': [q.id for q in L.ancilla_qubit_ids]}
    if k == 'derived':
        L = layout(c['name'])
        d = RepetitionCodeDescription.from_connectivity(involved_qubit_ids=[Q(q) for q in c['involved']], connectivity=L)
        return observe(d)
    if k == 'composite':
        L = layout(c['name'])
        mk = lambda inv: None if inv is None else RepetitionCodeDescription.from_connectivity(involved_qubit_ids=[Q(q) for q in inv], connectivity=L)
        base = mk(c['involved'])
        base_before = observe(base)
        d = CompositeRepetitionCodeDescription(
            _base_description=base,
            _qubit_index_map={Q(q): int(i) for q, i in c['index']},
            _connectivity=L,
            _leading_readout_description=mk(c['lead_readout']),
            _leading_gate_description=mk(c['lead_gate']),
            _exclude_gate_edge_ids=[EdgeIDObj(Q(a), Q(b)) for a, b in c['excl_e']],
            _exclude_gate_qubit_ids=[Q(q) for q in c['excl_q']],
            _only_required_parking_operations=bool(c['only']),
        )
        out = observe(d)
        # reading a derived description must not change the description it is derived from, nor a sibling, nor itself
        sibling = CompositeRepetitionCodeDescription(_base_description=base, _qubit_index_map={Q(q): int(i) for q, i in c['index']}, _connectivity=L)
        out['base_unchanged'] = bool(observe(base) == base_before and observe(d) == {k: v for k, v in out.items()}
                                     and layers_of(sibling.gate_sequences) == base_before['layers'])
        return out
    raise ValueError(k)


main(handle)
