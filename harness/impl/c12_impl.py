"""C12 implementation driver: every public getter of the index kernels for one experiment description."""
import sys, os
sys.path.insert(0, os.path.dirname(os.path.abspath(__file__)))
from driver_base import main
import numpy as np
from qce_circuit.structure.acquisition_indexing.kernel_repetition_code import RepetitionExperimentKernel, RepetitionIndexKernel
from qce_circuit.structure.acquisition_indexing.kernel_calibration import QutritCalibrationIndexKernel
from qce_circuit.structure.acquisition_indexing.intrf_stabilizer_index_kernel import StateKey
from qce_circuit.connectivity.intrf_channel_identifier import QubitIDObj

STATES = [StateKey.STATE_0, StateKey.STATE_1, StateKey.STATE_2]


def ints(x):
    """canonical nested int lists (numpy arrays / lists); every entry must be integral"""
    if isinstance(x, np.ndarray):
        x = x.tolist()
    if isinstance(x, (list, tuple)):
        return [ints(v) for v in x]
    assert x == int(x), x
    return int(x)


def mat(x, reps):
    """2-D getter result; the not-found answer np.asarray([]) is []"""
    return ints(x)


def qid(n):
    return QubitIDObj(f"Q{n}")


def estimate(c, size):
    try:
        return {'v': ints(RepetitionExperimentKernel.estimate_experiment_repetitions(
            rounds=list(c['rounds']), heralded_initialization=c['h'], qutrit_calibration_points=c['c'], dataset_size=size))}
    except Exception as e:
        return {'error': type(e).__name__}


def handle(c):
    data = [qid(n) for n in c['data']]
    anc = [qid(n) for n in c['anc']]
    if c['k'] == 'err':
        try:
            RepetitionExperimentKernel(rounds=list(c['rounds']), heralded_initialization=c['h'], qutrit_calibration_points=c['c'],
                                       involved_data_qubit_ids=data, involved_ancilla_qubit_ids=anc, experiment_repetitions=c['reps'])
            init = {'v': 0}
        except Exception as e:
            init = {'error': type(e).__name__}
        return {'init': init, 'est': estimate(c, c['size'])}
    if c['k'] == 'est':
        # the estimate clause: kernel_cycle_length of the experiment kernel built from the same description, and the estimate on
        # reps x L, reps x L + 1, reps x (cycle length without the calibration kernel) (+ 1), and the extra sizes of the case
        e = RepetitionExperimentKernel(rounds=list(c['rounds']), heralded_initialization=c['h'], qutrit_calibration_points=c['c'],
                                       involved_data_qubit_ids=data, involved_ancilla_qubit_ids=anc, experiment_repetitions=c['reps'])
        L = ints(e.kernel_cycle_length)
        rep_k = [k for k in e.indexing_kernels if isinstance(k, RepetitionIndexKernel)]
        L_rep = ints(rep_k[-1].stop_index - e.start_index + 1)      # repetition kernels only (an extra probe size)
        sizes = [c['reps'] * L, c['reps'] * L + 1, c['reps'] * L_rep, c['reps'] * L_rep + 1] + [int(s) for s in c.get('sizes', [])]
        return {'L': L, 'sizes': sizes, 'ests': [estimate(c, s) for s in sizes]}
    if c['k'] == 'big':
        # a very large experiment: only the rows of a few selected repetitions are reported (see C12/Run.v CBig)
        q = qid(c['q'])
        e = RepetitionExperimentKernel(rounds=list(c['rounds']), heralded_initialization=c['h'], qutrit_calibration_points=c['c'],
                                       involved_data_qubit_ids=data, involved_ancilla_qubit_ids=anc, experiment_repetitions=c['reps'])
        L = ints(e.kernel_cycle_length)
        arrs = [e.get_heralded_cycle_acquisition_indices(q, c['n']), e.get_stabilizer_and_projected_cycle_acquisition_indices(q, c['n']),
                e.get_projected_cycle_acquisition_indices(q, c['n'])]
        b = (2 ** 31) // L
        sel = sorted({i for i in (0, 1, c['reps'] // 2, b - 1, b, b + 1, c['reps'] - 1) if 0 <= i < c['reps']})
        return {'start': ints(e.start_index), 'stop': ints(e.stop_index), 'L': L, 'nrows': [int(len(a)) for a in arrs],
                'rows': [[i, [[int(x) for x in a[i]] for a in arrs]] for i in sel]}
    q = qid(c['q'])
    e = RepetitionExperimentKernel(rounds=list(c['rounds']), heralded_initialization=c['h'], qutrit_calibration_points=c['c'],
                                   involved_data_qubit_ids=data, involved_ancilla_qubit_ids=anc, experiment_repetitions=c['reps'])
    kernels = e.indexing_kernels
    reps_k = [k for k in kernels if isinstance(k, RepetitionIndexKernel)]
    cals = [k for k in kernels if isinstance(k, QutritCalibrationIndexKernel)]      # present iff the experiment has calibration points
    assert kernels == reps_k + cals, 'unexpected kernel order / kind'
    out = {'start': ints(e.start_index), 'stop': ints(e.stop_index), 'L': ints(e.kernel_cycle_length), 'klen': ints(e.kernel_length),
           'xreps': ints(e.experiment_repetitions)}
    out['ks'] = [{'n': ints(k.nr_repeated_parities), 'start': ints(k.start_index), 'stop': ints(k.stop_index), 'len': ints(k.kernel_length),
                  'her': ints(k.get_heralded_measurement_index(q)), 'stab': ints(k.get_ordered_stabilizer_measurement_indices(q)),
                  'fin': ints(k.get_final_measurement_index(q)), 'contains': ints(k.contains(q))} for k in reps_k]
    out['cal'] = [{'start': ints(cal.start_index), 'stop': ints(cal.stop_index), 'len': ints(cal.kernel_length),
                   'her': [ints(cal.get_heralded_state_0_measurement_index(q)), ints(cal.get_heralded_state_1_measurement_index(q)),
                           ints(cal.get_heralded_state_2_measurement_index(q))],
                   'st': [ints(cal.get_state_0_measurement_index(q)), ints(cal.get_state_1_measurement_index(q)),
                          ints(cal.get_state_2_measurement_index(q))],
                   'contains': ints(cal.contains(q))} for cal in cals]
    out['qs'] = [{'n': n, 'her': ints(e.get_heralded_cycle_acquisition_indices(q, n)),
                  'sp': ints(e.get_stabilizer_and_projected_cycle_acquisition_indices(q, n)),
                  'proj': ints(e.get_projected_cycle_acquisition_indices(q, n))} for n in c['queries']]
    out['cal_her'] = [ints(e.get_heralded_calibration_acquisition_indices(q, s)) for s in STATES]
    out['cal_proj'] = [ints(e.get_projected_calibration_acquisition_indices(q, s)) for s in STATES]
    return out


main(handle)
