import sys, os
sys.path.insert(0, os.path.dirname(os.path.abspath(__file__)))
from driver_base import main
from qce_circuit.structure.intrf_circuit_operation import ChannelIdentifier, QubitChannel
from qce_circuit.connectivity.intrf_channel_identifier import QubitIDObj, EdgeIDObj
from qce_circuit.utilities.array_manipulation import unique_in_order

CH = {c.name: c for c in QubitChannel}


class Tok:
    def __init__(self, v, i):
        self.v, self.i = v, i

    def __eq__(self, other):
        return isinstance(other, Tok) and self.v == other.v

    def __hash__(self):
        return hash(self.v)


def handle(c):
    k = c['k']
    if k == 'chan':
        # qubit indices as Python ints or as numpy integers (operations built in an np.arange loop), on either side
        import numpy as np
        mk = {'int': int, 'np': np.int64}
        a = ChannelIdentifier(_id=mk[c.get('ta', 'int')](c['a'][0]), _channel=CH[c['a'][1]])
        b = ChannelIdentifier(_id=mk[c.get('tb', 'int')](c['b'][0]), _channel=CH[c['b'][1]])
        return {'eq': bool(a == b), 'in': bool(a in [b])}
    if k == 'qubit':
        a, b = QubitIDObj(c['a']), QubitIDObj(c['b'])
        return {'eq': bool(a == b), 'ha': hash(a), 'hb': hash(b), 'ne': bool(a != b)}
    if k == 'edge':
        e = EdgeIDObj(QubitIDObj(c['a']), QubitIDObj(c['b']))
        f = EdgeIDObj(QubitIDObj(c['c']), QubitIDObj(c['d']))
        return {'eq': bool(e == f), 'contains': bool(f.contains(QubitIDObj(c['a']))), 'h1': hash(e), 'h2': hash(f),
                'in_set': bool(e in {f}), 'in_dict': bool(e in {f: 1})}
    if k == 'uniq':
        # pairwise distinct objects whose equality (and hash) is the given number: which OBJECT is returned is observed
        # (an elementwise EQUAL sequence of other objects is de-duplicated first: the answer must be made of the objects passed in)
        unique_in_order([Tok(v, 1000 + i) for i, v in enumerate(c['l'])])
        items = [Tok(v, i) for i, v in enumerate(c['l'])]
        out = unique_in_order(items)
        return {'r': [t.v for t in out], 'pos': [t.i for t in out]}
    raise ValueError(k)


main(handle)
