"""C13 implementation driver: build the multi-round repetition-code circuit, read every ancilla's (tag, acquisition index) sequence
and the RepetitionExperimentKernel getters (experiment_repetitions = 1)."""
import sys, os
sys.path.insert(0, os.path.dirname(os.path.abspath(__file__)))
from driver_base import main
import numpy as np
from qce_circuit.library.repetition_code.circuit_constructors import construct_repetition_code_multi_round_circuit
from qce_circuit.library.repetition_code.circuit_components import RepetitionCodeDescription
from qce_circuit.language import InitialStateContainer
from qce_circuit.language.intrf_declarative_circuit import InitialStateEnum
from qce_circuit.structure.intrf_acquisition_operation import IAcquisitionOperation, AcquisitionTag
from qce_circuit.structure.intrf_circuit_operation import RelationLink, MultiRelationLink
from qce_circuit.structure.acquisition_indexing.kernel_repetition_code import RepetitionExperimentKernel
from qce_circuit.structure.acquisition_indexing.intrf_stabilizer_index_kernel import StateKey

STATES = [StateKey.STATE_0, StateKey.STATE_1, StateKey.STATE_2]
TAGS = ['heralded', 'parity', 'final']


def ints(x):
    if isinstance(x, np.ndarray):
        x = x.tolist()
    if isinstance(x, (list, tuple)):
        return [ints(v) for v in x]
    assert x == int(x), x
    return int(x)


def row(x):
    """a sliced getter with one experiment repetition returns one row"""
    x = ints(x)
    assert len(x) == 1 and isinstance(x[0], list), x
    return x[0]


def clear():
    # known stale-cache defect of the memoised start times (does not affect acquisition indices); keep cases independent
    RelationLink.get_start_time.cache_clear()
    MultiRelationLink.get_start_time.cache_clear()


def handle(c):
    clear()
    try:
        states = [InitialStateEnum.ONE if b else InitialStateEnum.ZERO for b in c['state']]
        init = InitialStateContainer.from_ordered_list(states)
        desc = RepetitionCodeDescription.from_initial_state(init, qubit_refocusing=c['refocus'])
        rounds = list(c['rounds'])
        def make_kernel():
            return RepetitionExperimentKernel(rounds=rounds, heralded_initialization=True, qutrit_calibration_points=True,
                                              involved_data_qubit_ids=desc.data_qubit_ids, involved_ancilla_qubit_ids=desc.ancilla_qubit_ids,
                                              experiment_repetitions=1)
        # the two encodings are used together on ONE description object, in either order (the kernel must not disturb the description
        # the circuit is then built from, and the other way round)
        if c.get('kernel_first'):
            kernel = make_kernel()
        circuit = construct_repetition_code_multi_round_circuit(qec_cycles=rounds, description=desc, initial_state=init)
        ops = circuit.operations
        if not c.get('kernel_first'):
            kernel = make_kernel()
        out = {'data': ints(desc.data_qubit_indices), 'anc': ints(desc.ancilla_qubit_indices), 'L': ints(kernel.kernel_cycle_length),
               'n_ops': len(ops), 'obs': []}
        for qi in desc.ancilla_qubit_indices:
            qid = desc.get_element(index=qi)
            seq = [[o.acquisition_identifier.tag, ints(o.acquisition_index)] for o in ops
                   if isinstance(o, IAcquisitionOperation) and o.qubit_index == qi]
            for t, _ in seq:
                assert t in TAGS, t
            out['obs'].append({
                'q': ints(qi), 'seq': seq,
                'bytag': [ints(circuit.get_acquisition_indices(AcquisitionTag(qubit_index=qi, tag=t))) for t in TAGS],
                'her': [row(kernel.get_heralded_cycle_acquisition_indices(qid, n)) for n in rounds],
                'sp': [row(kernel.get_stabilizer_and_projected_cycle_acquisition_indices(qid, n)) for n in rounds],
                'proj': [row(kernel.get_projected_cycle_acquisition_indices(qid, n)) for n in rounds],
                'cal_her': [ints(kernel.get_heralded_calibration_acquisition_indices(qid, s)) for s in STATES],
                'cal_proj': [ints(kernel.get_projected_calibration_acquisition_indices(qid, s)) for s in STATES],
            })
        return out
    finally:
        clear()


main(handle)
