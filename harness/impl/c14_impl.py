"""C14 implementation driver: apply_noise on a Stim circuit text x library noise settings x index map.

Canonicalisation (exact, no tolerances):
 * every instruction is split into one instruction per target group (1 target; 2 for two-qubit gates; annotations whole) --
   Stim fuses adjacent equal gates on parse/append, and the driver asserts that re-appending the split pieces rebuilds the
   very same circuit (so the split form loses nothing);
 * times are read back from the library's settings objects as whole ns (asserting float(f"{n}e-9") == value);
 * probabilities are reported as float.hex; coordinates / indices as ints (asserting integrality);
 * `ptable`: get_pauli_error's closed form (quarter/half of 1 - exp(-t/T), clamped to [0,1], (0,0,0) at t == 0) evaluated
   with numpy's exp -- the function the library calls -- for t = d * 0.5, d in {0} + configured durations, (T1,T2) of the
   defaults and of every individual entry.
"""
import sys, os, dataclasses
sys.path.insert(0, os.path.dirname(os.path.abspath(__file__)))
from driver_base import main
import numpy as np
import stim
from qce_circuit.addon_stim.noise_factory_manager import apply_noise, NoiseFactoryManager
from qce_circuit.addon_stim.noise_settings_manager import (
    NoiseSettings, OperationDurationParameters, QubitNoiseModelParameters,
)
from qce_circuit.connectivity.intrf_channel_identifier import QubitIDObj

WHOLE = ('DETECTOR', 'OBSERVABLE_INCLUDE', 'SHIFT_COORDS', 'TICK', 'QUBIT_COORDS')


def ns_float(n):
    return float(f"{int(n)}e-9")


def to_ns(x):
    n = int(round(float(x) * 1e9))
    assert ns_float(n) == float(x), ('not a whole number of ns', x)
    return n


def prob_float(k):
    return float(f"{int(k)}e-4")


def target(t):
    if t.is_qubit_target and not t.is_inverted_result_target:
        return ['q', int(t.value)]
    if t.is_measurement_record_target:
        return ['rec', int(t.value)]
    raise ValueError(f"unsupported target {t}")


def split(circuit):
    """-> list of [name, targets, argkind, args] in split form; asserts that the split form rebuilds the same circuit."""
    res = []
    rebuilt = stim.Circuit()
    for ins in circuit:
        if isinstance(ins, stim.CircuitRepeatBlock):
            raise ValueError('REPEAT block in a circuit expected to be flat')
        name = ins.name
        ts = ins.targets_copy()
        ga = ins.gate_args_copy()
        if name in WHOLE:
            groups = [ts]
        else:
            w = 2 if stim.gate_data(name).is_two_qubit_gate else 1
            assert len(ts) % w == 0
            groups = [ts[i:i + w] for i in range(0, len(ts), w)]
        if name == 'PAULI_CHANNEL_1':
            assert len(ga) == 3
            kind, args = 'P', [float(a).hex() for a in ga]
        elif stim.gate_data(name).produces_measurements:
            assert len(ga) <= 1
            kind, args = ('E', [float(ga[0]).hex()]) if ga else ('N', [])
        elif ga:
            for a in ga:
                assert float(a) == int(a), ('non-integral coordinate', a)
            kind, args = 'C', [int(a) for a in ga]
        else:
            kind, args = 'N', []
        for g in groups:
            res.append([name, [target(t) for t in g], kind, args])
            rebuilt.append(stim.CircuitInstruction(name, g, ga))
    assert rebuilt == circuit, 'split form does not rebuild the circuit'
    return res


def mirror_pauli(t, t1, t2):
    if t == 0:
        return 0.0, 0.0, 0.0
    px = 0.25 * (1 - np.exp(-t / t1))
    py = px
    pz = 0.5 * (1 - np.exp(-t / t2)) - 0.25 * (1 - np.exp(-t / t1))
    cl = lambda v: min(max(v, 0.0), 1.0)
    return float(cl(px)), float(cl(py)), float(cl(pz))


def make_qp(d):
    return QubitNoiseModelParameters(t1=ns_float(d['t1']), t2=ns_float(d['t2']), assignment_error=prob_float(d['ae']),
                                     single_qubit_gate_error=prob_float(d.get('sq', 0)))


def echo_qp(p):
    return {'t1': to_ns(p.t1), 't2': to_ns(p.t2), 'ae': float(p.assignment_error).hex(), 'sq': float(p.single_qubit_gate_error).hex()}


def durations_list(d):
    return [[f.name, to_ns(getattr(d, f.name))] for f in dataclasses.fields(d)]


def make_settings(sd):
    if sd is None:
        return NoiseSettings()
    kw = {}
    if sd.get('default') is not None:
        d = sd['default']
        kw.update(default_t1=ns_float(d['t1']), default_t2=ns_float(d['t2']), default_assignment_error=prob_float(d['ae']),
                  default_single_qubit_gate_error=prob_float(d.get('sq', 0)))
    if sd.get('durations') is not None:
        kw['operation_durations'] = OperationDurationParameters(**{k: ns_float(v) for k, v in sd['durations'].items()})
    kw['individual_noise'] = {QubitIDObj(n): make_qp(p) for n, p in sd.get('individual', [])}
    return NoiseSettings(**kw)


def handle_dress(c):
    circuit = stim.Circuit(c['text'])
    s = make_settings(c['settings'])
    qmap = {int(i): QubitIDObj(n) for i, n in c['map']}
    if c.get('warm') and len(qmap) >= 1:
        keys = list(qmap)
        rotated = {k: qmap[keys[(i + 1) % len(keys)]] for i, k in enumerate(keys)}
        apply_noise(circuit, rotated, noise_settings=s)          # result discarded
    noisy = apply_noise(circuit, qmap, noise_settings=s)
    flat = circuit.flattened()
    wn = noisy.without_noise()
    dflt = s.get_default_noise_settings()
    params = [dflt] + list(s.individual_noise.values())
    durs = sorted({0.0} | {float(v) for v in s.operation_durations.duration_mapper.values()}
                  | {float(getattr(s.operation_durations, f.name)) for f in dataclasses.fields(s.operation_durations)})
    ptable, seen = [], set()
    for d in durs:
        for p in params:
            key = (to_ns(d), to_ns(p.t1), to_ns(p.t2))
            if key in seen:
                continue
            seen.add(key)
            ptable.append([key[0], key[1], key[2], [v.hex() for v in mirror_pauli(d * 0.5, float(p.t1), float(p.t2))]])
    return {
        'flat': split(flat), 'out': split(noisy), 'stripped': split(wn), 'wn_eq': bool(wn == flat),
        'ptable': ptable,
        'settings': {'default': echo_qp(dflt), 'individual': [[k.id, echo_qp(v)] for k, v in s.individual_noise.items()],
                     'durations': durations_list(s.operation_durations)},
        'map': [[int(i), q.id] for i, q in qmap.items()],
    }


def handle_tables(c):
    f = NoiseFactoryManager()._factory
    fields = [x.name for x in dataclasses.fields(OperationDurationParameters)]
    probe = OperationDurationParameters(**{n: ns_float(i + 1) for i, n in enumerate(fields)})
    dd = OperationDurationParameters()
    return {
        'lookup': [[k, v._operation_name] for k, v in f.factory_lookup.items()],
        'additives': [[a._operation_name, a._split_operation] for a in f.factory_additives],
        'mapper': [[k, to_ns(v)] for k, v in probe.duration_mapper.items()],
        'n_fields': len(fields),
        'durs': durations_list(dd), 'default_duration': to_ns(dd.default_duration),
        'ns_default': echo_qp(NoiseSettings().get_default_noise_settings()),
        'qp_default': echo_qp(QubitNoiseModelParameters()),
    }


def handle_alias(c):
    n = c['given']
    w = 0 if n in WHOLE else 2 if stim.gate_data(n).is_two_qubit_gate else 1
    return {'reported': stim.CircuitInstruction(n, list(range(w))).name}


def handle(c):
    return {'dress': handle_dress, 'tables': handle_tables, 'alias': handle_alias}[c['k']](c)


main(handle)
