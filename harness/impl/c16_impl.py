import sys, os
sys.path.insert(0, os.path.dirname(os.path.abspath(__file__)))
os.environ.setdefault('TQDM_DISABLE', '1')
from driver_base import main
from qce_circuit.connectivity.intrf_channel_identifier import QubitIDObj, EdgeIDObj, IEdgeID
from qce_circuit.connectivity.intrf_connectivity_gate_sequence import Operation, OperationType
from qce_circuit.connectivity.intrf_connectivity_surface_code import FrequencyGroup, FrequencyGroupIdentifier
from qce_circuit.connectivity.connectivity_surface_code import Surface17Layer, get_requires_parking
from qce_circuit.connectivity.mapping.gate_sequence_generator import GateSequenceGenerator
from qce_circuit.utilities.custom_exceptions import ExceedingCombinationCountException

S = Surface17Layer()
FG = {g.name: g for g in FrequencyGroup}


def mk_edge(p):
    return EdgeIDObj(QubitIDObj(p[0]), QubitIDObj(p[1]))


def edge_pair(e):
    a, b = e.qubit_ids
    return [a.id, b.id]


def group(g):
    return {'type': g.parity_type.name, 'ancilla': g.ancilla_id.id, 'data': [d.id for d in g.data_ids]}


def handle(c):
    k = c['k']
    if k == 'allowed':
        res = []
        for s in c['sets']:
            r = GateSequenceGenerator.get_mutually_allowed([Operation.type_gate(mk_edge(p)) for p in s], S)
            assert r is True or r is False or r in (0, 1)
            res.append(bool(r))
        return {'r': res}
    if k == 'park':
        edges = [mk_edge(p) for p in c['ops']]
        return {'r': [[q.id, bool(get_requires_parking(q, edges, S))] for q in S.qubit_ids]}
    if k == 'gen':
        edges = [mk_edge(p) for p in c['edges']]
        gen = GateSequenceGenerator(included_edge_ids=edges, connectivity=S)
        try:
            ident = gen.construct_allowed_gate_sequences(subgroup_size=c['size'], max_combinations=c['max'])
        except ExceedingCombinationCountException:
            return {'r': 'exceeds'}
        except (ZeroDivisionError, ValueError, RecursionError):
            if c['size'] <= 0:
                return {'r': 'badsize'}
            raise
        seqs = list(ident.construct_operation_sequences())
        assert len(seqs) == len(ident.index_pointers) == ident.length
        out = []
        for ptr, seq in zip(ident.index_pointers, seqs):
            steps = []
            for step in seq.operations:
                for o in step:
                    assert o.type == OperationType.GATE and isinstance(o.identifier, IEdgeID)
                steps.append([edge_pair(o.identifier) for o in step])
            out.append(([[int(i) for i in sub] for sub in ptr], steps))
        out.sort(key=lambda t: t[0])
        return {'r': 'ok', 'pointers': [p for p, _ in out], 'seqs': [s for _, s in out]}
    if k == 'freq':
        a, b = FrequencyGroupIdentifier(_id=FG[c['a']]), FrequencyGroupIdentifier(_id=FG[c['b']])
        return {'eq': bool(a.is_equal_to(b)), 'hi': bool(a.is_higher_than(b)), 'lo': bool(a.is_lower_than(b))}
    if k == 'tables':
        qs = S.qubit_ids
        return {'qubits': [q.id for q in qs], 'edges': [edge_pair(e) for e in S.edge_ids],
                'freq': [[q.id, S.get_frequency_group_identifier(q).id.name] for q in S._frequency_group_lookup.keys()],
                'gx': [group(g) for g in S.parity_group_x], 'gz': [group(g) for g in S.parity_group_z],
                'neigh': [[q.id, [n.id for n in S.get_neighbors(q)]] for q in qs],
                'qedges': [[q.id, [edge_pair(e) for e in S.get_edges(q)]] for q in qs]}
    raise ValueError(k)


main(handle)
