"""Implementation driver for C03: runs a HISTORY (mutations interleaved with observations) against the real library and, for
every observation, re-runs the same mutations with all EARLIER observations erased, in a fresh build."""
import sys, os, json, contextlib
sys.path.insert(0, os.path.dirname(os.path.abspath(__file__)))
from driver_base import main
import core_impl
from core_impl import Builder, observe, ticks, clear_caches, RT
from qce_circuit.language.declarative_circuit import DeclarativeCircuit
from qce_circuit.structure.intrf_circuit_operation import RelationLink
from qce_circuit.structure.registry_duration import (GlobalRegistryKey, temporary_override_get_registry_at, FixedDurationStrategy,
                                                      GlobalDurationRegistry)
from qce_circuit.structure import circuit_operations as co
from qce_circuit.addon_stim import to_stim
from qce_circuit.visualization.visualize_circuit.display_circuit import plot_circuit
import matplotlib
matplotlib.use('Agg')
import matplotlib.pyplot as plt

ORIGINAL_GET = GlobalDurationRegistry.get_registry_at


def obs_listing(c):
    ops = observe(c)
    for o in ops:
        if o['rel']:
            o['rel'].pop('multi', None)
    return {'ops': ops}


def obs_acq(c):
    out = []
    for o in c.operations:
        if hasattr(o, 'acquisition_index'):
            out.append([int(o.qubit_index), str(o.acquisition_tag), int(o.acquisition_index), int(o.circuit_level_acquisition_index)])
    return out


def run_history(case, keep_obs):
    """keep_obs: set of command positions whose observation is performed (others are erased). Returns {pos: answer}."""
    answers = {}
    overrides = []       # inner overrides entered by the history, innermost last
    with contextlib.ExitStack() as stack:
        stack.enter_context(temporary_override_get_registry_at({GlobalRegistryKey[k]: v for k, v in case['env'].items()}))
        clear_caches()
        b = Builder(case)
        b.flush_durs()          # histories change registry durations themselves, from these initial values
        c = DeclarativeCircuit()
        entries = []
        flattened = False
        try:
            for pos, cmd in enumerate(case['cmds']):
                k = cmd[0]
                if k == 'add':
                    lc = cmd[1]
                    rel = None
                    r = lc.get('rel')
                    if r is not None:
                        rel = RelationLink(co.Wait(99), RT[r[1]]) if r[0] == 'dangling' else RelationLink(entries[r[1]], RT[r[0]])
                    op = b.make_leaf(lc, rel, c)
                    entries.append(c.add(op))
                elif k == 'sub':
                    sub = b.build(cmd[2], cmd[1], top=False)
                    entries.append(c.add(sub))
                    b.flush_reps()          # registry-provided counts are written after the sub-circuit was nested
                elif k == 'grow':
                    op = b.make_leaf(cmd[2], None, c)
                    entries[cmd[1]].add(op)
                elif k == 'mods':
                    c = c.apply_modifiers()
                elif k == 'flatten':
                    c = c.flatten()
                elif k == 'setreg':
                    b.registry.set_registry_at(cmd[1], cmd[2])
                elif k == 'global':
                    cm = temporary_override_get_registry_at({GlobalRegistryKey[kk]: v for kk, v in cmd[1].items()})
                    cm.__enter__()
                    overrides.append(cm)
                elif k == 'unglobal':
                    if overrides:
                        overrides.pop().__exit__(None, None, None)
                elif k == 'obs':
                    if pos not in keep_obs:
                        continue
                    what = cmd[1]
                    if what == 'listing':
                        answers[pos] = obs_listing(c)
                    elif what == 'duration':
                        answers[pos] = {'duration': ticks(c.duration)}
                    elif what == 'acq':
                        answers[pos] = {'acq': obs_acq(c)}
                    elif what == 'stim':
                        answers[pos] = {'stim': str(to_stim(c))}
                    elif what == 'copy':
                        d = DeclarativeCircuit()
                        d._structure = c.circuit_structure.copy()
                        answers[pos] = obs_listing(d)
                    elif what == 'plot':
                        fig, ax = plot_circuit(c)
                        plt.close(fig)
                        answers[pos] = {'plotted': True}
                    else:
                        raise ValueError(what)
                else:
                    raise ValueError(k)
        finally:
            while overrides:
                overrides.pop().__exit__(None, None, None)
        b_leafinfo = b.leafinfo
    clear_caches()
    assert GlobalDurationRegistry.get_registry_at is ORIGINAL_GET
    return answers, b_leafinfo


def handle(case):
    obs_positions = [i for i, c in enumerate(case['cmds']) if c[0] == 'obs']
    full, leafinfo = run_history(case, set(obs_positions))
    out = {'leafinfo': leafinfo, 'answers': [], 'erased': []}
    for p in obs_positions:
        try:
            er, _ = run_history(case, {p})
            e = er[p]
        except RecursionError:
            e = {'error': 'RecursionError'}
        out['answers'].append(full[p])
        out['erased'].append(e)
    return out


if __name__ == '__main__':
    main(handle)
