"""C09 implementation driver: builds a repetition-code circuit with the library constructor from the case's inputs
(description, data / ancilla initial states, number of QEC cycles, refocusing flag) three times over -- as constructed,
after apply_modifiers(), after apply_modifiers().flatten() -- and reports for each what Stim makes of the export:

  instrs   stim's own flattened() instruction list (name, integer args, targets: qubit index or rec[-k])
  samples  8 noise-free samples of the measurement record   (circuit.compile_sampler().sample(8))
  dets/obs 8 samples of detection events / observable flips (compile_detector_sampler, separate_observables=True)
  dem_ok   detector_error_model() returns (it raises on a non-deterministic detector or observable)
  ndet/nobs/nmeas   stim's own counts

plus what the DESCRIPTION object says about itself (qubit order, data / ancilla / detector / observable indices, gate
layers as index pairs, the active-ancilla lists, the neighbours each detector ancilla's parity group names, the
refocusing flag), read through the same public accessors the constructor uses.  Nothing is computed here that the
check judges: the expected record is worked out inside Coq from the case's inputs."""
import sys, os
sys.path.insert(0, os.path.dirname(os.path.abspath(__file__)))
from driver_base import main
import stim
import lib_impl
from lib_impl import description, STATE, clear_caches
from qce_circuit.language.intrf_declarative_circuit import InitialStateContainer
from qce_circuit.library.repetition_code.circuit_constructors import construct_repetition_code_circuit
from qce_circuit.addon_stim import to_stim

N_SAMPLES = 8          # per repetition-code circuit; probes: 64


def num(x):
    i = int(round(x))
    assert float(i) == float(x), x
    return i


def instrs_json(c):
    out = []
    for op in c:
        assert not isinstance(op, stim.CircuitRepeatBlock), 'REPEAT block in a flattened circuit'
        ts = []
        for t in op.targets_copy():
            if t.is_measurement_record_target:
                ts.append(['r', int(t.value)])
            elif t.is_qubit_target and not t.is_inverted_result_target:
                ts.append(['q', int(t.value)])
            else:
                raise ValueError('unexpected target kind %r' % (t,))
        out.append([op.name, [num(a) for a in op.gate_args_copy()], ts])
    return out


def bits(a):
    return [[int(x) for x in row] for row in a]


def observe(circuit):
    s = to_stim(circuit)
    out = {'instrs': instrs_json(s.flattened()), 'nmeas': int(s.num_measurements), 'ndet': int(s.num_detectors),
           'nobs': int(s.num_observables), 'has_repeat': any(isinstance(op, stim.CircuitRepeatBlock) for op in s)}
    out['samples'] = bits(s.compile_sampler(seed=1).sample(N_SAMPLES))
    d, o = s.compile_detector_sampler(seed=2).sample(N_SAMPLES, separate_observables=True)
    out['dets'], out['obs'] = bits(d), bits(o)
    try:
        s.detector_error_model()
        out['dem_ok'] = True
    except ValueError:
        out['dem_ok'] = False
    return out


def describe(desc):
    """the description as the constructor reads it (public accessors only)"""
    nseq = desc.gate_sequence_count
    nb = []
    for a in desc.detector_qubit_indices:
        g = desc.get_parity_group(element=desc.get_element(index=a))[0]
        nb.append([a] + [desc.get_index(q) for q in g.data_ids])
    return {
        'qubits': [int(i) for i in desc.qubit_indices],
        'prepare': [int(i) for i in desc.prepare_qubit_indices],
        'measure': [int(i) for i in desc.measure_qubit_indices],
        'data': [int(i) for i in desc.data_qubit_indices],
        'ancilla': [int(i) for i in desc.ancilla_qubit_indices],
        'measure_data': [int(i) for i in desc.measure_data_qubit_indices],
        'measure_ancilla': [int(i) for i in desc.measure_ancilla_qubit_indices],
        'rotation_data': [int(i) for i in desc.rotation_data_qubit_indices],
        'detector': [int(i) for i in desc.detector_qubit_indices],
        'observable': [int(i) for i in desc.observable_qubit_indices],
        'gates': [[[int(a), int(b)] for a, b in desc.get_gate_sequence_indices(i)] for i in range(nseq)],
        'active': [[int(a) for a in desc.get_active_ancilla_indices(i)] for i in range(nseq)],
        'parks': [[int(a) for a in desc.get_park_sequence_indices(i)] for i in range(nseq)],
        'neighbours': nb,
        'refocus': bool(desc.contains_qubit_refocusing),
    }


def construct(case):
    desc = description(case['desc'])
    anc = case.get('anc_init')
    if case.get('direct'):
        # the same logical state through a directly built container: data dictionary in reversed insertion order, ancilla dictionary
        # sparse (only the non-ZERO entries; an absent key means ZERO) and in reversed order
        data = {i: STATE[b] for i, b in reversed(list(enumerate(case['init']))) if b or not case.get('sparse_data')}
        # (sparse_data: the data dictionary too lists only the non-ZERO entries -- an ancilla index need not be a data key)
        ancd = {i: STATE[b] for i, b in reversed(list(enumerate(anc or []))) if b}
        init = InitialStateContainer(initial_states=data, ancilla_initial_states=ancd)
    else:
        init = InitialStateContainer.from_ordered_list([STATE[b] for b in case['init']],
                                                       [STATE[b] for b in anc] if anc is not None else None)
    return construct_repetition_code_circuit(qec_cycles=case['cycles'], description=desc, initial_state=init), desc


def probe(case):
    s = stim.Circuit('\n'.join(case['text']))
    return {'instrs': instrs_json(s.flattened()), 'samples': bits(s.compile_sampler(seed=3).sample(64))}


def handle(case):
    if case['k'] == 'probe':
        return probe(case)
    clear_caches()
    lib_impl.ORDER.clear()
    c, desc = construct(case)
    out = {'desc': describe(desc)}
    out['plain'] = observe(c)
    clear_caches()
    c2, _ = construct(case)                    # built again: nothing is shared with the first circuit
    u = c2.apply_modifiers()
    out['unrolled'] = observe(u)
    clear_caches()
    c3, _ = construct(case)
    f = c3.apply_modifiers().flatten()
    out['flat'] = observe(f)
    out['flat']['n_comps'] = len(f.composite_operations)
    clear_caches()
    lib_impl.ORDER.clear()
    return out


if __name__ == '__main__':
    main(handle)
