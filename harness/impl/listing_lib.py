"""Shared by the C08 and C15 drivers: builds the circuit of a case through DeclarativeCircuit.add and serialises the listing
tree the exporters walk (recursively through `_circuit_graph.get_node_iterator()` and `nr_of_repetitions`)."""
import sys, os
sys.path.insert(0, os.path.dirname(os.path.abspath(__file__)))
from qce_circuit.language.declarative_circuit import DeclarativeCircuit
from qce_circuit.structure.intrf_circuit_operation import RelationLink, MultiRelationLink, RelationType, QubitChannel
from qce_circuit.structure.intrf_circuit_operation_composite import ICircuitCompositeOperation
from qce_circuit.structure.registry_repetition import FixedRepetitionStrategy, RegistryRepetitionStrategy, RepetitionRegistry
from qce_circuit.structure.registry_duration import FixedDurationStrategy
import qce_circuit.structure.circuit_operations as ops
import qce_circuit.addon_stim.circuit_operations as sops

INT_FIELDS = {
    'DetectorOperation': ['last_acquisition_index', 'main_target', 'secondary_target', 'reference_offset', 'secondary_offset'],
    'LogicalObservableOperation': ['last_acquisition_index', 'main_target'],
    'CoordinateShiftOperation': ['time_shift', 'space_shift'],
}
DURATION_ARG = ('Wait',)


def op_class(name):
    return getattr(ops, name, None) or getattr(sops, name)


def ticks(x):
    t = int(round(float(x) * 4))
    assert t / 4 == float(x), x
    return t


def make_leaf(cmd, circuit, top, added):
    name, q, a = cmd['op'], cmd['q'], cmd.get('a', [])
    cls = op_class(name)
    kw = {}
    rel = cmd.get('rel')
    if rel is not None and name not in ('Barrier', 'CoordinateShiftOperation'):
        kw['relation'] = RelationLink(added[rel[0]], RelationType[rel[1]])
    if name in ('Barrier', 'CoordinateShiftOperation'):
        kw = {'qubit_indices': list(q)}
    elif len(q) == 2:
        kw.update(control_qubit_index=q[0], target_qubit_index=q[1])
    else:
        kw.update(qubit_index=q[0])
    if name in INT_FIELDS:
        for f, v in zip(INT_FIELDS[name], a):
            kw[f] = v
    if name in DURATION_ARG:
        kw['duration_strategy'] = FixedDurationStrategy(duration=a[0] / 4)
    if name == 'DispersiveMeasure':
        src = top if cmd.get('acq') == 'top' else circuit
        kw['acquisition_strategy'] = src.get_acquisition_strategy()
        if cmd.get('tag'):
            kw['acquisition_tag'] = cmd['tag']
    if 'chan' in cmd:
        kw['qubit_channel'] = QubitChannel[cmd['chan']]
    return cls(**kw)


def build(prog, reps=None, top=None):
    if reps is None:
        circuit = DeclarativeCircuit()
    elif isinstance(reps, dict):        # registry-provided repetition count
        registry = RepetitionRegistry()
        registry.set_registry_at('reps', reps['registry'])
        circuit = DeclarativeCircuit(repetition_strategy=RegistryRepetitionStrategy(registry=registry, registry_key='reps'))
    else:
        # the count as a Python int or as a numpy integer (a sweep over np.arange): a deterministic choice
        import numpy as np
        n = np.int64(reps) if (reps + len(prog)) % 2 == 0 else reps
        circuit = DeclarativeCircuit(repetition_strategy=FixedRepetitionStrategy(n))
    top = top or circuit
    added = []
    for cmd in prog:
        if 'body' in cmd:
            sub = build(cmd['body'], reps=cmd['reps'], top=top)
            added.append(circuit.add(sub))
        else:
            added.append(circuit.add(make_leaf(cmd, circuit, top, added)))
    return circuit


def leaf_json(op):
    name = type(op).__name__
    if hasattr(op, 'qubit_indices'):
        q = [int(x) for x in op.qubit_indices]
    elif hasattr(op, 'control_qubit_index'):
        q = [int(op.control_qubit_index), int(op.target_qubit_index)]
    else:
        q = [int(op.qubit_index)]
    if name in INT_FIELDS:
        a = [None if getattr(op, f) is None else int(getattr(op, f)) for f in INT_FIELDS[name]]
    elif name in DURATION_ARG:
        a = [ticks(op.duration)]
    else:
        a = []
    return {'op': name, 'q': q, 'a': a}


def tree_json(comp):
    out = []
    for node in comp._circuit_graph.get_node_iterator():
        op = node.operation
        if isinstance(op, ICircuitCompositeOperation):
            out.append({'reps': int(op.nr_of_repetitions), 'body': tree_json(op)})
        else:
            out.append(leaf_json(op))
    return out


def clear():
    """the library memoises start times (lru_cache); keep stale entries of earlier cases out of this one"""
    RelationLink.get_start_time.cache_clear()
    MultiRelationLink.get_start_time.cache_clear()
