"""C07 implementation driver: builds a circuit from a JSON build program through the public API (DeclarativeCircuit.add,
get_acquisition_strategy, apply_modifiers), and reports the listing the acquisition registry scans together with every
acquisition index a user can read, the start time of each measurement and the order of the M targets of to_stim."""
import sys, os
sys.path.insert(0, os.path.dirname(os.path.abspath(__file__)))
from driver_base import main
import numpy as np
from qce_circuit.language.declarative_circuit import DeclarativeCircuit
from qce_circuit.structure.intrf_circuit_operation import RelationLink, MultiRelationLink, RelationType
from qce_circuit.structure.intrf_circuit_operation_composite import ICircuitCompositeOperation
from qce_circuit.structure.intrf_acquisition_operation import IAcquisitionOperation, AcquisitionTag
from qce_circuit.structure.registry_repetition import FixedRepetitionStrategy
from qce_circuit.structure.registry_duration import FixedDurationStrategy, GlobalRegistryKey, temporary_override_get_registry_at
from qce_circuit.structure.circuit_operations import DispersiveMeasure, Wait, Rx180, CPhase, Barrier
from qce_circuit.addon_stim import to_stim

TAGS = ['', 'a', 'b', 'heralded', 'final', 'parity']      # 'parity' is used by the repetition-code library only
RT = {'F': RelationType.FOLLOWED_BY, 'S': RelationType.JOINED_START, 'E': RelationType.JOINED_END}


def fresh(s):
    """an equal but DISTINCT string object (tags built at run time -- f-strings, YAML -- are never the same object as the query's)"""
    return (s + ' ')[:-1] if len(s) > 1 else s


import enum


class TagEnum(str, enum.Enum):
    """tags given as members of a (str, Enum) class -- equal to their plain-string values, but str() of a member is not its value"""
    A = 'a'
    FINAL = 'final'


def tag_object(name, variant):
    """the tag object a measurement is created with: a fresh plain string, or (odd variant) the equal (str, Enum) member"""
    if variant % 2 == 1 and name in ('a', 'final'):
        return TagEnum(name)
    return fresh(name)


def ticks(x):
    t = int(round(float(x) * 8))
    assert t / 8 == float(x), f"time {x} is not a multiple of 1/8"
    return t


def clear_caches():
    RelationLink.get_start_time.cache_clear()
    MultiRelationLink.get_start_time.cache_clear()


class Uids:
    """unique_identifier of an AcquisitionIdentifier -> 0, 1, 2, ... in order of first appearance; the Python object
    behind each number is remembered so that "distinct objects <-> distinct identifiers" is checked, not assumed."""
    def __init__(self):
        self.m = {}
        self.obj = {}
        self.consistent = True

    def of(self, op):
        u = op.acquisition_identifier.unique_identifier
        if u not in self.m:
            self.m[u] = len(self.m)
            self.obj[u] = op
        elif self.obj[u] is not op:
            self.consistent = False
        return self.m[u]


def item(op, uids):
    if isinstance(op, IAcquisitionOperation):
        ident = op.acquisition_identifier
        return [1, int(ident.qubit_index), TAGS.index(ident.tag), uids.of(op)]
    return [0, 0, 0, 0]


def sub_composites(struct):
    out = []
    for node in struct._circuit_graph.get_node_iterator():
        if isinstance(node.operation, ICircuitCompositeOperation):
            out.append(node.operation)
            out.extend(sub_composites(node.operation))
    return out


def walk_levels(struct, level=0):
    """(operation, nesting level) in the order of decomposed_operations(); level 0 = directly in the circuit"""
    for node in struct._circuit_graph.get_node_iterator():
        if isinstance(node.operation, ICircuitCompositeOperation):
            yield from walk_levels(node.operation, level + 1)
        else:
            yield node.operation, level


def observe(circuit, with_stim):
    """Everything a user can read about acquisition indices of `circuit`, plus the listing the registry scans."""
    uids = Uids()
    ops = circuit.operations                                   # = circuit_structure.decomposed_operations()
    listing = [item(op, uids) for op in ops]
    # schedule of every listed operation: (channel identifiers, start, end) in ticks; used only for the overlap-freeness premise
    sched = []
    for op in ops:
        st = ticks(op.start_time)
        sched.append([[[int(ch.id), ch.channel.name] for ch in op.channel_identifiers], st, st + ticks(op.duration)])
    # every sub-circuit (recursively) as an operation occupying its channels from its start to start + duration, with the
    # positions of the listed operations it contains
    pos_of = {id(op): i for i, op in enumerate(ops)}
    subcircuits = []
    for comp in circuit.composite_operations:
        st = ticks(comp.start_time)
        members = sorted(pos_of[id(o)] for o in comp.decomposed_operations())
        subcircuits.append([[[int(ch.id), ch.channel.name] for ch in comp.channel_identifiers], st, st + ticks(comp.duration), members])
    # for every listed operation, the listed positions it is placed after by construction: the operation(s) its relation link refers to
    # (all members when the referent is a sub-circuit or the link refers to a group); used only to tell known finding F20 (two measurements
    # of a qubit, neither placed after the other, listed against their start-time order) from any other failure of the start-time clause
    up = []
    for op in ops:
        link = op.relation_link
        refs = list(link._reference_nodes) if isinstance(link, MultiRelationLink) else ([link.reference_node] if link.reference_node is not None else [])
        s = set()
        for r in refs:
            if isinstance(r, ICircuitCompositeOperation):
                s.update(pos_of[id(o)] for o in r.decomposed_operations() if id(o) in pos_of)
            elif id(r) in pos_of:
                s.add(pos_of[id(r)])
        up.append(sorted(s))
    struct = circuit.circuit_structure
    lv = list(walk_levels(struct))
    assert len(lv) == len(ops) and all(a is b for (a, _), b in zip(lv, ops)), 'tree walk differs from decomposed_operations()'
    subs = None
    regs = [listing]            # regs[0]: listing of this circuit; further entries: listing of any other reference circuit
    reg_obj = [struct]
    meas = []
    for pos, op in enumerate(ops):
        if not isinstance(op, IAcquisitionOperation):
            continue
        ref = op.acquisition_strategy.registry.reference_circuit
        ri = next((i for i, r in enumerate(reg_obj) if r is ref), None)
        if ri is None:
            reg_obj.append(ref)
            regs.append([item(o, uids) for o in ref.decomposed_operations()])
            ri = len(reg_obj) - 1
        if ri == 0:
            att = 0             # this circuit
        else:
            if subs is None:
                subs = sub_composites(struct)
            att = 1 if any(s is ref for s in subs) else 2      # a sub-circuit of this circuit / something else
        ident = op.acquisition_identifier
        meas.append({'pos': pos, 'q': int(ident.qubit_index), 'tag': TAGS.index(ident.tag), 'uid': uids.of(op),
                     'qi': int(op.acquisition_index), 'ci': int(op.circuit_level_acquisition_index),
                     'start': ticks(op.start_time), 'reg': ri, 'att': att, 'lvl': lv[pos][1]})
    qubits = sorted({m['q'] for m in meas})
    by_qubit = [[q, [int(x) for x in np.asarray(circuit.get_acquisition_indices(q)).tolist()]] for q in qubits]
    # one qubit without any measurement and every (qubit, tag) combination, present or not
    absent = (max(qubits) + 1) if qubits else 0
    by_qubit.append([absent, [int(x) for x in np.asarray(circuit.get_acquisition_indices(absent)).tolist()]])
    by_tag = []
    for q in qubits:
        for t, name in enumerate(TAGS):
            r = circuit.get_acquisition_indices(AcquisitionTag(qubit_index=q, tag=fresh(name)))   # positional: multipledispatch ignores keywords
            by_tag.append([q, t, [int(x) for x in np.asarray(r).tolist()]])
    out = {'listing': listing, 'sched': sched, 'up': up, 'subcircuits': subcircuits, 'regs': regs[1:], 'meas': meas, 'by_qubit': by_qubit, 'by_tag': by_tag,
           'uids_consistent': uids.consistent}
    if with_stim:
        sc = to_stim(circuit).flattened()
        rec = []
        for ins in sc:
            if ins.name == 'M':
                rec.extend(int(t.value) for t in ins.targets_copy())
            elif ins.name in ('MX', 'MY', 'MZ', 'MR', 'MRX', 'MRY', 'MRZ', 'MPP', 'MXX', 'MYY', 'MZZ'):
                rec.extend(-1 for _ in ins.targets_copy())      # any other record-producing instruction would shift the record
        out['stim_m'] = rec
        out['stim_n'] = int(sc.num_measurements)
    return out


def build(spec, top, unrelated):
    rep = spec.get('rep', 1)
    circuit = DeclarativeCircuit() if rep is None else DeclarativeCircuit(repetition_strategy=FixedRepetitionStrategy(rep))
    if top is None:
        top = circuit
    added = []
    for cmd in spec['cmds']:
        op = cmd['op']
        kw = {}
        rel = cmd.get('rel')
        if rel is not None:
            kw['relation'] = RelationLink(added[rel[0]], RT[rel[1]])
        if op == 'sub':
            sub = build(cmd['circ'], top, unrelated)
            if cmd.get('observe'):
                _ = sub.operations         # a user looks at the sub-circuit before nesting it
            # the generic add() takes a DeclarativeCircuit or its raw circuit structure: both must nest a COPY re-targeted to this circuit
            raw = (len(cmd['circ']['cmds']) + len(added)) % 2 == 1
            added.append(circuit.add(sub.circuit_structure if raw else sub))
            continue
        if op == 'M':
            reg = cmd.get('reg', 'own')
            src = {'own': circuit, 'top': top, 'unrelated': unrelated}[reg]
            o = DispersiveMeasure(qubit_index=cmd['q'], acquisition_strategy=src.get_acquisition_strategy(),
                                  acquisition_tag=tag_object(TAGS[cmd['tag']], cmd['q'] + len(added)), **kw)
        elif op == 'Wait':
            o = Wait(qubit_index=cmd['q'], duration_strategy=FixedDurationStrategy(duration=cmd['d'] / 4), **kw)
        elif op == 'Rx180':
            o = Rx180(qubit_index=cmd['q'], **kw)
        elif op == 'CPhase':
            o = CPhase(control_qubit_index=cmd['q'][0], target_qubit_index=cmd['q'][1], **kw)
        elif op == 'Barrier':
            o = Barrier(qubit_indices=list(cmd['q']))
        else:
            raise ValueError(op)
        added.append(circuit.add(o))
    return circuit


def build_library(case):
    from qce_circuit.library.repetition_code.circuit_components import RepetitionCodeDescription
    from qce_circuit.library.repetition_code.circuit_constructors import construct_repetition_code_circuit
    from qce_circuit.language import InitialStateContainer, InitialStateEnum
    init = InitialStateContainer.from_ordered_list([InitialStateEnum.ONE if b else InitialStateEnum.ZERO for b in case['init']])
    return construct_repetition_code_circuit(description=RepetitionCodeDescription.from_initial_state(init), initial_state=init,
                                             qec_cycles=case['cycles'])


ENV = {'READOUT': 2.0, 'MICROWAVE': 1.0, 'FLUX': 1.0, 'RESET': 2.0}      # the duration settings every C07 case runs under (harness/c07.py)


def handle(case):
    with temporary_override_get_registry_at({GlobalRegistryKey[k]: v for k, v in ENV.items()}):
        try:
            return handle_inner(case)
        finally:
            clear_caches()


def handle_inner(case):
    clear_caches()
    if case.get('k') == 'lib':
        circuit = build_library(case)
        out = {}
        if case.get('observe_before'):
            out['before'] = observe(circuit, with_stim=False)
        out['after'] = observe(circuit.apply_modifiers(), with_stim=True)
        return out
    unrelated = DeclarativeCircuit()
    unrelated.add(Rx180(qubit_index=0))
    circuit = build(case['circ'], None, unrelated)
    out = {}
    if case.get('observe_before'):
        out['before'] = observe(circuit, with_stim=False)
    final = circuit.apply_modifiers()
    out['after'] = observe(final, with_stim=True)
    return out


if __name__ == '__main__':
    main(handle)
