"""C18 implementation driver: builds a circuit from a JSON build program through the public API (core_impl.Builder), observes
it, REALLY draws it with plot_circuit under the Agg backend (one drawing per case, figure closed), observes it again.

What is drawn is read from inside that one real drawing, by monkey-patches that live in this driver process only:
  * display_circuit.plot_circuit_description is wrapped: the VisualCircuitDescription plot_circuit built (channel_indices,
    channel_label_map, channel_width, channel_height) and the times its operations report at that moment (i.e. under the
    drawing's durations, through whatever the memo tables hold) are recorded, then the original function draws;
  * every operation draw-component factory's construct() and ITransformConstructor.construct_transform are wrapped: for each
    component the factory manager builds, the rectilinear transforms (channel, pivot x / y, width) it asked for are recorded
    against the operation they were built for.  Transforms requested outside a factory (the grouping pass of
    SpaceSharedOperations.divide) are not components and are ignored.
Times are ticks of 1/8 (exactness asserted); pivots are exact rationals in ticks: a coordinate that is not a multiple of 1/8
(row spacing 1.2, offsets by thirds) is the unique rational with denominator <= 4096 within 1e-9 of the float (asserted)."""
import sys, os, inspect
from fractions import Fraction
sys.path.insert(0, os.path.dirname(os.path.abspath(__file__)))
from driver_base import main
import core_impl as ci
from core_impl import Builder, observe, comps_of, ticks, clear_caches
import matplotlib
matplotlib.use('Agg')
import matplotlib.pyplot as plt
from qce_circuit.structure.registry_duration import (GlobalRegistryKey, temporary_override_get_registry_at, GlobalDurationRegistry)
from qce_circuit.structure.intrf_acquisition_operation import IAcquisitionOperation
from qce_circuit.visualization.visualize_circuit import display_circuit as dc
from qce_circuit.visualization.visualize_circuit import intrf_factory_draw_components as ifc
from qce_circuit.visualization.visualize_circuit.draw_components import factory_draw_components as fdc

ORIGINAL_GET = GlobalDurationRegistry.get_registry_at
CAP = {}            # what the current drawing recorded
CUR = [None]        # the component under construction


def rat8(v):
    f = Fraction(float(v)) * 8
    r = f.limit_denominator(4096)
    if abs(f - r) >= Fraction(1, 10 ** 9):
        raise AssertionError(f"coordinate {v!r} is not a small rational")
    return [r.numerator, r.denominator]


_orig_construct_transform = ifc.ITransformConstructor.construct_transform


def _construct_transform(self, identifier, time_component):
    r = _orig_construct_transform(self, identifier, time_component)
    if CUR[0] is not None:
        CUR[0]['tr'].append([int(identifier.id), rat8(r.pivot.x), rat8(r.pivot.y), ticks(r.width)])
    return r


ifc.ITransformConstructor.construct_transform = _construct_transform


def _wrap_factory(cls):
    orig = cls.construct

    def construct(self, operation, transform_constructor):
        rec = {'op': id(operation), 'f': cls.__name__, 'tr': []}
        prev, CUR[0] = CUR[0], rec
        try:
            return orig(self, operation, transform_constructor)
        finally:
            CUR[0] = prev
            CAP.setdefault('rec', []).append(rec)
    cls.construct = construct


for _n, _cls in inspect.getmembers(fdc, inspect.isclass):
    if issubclass(_cls, ifc.IOperationDrawComponentFactory) and _cls.__module__ == fdc.__name__:
        _wrap_factory(_cls)

_orig_plot_description = dc.plot_circuit_description


def _entry(o):
    e = {'cls': type(o).__name__, 'ch': [[int(c.id), c.channel.name] for c in o.channel_identifiers],
         's': ticks(o.start_time), 'e': ticks(o.end_time), 'd': ticks(o.duration), 'rel': None}
    if hasattr(o, 'acquisition_tag'):
        e['tag'] = o.acquisition_tag
    return e


def _plot_description(description, **kwargs):
    ops = description.operations
    CAP['desc'] = {'indices': [int(i) for i in description.channel_indices],
                   'labels': [description.channel_label_map[i] for i in range(len(description.channel_indices))],
                   'width': ticks(description.channel_width), 'height': ticks(description.channel_height)}
    CAP['ops'] = [_entry(o) for o in ops]
    CAP['pos'] = {id(o): i for i, o in enumerate(ops)}
    CAP['objects'] = list(ops)
    return _orig_plot_description(description, **kwargs)


dc.plot_circuit_description = _plot_description


def label_code(v):
    """a label string 'L<n>' -> n (n >= 1000 by construction of the cases); the default label is the channel index itself"""
    if isinstance(v, str):
        assert v.startswith('L')
        return int(v[1:])
    return int(v)


def full_obs(c, top_entries=None):
    ops = c.operations
    acq = [[i, int(o.acquisition_index), int(o.circuit_level_acquisition_index)]
           for i, o in enumerate(ops) if isinstance(o, IAcquisitionOperation)]
    return {'ops': observe(c, top_entries), 'duration': ticks(c.duration), 'comps': comps_of(c), 'acq': acq}


def occupied(c):
    out = []
    for ch in c.occupied_qubit_channels:
        if int(ch.id) not in out:
            out.append(int(ch.id))
    return out


def build(case):
    b = Builder(case)
    c = b.build(case['prog'])
    if case.get('unroll'):
        c = c.apply_modifiers()
    return b, c


def handle(case):
    env = {GlobalRegistryKey[k]: v for k, v in case['env'].items()}
    out = {}
    with temporary_override_get_registry_at(env):
        clear_caches()
        b, c = build(case)
        out['leafinfo'] = b.leafinfo
        out['occupied'] = occupied(c)
        if case.get('pre', True):
            out['before'] = full_obs(c)
        else:                      # the circuit is first looked at by the drawing; the reference observation is a twin's
            out['before'] = full_obs(build(case)[1])
        order = case.get('order')
        labels = None if case.get('labels') is None else {int(k): f"L{int(v)}" for k, v in case['labels']}
        CAP.clear()
        fig = None
        try:
            fig, ax = dc.plot_circuit(c, channel_order=None if order is None else list(order), channel_map=labels,
                                      compact_visualization=bool(case.get('compact', True)))
            out['error'] = 0
        except RecursionError:
            raise
        except ValueError as e:
            out['error'], out['error_msg'] = 1, str(e)[:160]
        except Exception as e:
            out['error'], out['error_msg'] = 2, f"{type(e).__name__}: {e}"[:200]
        finally:
            plt.close('all')
        if out['error'] == 0:
            pos = CAP['pos']
            comps, other = [], 0
            for r in CAP.get('rec', []):
                if r['op'] in pos:
                    comps.append({'pos': pos[r['op']], 'f': r['f'], 'tr': r['tr']})
                else:
                    other += 1          # highlight of a repeated sub-circuit (FootprintFactory)
            comps.sort(key=lambda x: x['pos'])
            d = dict(CAP['desc'])
            d['labels'] = [label_code(v) for v in d['labels']]
            d['ops'] = CAP['ops']
            d['comps'] = comps
            d['highlights'] = other
            out['draw'] = d
        else:
            out['draw'] = None
        # first what a user sees WITHOUT listing the circuit again (listing re-hands relation links and thereby invalidates the
        # memo tables): the circuit duration, and the times of the operation objects the drawing listed
        out['dur_first_after'] = ticks(c.duration)
        out['held_after'] = [[ticks(o.start_time), ticks(o.end_time)] for o in CAP.get('objects', [])]
        out['after'] = full_obs(c)
        # reference: a twin built now from the same program, listed under the durations the drawing is made under
        clear_caches()
        twin = build(case)[1]
        if case.get('compact', True):
            with temporary_override_get_registry_at(dc.VISUALIZATION_DURATION_REGISTRY):
                clear_caches()
                out['ref'] = [_entry(o) for o in twin.operations]
                clear_caches()
        else:
            out['ref'] = [_entry(o) for o in twin.operations]
        clear_caches()
    assert GlobalDurationRegistry.get_registry_at is ORIGINAL_GET
    return out


if __name__ == '__main__':
    main(handle)
