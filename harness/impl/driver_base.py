"""Common part of every implementation driver (run by /venv/bin/python, PYTHONPATH=/repo/src)."""
import sys, json, warnings, io, contextlib
warnings.simplefilter('ignore')


def main(handle):
    cases = json.load(sys.stdin)
    outs = []
    real_stdout = sys.stdout
    sys.stdout = io.StringIO()      # the library prints progress bars / warnings; keep the channel clean
    try:
        for c in cases:
            try:
                outs.append(handle(c))
            except RecursionError:
                outs.append({'error': 'RecursionError'})
            except Exception as e:      # canonical error enum: the exception class name
                outs.append({'error': type(e).__name__, 'msg': str(e)[:200]})
    finally:
        sys.stdout = real_stdout
    sys.stdout.write('\x01JSON\x01' + json.dumps(outs))
