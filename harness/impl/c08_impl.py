"""C08 implementation driver: builds the circuit of a case (listing_lib), serialises the listing tree the exporter walks and
the exported Stim circuit (raw and stim's own flattened()), for the circuit as built and for a second, independently built
copy after apply_modifiers()."""
import sys, os
sys.path.insert(0, os.path.dirname(os.path.abspath(__file__)))
from driver_base import main
import stim
from listing_lib import build, tree_json, clear
from qce_circuit.addon_stim.factory_manager import to_stim


def num(x):
    i = int(round(x))
    assert float(i) == float(x), x
    return i


def circ_json(c):
    out = []
    for op in c:
        if isinstance(op, stim.CircuitRepeatBlock):
            out.append(['R', int(op.repeat_count), circ_json(op.body_copy())])
        else:
            ts = []
            for t in op.targets_copy():
                if t.is_measurement_record_target:
                    ts.append(['r', int(t.value)])
                elif t.is_qubit_target and not t.is_inverted_result_target:
                    ts.append(['q', int(t.value)])
                else:
                    raise ValueError('unexpected target kind %r' % (t,))
            assert not getattr(op, 'tag', ''), 'tagged instruction'
            out.append(['I', op.name, [num(a) for a in op.gate_args_copy()], ts])
    return out


def export(circuit):
    tree = tree_json(circuit.circuit_structure)
    try:
        s = to_stim(circuit)
    except RecursionError:
        return {'tree': tree, 'error': 'RecursionError'}
    except Exception as e:
        return {'tree': tree, 'error': type(e).__name__, 'msg': str(e)[:160]}
    tree_after = tree_json(circuit.circuit_structure)
    assert tree_after == tree, 'export changed the listing'
    return {'tree': tree, 'raw': circ_json(s), 'flat': circ_json(s.flattened()), 'nmeas': int(s.num_measurements)}


def make_circuit(case):
    if case['k'] == 'lib':
        from qce_circuit.language.intrf_declarative_circuit import InitialStateContainer, InitialStateEnum
        from qce_circuit.library.repetition_code.circuit_constructors import construct_repetition_code_circuit
        st = {0: InitialStateEnum.ZERO, 1: InitialStateEnum.ONE}
        init = InitialStateContainer.from_ordered_list([st[b] for b in case['init']])
        return construct_repetition_code_circuit(qec_cycles=case['cycles'], initial_state=init)
    return build(case['prog'])


def handle(case):
    if case['k'] in ('repcode', 'simplified', 'multi', 'calib'):      # library-built circuits in the shared Lib/Run.v format
        import lib_impl
        return lib_impl.handle(case)
    clear()
    a = export(make_circuit(case))
    clear()
    second = make_circuit(case)          # built again: nothing is shared with the first circuit
    try:
        unrolled = second.apply_modifiers()
    except RecursionError:
        return {'a': a, 'u': {'unroll_error': 'RecursionError'}}
    except Exception as e:
        return {'a': a, 'u': {'unroll_error': type(e).__name__, 'msg': str(e)[:160]}}
    clear()
    u = export(unrolled)
    return {'a': a, 'u': u}


main(handle)
