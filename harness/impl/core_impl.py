"""Implementation driver for the Core properties (C01, C02, C04, C05, C06, C11, ...): builds circuits from JSON build
programs through the public API and reports what a user observes."""
import sys, os
sys.path.insert(0, os.path.dirname(os.path.abspath(__file__)))
from driver_base import main
from qce_circuit.language.declarative_circuit import DeclarativeCircuit
from qce_circuit.structure.intrf_circuit_operation import (RelationLink, MultiRelationLink, RelationType, QubitChannel)
from qce_circuit.structure.intrf_circuit_operation_composite import CircuitCompositeOperation
from qce_circuit.structure.registry_duration import (FixedDurationStrategy, GlobalDurationStrategy, GlobalRegistryKey,
                                                      RegistryDurationStrategy, DurationRegistry,
                                                      temporary_override_get_registry_at, GlobalDurationRegistry)
from qce_circuit.structure.registry_repetition import FixedRepetitionStrategy, RegistryRepetitionStrategy, RepetitionRegistry
from qce_circuit.structure import circuit_operations as co
from qce_circuit.addon_stim import circuit_operations as so

RT = {'F': RelationType.FOLLOWED_BY, 'S': RelationType.JOINED_START, 'E': RelationType.JOINED_END}
RTN = {v: k for k, v in RT.items()}
CH = {c.name: c for c in QubitChannel}
ORIGINAL_GET = GlobalDurationRegistry.get_registry_at


def ticks(x):
    t = x * 8
    if t != int(t):
        raise ValueError(f"time {x} is not a multiple of 1/8")
    return int(t)


def clear_caches():
    RelationLink.get_start_time.cache_clear()
    MultiRelationLink.get_start_time.cache_clear()


class Builder:
    def __init__(self, case):
        self.case = case
        self.registry = DurationRegistry()
        # registry durations are written only AFTER the whole circuit is built (build once, then set / sweep the delays): nested
        # and unrolled copies must keep following the registry
        self.dur_pending = dict(case.get('reg', {}))
        self.rep_registry = RepetitionRegistry()
        self.rep_pending = []
        self.leafinfo = []

    def dur(self, d):
        if d[0] == 'fixed':
            return FixedDurationStrategy(duration=d[1])
        if d[0] == 'reg':
            return RegistryDurationStrategy(registry=self.registry, registry_key=d[1])
        raise ValueError(d)

    def make_leaf(self, c, relation, circuit):
        cls, q = c['cls'], c['q']
        if (q[0] + len(self.leafinfo)) % 4 == 0:
            import numpy as np      # qubit indices as numpy integers (operations created in a loop over np.arange)
            q = [np.int64(x) for x in q]
        kw = {}
        if relation is not None:
            kw['relation'] = relation
        d = c.get('dur')
        if cls in ('SingleQubitOperation', 'Wait', 'VirtualVacant', 'VirtualEmpty'):
            if d is not None:
                kw['duration_strategy'] = self.dur(d)
            if cls != 'SingleQubitOperation' and c.get('ch'):
                kw['qubit_channel'] = CH[c['ch']]
            return getattr(co, cls)(q[0], **kw)
        if cls in ('Reset', 'Identity', 'Hadamard', 'Rx180', 'Rx90', 'Rxm90', 'Ry180', 'Ry90', 'Rym90', 'Rx180ef', 'VirtualPhase',
                   'VirtualPark', 'Rphi90'):
            return getattr(co, cls)(q[0], **kw)
        if cls in ('TwoQubitOperation',):
            if d is not None:
                kw['duration_strategy'] = self.dur(d)
            return co.TwoQubitOperation(q[0], q[1], **kw)
        if cls in ('CPhase', 'TwoQubitVirtualPhase'):
            return getattr(co, cls)(q[0], q[1], **kw)
        if cls == 'VirtualTwoQubitVacant':
            if d is not None:
                kw['duration_strategy'] = self.dur(d)
            if c.get('ch'):
                kw['qubit_channel'] = CH[c['ch']]
            return co.VirtualTwoQubitVacant(q[0], q[1], **kw)
        if cls == 'DispersiveMeasure':
            return co.DispersiveMeasure(q[0], acquisition_strategy=circuit.get_acquisition_strategy(), acquisition_tag=c.get('tag', ''), **kw)
        if cls == 'Barrier':
            return co.Barrier(list(q))
        if cls == 'CoordinateShiftOperation':
            return so.CoordinateShiftOperation(list(q), time_shift=c.get('args', [1, 0])[0], space_shift=c.get('args', [1, 0])[1])
        if cls == 'DetectorOperation':
            a = c.get('args') or [1, 0, None, None, None]
            return so.DetectorOperation(q[0], last_acquisition_index=a[0], main_target=a[1], secondary_target=a[2], reference_offset=a[3],
                                        secondary_offset=a[4], **kw)
        if cls == 'LogicalObservableOperation':
            a = c.get('args') or [1, 0]
            return so.LogicalObservableOperation(q[0], last_acquisition_index=a[0], main_target=a[1], **kw)
        raise ValueError(cls)

    def flush_durs(self):
        for k, v in self.dur_pending.items():
            self.registry.set_registry_at(k, v)

    def flush_reps(self):
        """write the registry-provided repetition counts collected while building"""
        for key, reps_value in self.rep_pending:
            self.rep_registry.set_registry_at(key, reps_value)

    def build(self, prog, reps=1, top=True):
        # repetition counts are given as fixed numbers or through a (shared) repetition registry: every third nested block,
        # chosen by a deterministic function of the input, uses the registry
        if not top and (7 * reps + len(prog)) % 3 == 0:
            # the count is written into the registry only AFTER the whole circuit is built (the usual way to sweep a number of
            # rounds): nested copies must keep following the registry
            key = f"r{len(self.rep_pending)}"
            self.rep_pending.append((key, reps))
            strategy = RegistryRepetitionStrategy(registry=self.rep_registry, registry_key=key)
        else:
            strategy = FixedRepetitionStrategy(reps)
        circuit = DeclarativeCircuit(repetition_strategy=strategy)
        entries = []
        for c in prog:
            if c['t'] == 'sub':
                sub = self.build(c['body'], c['reps'], top=False)
                # nested through the generic add(), as a DeclarativeCircuit or as its raw circuit structure (a deterministic choice)
                raw = (len(c['body']) + len(entries)) % 2 == 1
                entries.append(circuit.add(sub.circuit_structure if raw else sub))
                continue
            rel = None
            r = c.get('rel')
            if r is not None:
                if r[0] == 'dangling':
                    rel = RelationLink(co.Wait(99), RT[r[1]])
                elif r[0] == 'multi':      # relation to a group of earlier entries (structure-level API)
                    rel = MultiRelationLink(_reference_nodes=[entries[i] for i in r[2]], _relation_type=RT[r[1]])
                else:
                    rel = RelationLink(entries[r[1]], RT[r[0]])
            op = self.make_leaf(c, rel, circuit)
            self.leafinfo.append({'cls': type(op).__name__, 'ch': [[int(ci.id), ci.channel.name] for ci in op.channel_identifiers]})
            entries.append(circuit.add(op))
        if top:
            self.flush_reps()
            self.flush_durs()
            self.top_entries = {id(e): k for k, e in enumerate(entries)}
            self.top_list = entries
        return circuit


def rel_of(op):
    link = op.relation_link
    ref = link.reference_node
    if ref is None:
        return None
    out = {'t': RTN[link.relation_type], 'rs': ticks(ref.start_time), 're': ticks(ref.end_time),
           'comp': isinstance(ref, CircuitCompositeOperation), 'ref_id': id(ref)}
    if isinstance(link, MultiRelationLink):
        out['multi'] = [[ticks(n.start_time), ticks(n.end_time)] for n in link._reference_nodes]
    return out


import dataclasses
SKIP_FIELDS = ('relation', 'duration_strategy', 'acquisition_strategy')


def field_sig(op):
    """canonical text of the operation's own init-able public fields (class-specific arguments such as detector targets)"""
    if not dataclasses.is_dataclass(op):
        return ''
    parts = []
    for f in dataclasses.fields(op):
        if not f.init or f.name.startswith('_') or f.name in SKIP_FIELDS:
            continue
        v = getattr(op, f.name)
        parts.append(f"{f.name}={getattr(v, 'name', v)!r}")
    return ';'.join(parts)


def observe(circuit, top_entries=None):
    ops = circuit.operations
    pos = {id(o): i for i, o in enumerate(ops)}
    # which top-level command every listed operation belongs to: k for the operation added by command k, -(10+k) for an operation
    # inside the sub-circuit added by command k
    inside = {}
    if top_entries:
        for sub in circuit.circuit_structure._circuit_graph.get_node_iterator():
            e = sub.operation
            if id(e) in top_entries and isinstance(e, CircuitCompositeOperation):
                for x in e.decomposed_operations():
                    inside[id(x)] = -(10 + top_entries[id(e)])
    res = []
    for o in ops:
        r = rel_of(o)
        if r is not None:
            rid = r.pop('ref_id')
            if r['comp'] and top_entries and rid in top_entries:
                r['ref_pos'] = -(10 + top_entries[rid])        # referent is the sub-circuit added by top-level command k
            else:
                r['ref_pos'] = pos.get(rid, -2 if r['comp'] else -1)     # -2: referent is a (nested) sub-circuit; -1: not listed at all
        e = {'cls': type(o).__name__, 'ch': [[int(c.id), c.channel.name] for c in o.channel_identifiers],
             's': ticks(o.start_time), 'e': ticks(o.end_time), 'd': ticks(o.duration), 'rel': r, 'sig': field_sig(o)}
        if top_entries and id(o) in top_entries:
            e['cmd'] = top_entries[id(o)]
        elif id(o) in inside:
            e['cmd'] = inside[id(o)]
        if hasattr(o, 'acquisition_tag'):
            e['tag'] = o.acquisition_tag
        res.append(e)
    return res


def comps_of(circuit):
    """every sub-circuit (pre-order): reported start, duration, and the extent of the leaf operations it contains"""
    res = []
    for sc in circuit.composite_operations:
        ops = sc.decomposed_operations()
        d1 = [n.operation.start_time for n in sc._circuit_graph.get_nodes_at(depth=1)] if not sc.empty_composite else []
        res.append({'s': ticks(sc.start_time), 'd': ticks(sc.duration), 'n': len(ops),
                    'lo': ticks(min([o.start_time for o in ops], default=0.0)),
                    'hi': ticks(max([o.end_time for o in ops], default=0.0)),
                    'first': ticks(min(d1, default=0.0))})
    return res


def joined_block(case):
    """C04, structure-level API: a sub-circuit with an EXPLICIT relation (FOLLOWED_BY / JOINED_START / JOINED_END) to an earlier
    operation, holding first operations of different lengths on different qubits, optionally an inner follower, optionally an
    operation added after it.  Observed twice on fresh builds: listing then durations, and durations first."""
    def build():
        c = DeclarativeCircuit()
        w = lambda q, d: co.Wait(q, duration_strategy=FixedDurationStrategy(d))
        x = c.add(w(0, case['d0']))
        block = CircuitCompositeOperation(relation=RelationLink(x, RT[case['rel']]), repetition_strategy=FixedRepetitionStrategy(case['reps']))
        for i, d in enumerate(case['firsts']):
            block.add(w(i + 1, d))
        if case['follow']:
            block.add(w(1, 1.0))
        c.circuit_structure.add(block)
        if case['tail']:
            c.add(w(1, 0.5))
        return c
    out = {}
    clear_caches()
    c1 = build()
    ops = observe(c1)
    out['jb1'] = {'ops': ops, 'duration': ticks(c1.duration), 'comps': comps_of(c1)}
    clear_caches()
    c2 = build()
    # durations are queried before the first listing (memoised times must not survive the hand-off); what is REPORTED is read after
    # the listing: for JOINED_END the hand-off re-aligns the first operations one by one, so the layout before and after differ (F23)
    _ = [ticks(c2.duration)] + [ticks(sc.duration) for sc in c2.composite_operations]
    ops2 = observe(c2)
    out['jb2'] = {'ops': ops2, 'duration': ticks(c2.duration), 'comps': comps_of(c2)}
    clear_caches()
    return out


def handle(case):
    if case.get('k') == 'deep':       # a chain at the documented depth limit: only the number of listed operations is observed
        c = DeclarativeCircuit()
        for _ in range(case['n']):
            c.add(co.Wait(0, duration_strategy=FixedDurationStrategy(0.5)))
        ops = c.operations
        return {'listed': len(ops), 'again': len(c.operations) == len(ops)}
    if case.get('k') in ('repcode', 'simplified', 'multi', 'calib'):      # library-built circuits
        import lib_impl
        return lib_impl.handle(case)
    if case.get('k') == 'jb':
        return joined_block(case)
    env = {GlobalRegistryKey[k]: v for k, v in case['env'].items()}
    out = {}
    want = case.get('obs', ['plain', 'plain_dur_first', 'unrolled'])
    with temporary_override_get_registry_at(env):
        clear_caches()
        b = Builder(case)
        c = b.build(case['prog'])
        out['leafinfo'] = b.leafinfo
        if 'plain' in want:
            ops = observe(c, b.top_entries)
            # the entry each top-level entry (operation or sub-circuit, as returned by add) reports as its referent, read after the listing
            out['top_ref'] = [b.top_entries.get(id(e.relation_link.reference_node), -1) if e.relation_link.reference_node is not None else -1
                              for e in b.top_list]
            out['plain'] = {'ops': ops, 'duration': ticks(c.duration), 'again': observe(c, b.top_entries) == ops, 'comps': comps_of(c),
                            'reps': [s.nr_of_repetitions for s in c.composite_operations]}
        if 'plain_dur_first' in want:
            c2 = Builder(case).build(case['prog'])
            d = ticks(c2.duration)
            out['plain_dur_first'] = {'ops': observe(c2), 'duration': d}
        if 'unrolled' in want:
            b3 = Builder(case)
            c3 = b3.build(case['prog'])
            u = c3.apply_modifiers()
            out['unrolled'] = {'ops': observe(u), 'duration': ticks(u.duration), 'comps': comps_of(u)}
            # the registry-provided counts change AFTER unrolling (a sweep over the number of rounds that keeps the unrolled
            # circuits): the unrolled circuit must not follow them any more
            for key, reps_value in b3.rep_pending:
                b3.rep_registry.set_registry_at(key, reps_value + 2)
            out['unrolled']['reps'] = [s.nr_of_repetitions for s in u.composite_operations]
            u2 = u.apply_modifiers()
            out['unrolled_twice'] = {'ops': observe(u2), 'duration': ticks(u2.duration)}
            # fresh build, unrolled, durations read BEFORE anything is listed (the circuit's, then every sub-circuit's)
            u3 = Builder(case).build(case['prog']).apply_modifiers()
            d3 = ticks(u3.duration)
            sub_d3 = [ticks(sc.duration) for sc in u3.composite_operations]
            ops3 = observe(u3)
            comps3 = comps_of(u3)
            if len(comps3) == len(sub_d3):
                for x, d in zip(comps3, sub_d3):
                    x['d'] = d                    # the duration each sub-circuit reported before the first listing
            out['unrolled_dur_first'] = {'ops': ops3, 'duration': d3, 'comps': comps3}
        if 'after_change' in want:
            # C04 under a history: build, unroll, list and read every duration under the first settings; then change the global
            # durations (a nested override) and the registry durations (set one by one, the first twice), and observe again:
            # circuit duration first, then every sub-circuit's, then the listing
            b4 = Builder(case)
            if case.get('late_reg'):        # the registry durations are not set at all before the change (the registry answers 0)
                b4.dur_pending = {}
            u4 = b4.build(case['prog']).apply_modifiers()
            _ = observe(u4)
            _ = [ticks(u4.duration)] + [ticks(sc.duration) for sc in u4.composite_operations]
            env2 = {GlobalRegistryKey[k]: v for k, v in case['env2'].items()}
            import contextlib
            # (no override is entered when the global durations stay as they are: entering one drops every memoised time, which
            # would hide a registry change that fails to)
            with (temporary_override_get_registry_at(env2) if case['env2'] != case['env'] else contextlib.nullcontext()):
                for k, v in case.get('reg2', {}).items():
                    b4.registry.set_registry_at(k, v)
                d4 = ticks(u4.duration)
                sub_d4 = [ticks(sc.duration) for sc in u4.composite_operations]
                ops4 = observe(u4)
                comps4 = comps_of(u4)
                if len(comps4) == len(sub_d4):
                    for x, d in zip(comps4, sub_d4):
                        x['d'] = d
                out['after_change'] = {'ops': ops4, 'duration': d4, 'comps': comps4}
        if 'flatten' in want:       # C11: flatten of the plain and of the unrolled circuit, twice
            def flat_obs(circ):
                f1 = circ.flatten()
                o1 = {'ops': observe(f1), 'duration': ticks(f1.duration), 'n_comps': len(f1.composite_operations)}
                f2 = f1.flatten()
                o1['again'] = {'ops': observe(f2), 'duration': ticks(f2.duration)} == {'ops': o1['ops'], 'duration': o1['duration']}
                return o1
            for key, unroll in (('flat_plain', False), ('flat_unrolled', True)):
                cc = Builder(case).build(case['prog'])
                if unroll:
                    cc = cc.apply_modifiers()
                before = observe(cc)
                try:
                    out[key] = flat_obs(cc)
                    out[key]['before'] = before
                except RecursionError:
                    out[key] = {'recursion_error': True, 'before': before}
        if 'copy' in want:          # C05: explicit copy, implicit copy by nesting, independence in both directions
            def fresh():
                """the circuit to be copied: the built program, or a circuit derived from it (unrolled and/or flattened) when the case asks"""
                d = Builder(case).build(case['prog'])
                for step in case.get('derive', []):
                    d = d.apply_modifiers() if step == 'mods' else d.flatten()
                return d

            def mutate(circ):
                """every kind of in-place change of one side: add at the top, add inside the first nested sub-circuit through its
                handle, unroll, flatten (flatten after unrolling may hit known finding F10 of C11: ignored here)"""
                circ.add(co.Wait(0, duration_strategy=FixedDurationStrategy(1.0)))
                subs = circ.composite_operations
                if subs:
                    subs[0].add(co.Wait(0, duration_strategy=FixedDurationStrategy(2.0)))
                circ.apply_modifiers()
                try:
                    circ.flatten()
                except RecursionError:
                    pass

            def wrap(structure):
                d = DeclarativeCircuit()
                d._structure = structure
                return d
            out['orig'] = {'ops': observe(fresh()), 'duration': 0}
            c1 = fresh()
            out['copy'] = {'ops': observe(wrap(c1.circuit_structure.copy())), 'duration': 0}
            c1b = fresh()
            _ = c1b.operations               # a user lists the circuit (relation hand-off), then copies it
            out['copy_listed'] = {'ops': observe(wrap(c1b.circuit_structure.copy())), 'duration': 0}
            outer = DeclarativeCircuit()
            outer.add(fresh())
            out['nested'] = {'ops': observe(outer), 'duration': 0}
            # mutate the original, watch the copy
            c3 = fresh()
            cp3 = wrap(c3.circuit_structure.copy())
            before = observe(cp3)
            mutate(c3)
            out['copy_unchanged'] = before == observe(cp3)
            # mutate the copy, watch the original
            c4 = fresh()
            cp4 = wrap(c4.circuit_structure.copy())
            before = observe(c4)
            mutate(cp4)
            out['orig_unchanged'] = before == observe(c4)
            # the implicit copy made by nesting through the generic add() -- handed over as a circuit and as its raw structure:
            # nesting leaves the original as it was; mutating the original leaves the parent alone, and the other way round
            for raw in (False, True):
                c5 = fresh()
                outer5 = DeclarativeCircuit()
                outer5.add(co.Wait(0, duration_strategy=FixedDurationStrategy(1.0)))     # something precedes the nested block
                before_orig = observe(c5)
                outer5.add(c5.circuit_structure if raw else c5)
                nesting_left_orig = before_orig == observe(c5)
                before_parent = observe(outer5)
                mutate(c5)
                out['copy_unchanged'] = out['copy_unchanged'] and before_parent == observe(outer5)
                c6 = fresh()
                outer6 = DeclarativeCircuit()
                outer6.add(co.Wait(0, duration_strategy=FixedDurationStrategy(1.0)))
                outer6.add(c6.circuit_structure if raw else c6)
                before_orig6 = observe(c6)
                mutate(outer6)
                out['orig_unchanged'] = out['orig_unchanged'] and nesting_left_orig and before_orig6 == observe(c6)
        if 'cleared' in want:      # diagnostic: same observations with both memo tables cleared before each
            c4 = Builder(case).build(case['prog'])
            clear_caches()
            ops = observe(c4)
            clear_caches()
            out['cleared'] = {'ops': ops, 'duration': ticks(c4.duration)}
            c5 = Builder(case).build(case['prog'])
            clear_caches()
            u = c5.apply_modifiers()
            clear_caches()
            ops = observe(u)
            clear_caches()
            out['cleared_unrolled'] = {'ops': ops, 'duration': ticks(u.duration)}
        clear_caches()
    assert GlobalDurationRegistry.get_registry_at is ORIGINAL_GET
    return out


if __name__ == '__main__':
    main(handle)
