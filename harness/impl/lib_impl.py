"""Implementation driver for library-built circuits (repetition code, multi-round experiment, state calibration):
builds the circuit with the library constructors, extracts its relation graph in TRUE insertion order (recorded by a
monkey-patch of add_to_graph inside this process only) and reports what a user observes before / after unrolling and
flattening."""
import sys, os
sys.path.insert(0, os.path.dirname(os.path.abspath(__file__)))
from driver_base import main
import core_impl
from core_impl import ticks, clear_caches, observe, RTN
from qce_circuit.language.declarative_circuit import DeclarativeCircuit
from qce_circuit.language.intrf_declarative_circuit import InitialStateContainer, InitialStateEnum
from qce_circuit.structure.intrf_circuit_operation import RelationLink, MultiRelationLink
from qce_circuit.structure.intrf_circuit_operation_composite import CircuitCompositeOperation, CircuitGraphBranch
from qce_circuit.structure.registry_duration import (FixedDurationStrategy, GlobalDurationStrategy, GlobalRegistryKey,
                                                      RegistryDurationStrategy, temporary_override_get_registry_at)
from qce_circuit.library.repetition_code.circuit_components import (RepetitionCodeDescription, GlobalDecouplingWaitDurationStrategy)
from qce_circuit.library.repetition_code.circuit_constructors import (construct_repetition_code_circuit,
                                                                        construct_repetition_code_circuit_simplified,
                                                                        construct_repetition_code_multi_round_circuit)
from qce_circuit.library.repetition_code import repetition_code_connectivity as rcc
from qce_circuit.library.state_calibration.circuit_constructors import construct_calibration_circuit
from qce_circuit.library.state_calibration.circuit_components import CalibrationDescription, CalibrateType
from qce_circuit.connectivity.intrf_channel_identifier import QubitIDObj
from qce_circuit.addon_stim import to_stim

# ---------------------------------------------------------------------------------------------- insertion order recorder
ORDER = {}
_orig_add = CircuitGraphBranch.add_to_graph


def _recording_add(graph, operation):
    ORDER.setdefault(id(graph), (graph, []))[1].append(operation)
    return _orig_add(graph=graph, operation=operation)


CircuitGraphBranch.add_to_graph = staticmethod(_recording_add)

STATE = {0: InitialStateEnum.ZERO, 1: InitialStateEnum.ONE}


def dstrat(op):
    s = op.duration_strategy
    if isinstance(s, FixedDurationStrategy):
        return ['fixed', ticks(s.duration)]
    if isinstance(s, GlobalDurationStrategy):
        return ['global', s.key.name]
    if isinstance(s, GlobalDecouplingWaitDurationStrategy):
        return ['decouple']
    if isinstance(s, RegistryDurationStrategy):
        return ['reg', s.registry_key]
    return ['fixed', ticks(op.duration)]      # dynamic strategies: resolved now (assumption recorded by the harness)


def leaf_desc(op):
    if hasattr(op, 'qubit_indices'):
        q = list(op.qubit_indices)
    elif hasattr(op, 'control_qubit_index'):
        q = [op.control_qubit_index, op.target_qubit_index]
    else:
        q = [op.qubit_index]
    d = {'cls': type(op).__name__, 'q': q, 'ch': op.qubit_channel.name if hasattr(op, 'qubit_channel') else None, 'dur': dstrat(op)}
    if hasattr(op, 'acquisition_tag'):
        d['tag'] = op.acquisition_tag
    return d


def extract(comp):
    """model structure (list of nodes in insertion order) of a CircuitCompositeOperation"""
    graph = comp._circuit_graph
    if id(graph) not in ORDER or ORDER[id(graph)][0] is not graph:
        if graph.empty_graph:
            return []
        raise RuntimeError('graph without recorded insertion order')
    ops = ORDER[id(graph)][1]
    index = {id(o): i for i, o in enumerate(ops)}
    nodes = []
    for i, op in enumerate(ops):
        gnode = graph.get_corresponding_node(op)
        parents = [p for p in gnode.incoming_pointers]
        assert len(parents) == 1
        par = parents[0]
        p = None if par is graph.root_node else index[id(par.operation)]
        link = op.relation_link
        if isinstance(link, MultiRelationLink):
            ms = [index[id(m)] for m in link._reference_nodes if id(m) in index]
            l = ['M', ms]
        else:
            ref = link.reference_node
            if ref is None:
                l = None
            elif id(ref) in index:
                l = ['R', RTN[link.relation_type], index[id(ref)]]
            else:
                assert p is None, 'link to an operation outside the graph on a non-root node'
                l = None          # relation handed down by the enclosing sub-circuit while listing
        if isinstance(op, CircuitCompositeOperation):
            o = {'reps': op.nr_of_repetitions, 'nodes': extract(op)}
        else:
            o = leaf_desc(op)
        nodes.append({'p': p, 'l': l, 'op': o})
    return nodes


def description(d):
    if d['src'] == 'chain':
        return RepetitionCodeDescription.from_chain(length=d['length'], qubit_refocusing=d.get('refocus', True))
    layout = getattr(rcc, d['name'])()
    if d['src'] == 'composite':     # a description derived from a base description: excluded gate edges, all layout qubits mapped
        from qce_circuit.library.repetition_code.circuit_components import CompositeRepetitionCodeDescription
        from qce_circuit.connectivity.intrf_channel_identifier import EdgeIDObj
        base = RepetitionCodeDescription.from_connectivity(involved_qubit_ids=[QubitIDObj(x) for x in d['involved']], connectivity=layout,
                                                           qubit_refocusing=d.get('refocus', True))
        return CompositeRepetitionCodeDescription(
            _base_description=base, _qubit_index_map={q: i for i, q in enumerate(layout.qubit_ids)}, _connectivity=layout,
            _exclude_gate_edge_ids=[EdgeIDObj(QubitIDObj(a), QubitIDObj(b)) for a, b in d.get('excl_e', [])])
    kw = {}
    if d.get('index_map') is not None:          # an explicit qubit -> circuit-channel map (hardware channel numbers, in any order)
        kw['qubit_index_map'] = {QubitIDObj(x): int(i) for x, i in zip(d['involved'], d['index_map'])}
    return RepetitionCodeDescription.from_connectivity(involved_qubit_ids=[QubitIDObj(x) for x in d['involved']], connectivity=layout,
                                                       qubit_refocusing=d.get('refocus', True), **kw)


def build(case):
    k = case['k']
    if k in ('repcode', 'simplified', 'multi'):
        desc = description(case['desc'])
        init = InitialStateContainer.from_ordered_list([STATE[b] for b in case['init']],
                                                       [STATE[b] for b in case['anc_init']] if case.get('anc_init') is not None else None)
        if k == 'repcode':
            return construct_repetition_code_circuit(qec_cycles=case['cycles'], description=desc, initial_state=init), desc
        if k == 'simplified':
            return construct_repetition_code_circuit_simplified(qec_cycles=case['cycles'], description=desc, initial_state=init), desc
        return construct_repetition_code_multi_round_circuit(qec_cycles=list(case['rounds']), description=desc, initial_state=init), desc
    if k == 'calib':
        qids = [QubitIDObj(f'D{i}') for i in range(case['n'])]
        desc = CalibrationDescription(_qubit_ids=qids, _qubit_index_map={q: i for i, q in enumerate(qids)}, _type=CalibrateType[case.get('type', 'QUTRIT')])
        return construct_calibration_circuit(description=desc), None
    raise ValueError(k)


def describe(desc):
    """the constructor inputs as the constructors read them off a RepetitionCodeDescription (public accessors only):
    index lists, gate / park layers, active-ancilla lists, refocusing flag (added for LIBBUILD; same shape as
    harness/impl/c09_impl.py describe)"""
    nseq = desc.gate_sequence_count
    nb = []
    for a in desc.detector_qubit_indices:
        g = desc.get_parity_group(element=desc.get_element(index=a))[0]
        nb.append([int(a)] + [int(desc.get_index(q)) for q in g.data_ids])
    return {
        'qubits': [int(i) for i in desc.qubit_indices],
        'prepare': [int(i) for i in desc.prepare_qubit_indices],
        'measure': [int(i) for i in desc.measure_qubit_indices],
        'data': [int(i) for i in desc.data_qubit_indices],
        'ancilla': [int(i) for i in desc.ancilla_qubit_indices],
        'measure_data': [int(i) for i in desc.measure_data_qubit_indices],
        'measure_ancilla': [int(i) for i in desc.measure_ancilla_qubit_indices],
        'rotation_data': [int(i) for i in desc.rotation_data_qubit_indices],
        'rotation_ancilla': [int(i) for i in desc.rotation_ancilla_qubit_indices],
        'detector': [int(i) for i in desc.detector_qubit_indices],
        'observable': [int(i) for i in desc.observable_qubit_indices],
        'calibration': [int(i) for i in desc.calibration_qubit_indices],
        'gates': [[[int(a), int(b)] for a, b in desc.get_gate_sequence_indices(i)] for i in range(nseq)],
        'active': [[int(a) for a in desc.get_active_ancilla_indices(i)] for i in range(nseq)],
        'parks': [[int(a) for a in desc.get_park_sequence_indices(i)] for i in range(nseq)],
        'neighbours': nb,
        'refocus': bool(desc.contains_qubit_refocusing),
    }


def sig(ops):
    return [[type(o).__name__, [[c.id, c.channel.name] for c in o.channel_identifiers]] for o in ops]


def stim_text(c):
    return str(to_stim(c)), str(to_stim(c).flattened())


def acq(c, qubits):
    return {str(q): [int(x) for x in c.get_acquisition_indices(int(q))] for q in qubits}


def handle(case):
    env = {GlobalRegistryKey[k]: v for k, v in case['env'].items()}
    want = case.get('obs', ['structure', 'plain', 'unrolled', 'flat'])
    out = {}
    with temporary_override_get_registry_at(env):
        clear_caches()
        ORDER.clear()
        c, desc = build(case)
        qubits = sorted({ci.id for ci in c.occupied_qubit_channels})
        out['qubits'] = qubits
        if 'structure' in want:
            out['structure'] = extract(c.circuit_structure)
        if 'desc' in want and desc is not None:          # constructor inputs (LIBBUILD); only on request
            out['desc'] = describe(desc)
        if 'plain' in want:
            out['plain'] = {'ops': observe(c), 'duration': ticks(c.duration), 'acq': acq(c, qubits)}
            out['plain']['stim'], out['plain']['stim_flat'] = stim_text(c)
        blocks = []
        if case.get('dur_first'):         # fresh construction, unrolled, duration read BEFORE anything is listed
            u = build(case)[0].apply_modifiers()
            d = ticks(u.duration)
            out['blocks'] = []
            out['unrolled'] = {'ops': observe(u), 'duration': d, 'acq': acq(u, qubits), 'reps': [s.nr_of_repetitions for s in u.composite_operations]}
            out['unrolled']['stim'], out['unrolled']['stim_flat'] = stim_text(u)
        elif 'unrolled' in want or 'flat' in want:
            c2, _ = build(case)
            for b in c2.composite_operations:
                blocks.append((b, b.nr_of_repetitions, sig(b.decomposed_operations())))
            u = c2.apply_modifiers()
            out['blocks'] = [{'n': n, 'S': s, 'U': sig(b.decomposed_operations())} for b, n, s in blocks if n != 1]
            out['unrolled'] = {'ops': observe(u), 'duration': ticks(u.duration), 'acq': acq(u, qubits),
                               'reps': [s.nr_of_repetitions for s in u.composite_operations]}
            out['unrolled']['stim'], out['unrolled']['stim_flat'] = stim_text(u)
            if 'flat' in want:
                try:
                    f = u.flatten()
                    out['flat'] = {'ops': observe(f), 'duration': ticks(f.duration), 'acq': acq(f, qubits),
                                   'n_comps': len(f.composite_operations)}
                    out['flat']['stim'], out['flat']['stim_flat'] = stim_text(f)
                except RecursionError:
                    out['flat'] = {'recursion_error': True}
        clear_caches()
    return out


if __name__ == '__main__':
    main(handle)
