"""C15 implementation driver.

'rec' cases: PlatformManager.construct_program / construct_kernel are replaced (inside this process only) by recording
doubles; every API call is logged in call order (programs and kernels numbered in creation order) and the resulting
program structure (items in the order added, kernel calls) is returned.  Names are translated to the symbolic form of the
model: "sub_"*n + ("program_"+h | circuit_id), "kernel_"+h, where h is recognised as the uuid5 prefix of the class-name
sequence of one of the circuit's (sub-)listings; anything else is returned raw.

'real' cases: nothing is patched; to_openql runs against the real OpenQL platform, then Program.compile(); the gates of the
written cQASM are returned, or the error class ('dup' for OpenQL's "duplicate kernel name")."""
import sys, os, re, uuid
sys.path.insert(0, os.path.dirname(os.path.abspath(__file__)))
from driver_base import main
import listing_lib as lib
from qce_circuit.addon_openql.platform_manager import PlatformManager
from qce_circuit.addon_openql.factory_manager import to_openql

ORIG_PROGRAM = PlatformManager.__dict__['construct_program']
ORIG_KERNEL = PlatformManager.__dict__['construct_kernel']


class Recorder:
    def __init__(self):
        self.events, self.programs, self.kernels = [], [], []


REC = None


def qlist(x):
    if isinstance(x, (list, tuple)):
        return [int(v) for v in x]
    return [int(x)]


class RecKernel:
    def __init__(self, name):
        self.name, self.calls, self.idx = name, [], len(REC.kernels)
        REC.kernels.append(self)
        REC.events.append(['K', name])

    def _log(self, call):
        self.calls.append(call)
        REC.events.append(['c', self.idx, call])

    def gate(self, *args, **kw):
        assert len(args) == 2 and not kw and isinstance(args[0], str), ('gate', args, kw)
        self._log(['gate', args[0], qlist(args[1])])

    def cz(self, *args, **kw):
        assert len(args) == 2 and not kw and all(isinstance(a, int) for a in args), ('cz', args, kw)
        self._log(['cz', int(args[0]), int(args[1])])

    def barrier(self, *args, **kw):
        assert len(args) == 1 and not kw and isinstance(args[0], (list, tuple)), ('barrier', args, kw)
        self._log(['barrier', qlist(args[0])])

    def wait(self, *args, **kw):
        assert not args and set(kw) == {'qubits', 'duration'} and isinstance(kw['duration'], int), ('wait', args, kw)
        self._log(['wait', qlist(kw['qubits']), int(kw['duration'])])

    def __getattr__(self, item):
        raise AttributeError('recording kernel: unexpected API call %s' % item)


class RecProgram:
    def __init__(self, name):
        self.name, self.items, self.idx = name, [], len(REC.programs)
        REC.programs.append(self)
        REC.events.append(['P', name])

    def add_program(self, p):
        assert isinstance(p, RecProgram)
        self.items.append(p)
        REC.events.append(['ap', self.idx, p.idx])

    def add_kernel(self, k):
        assert isinstance(k, RecKernel)
        self.items.append(k)
        REC.events.append(['ak', self.idx, k.idx])

    def __getattr__(self, item):
        raise AttributeError('recording program: unexpected API call %s' % item)


def patch(on):
    if on:
        PlatformManager.construct_program = classmethod(lambda cls, name: RecProgram(name))
        PlatformManager.construct_kernel = classmethod(lambda cls, name: RecKernel(name))
    else:
        PlatformManager.construct_program = ORIG_PROGRAM
        PlatformManager.construct_kernel = ORIG_KERNEL


# ------------------------------------------------------------------------------------------- symbolic names
def listing_keys(tree):
    """class-name sequences of the listing and of every sub-listing: uuid prefix -> sequence"""
    out = {}

    def leaves(t):
        r = []
        for x in t:
            r += leaves(x['body']) if 'body' in x else [x['op']]
        return r

    def go(t):
        seq = leaves(t)
        out[str(uuid.uuid5(uuid.NAMESPACE_DNS, "_".join(seq)))[:8]] = seq
        for x in t:
            if 'body' in x:
                go(x['body'])
    go(tree)
    return out


def sym_pname(name, keys, cid):
    n = 0
    while name.startswith('sub_'):
        name, n = name[4:], n + 1
    if cid is not None and name == cid:
        return {'nsub': n, 'id': cid}
    m = re.fullmatch(r'program_([0-9a-f]{8})', name)
    if m and m.group(1) in keys:
        return {'nsub': n, 'key': keys[m.group(1)]}
    return {'nsub': 0, 'id': 'RAW:' + ('sub_' * n) + name}


def sym_kname(name, keys):
    m = re.fullmatch(r'kernel_([0-9a-f]{8})', name)
    if m and m.group(1) in keys:
        return {'key': keys[m.group(1)]}
    return {'raw': name}


def struct_json(p, keys, cid):
    items = []
    for it in p.items:
        if isinstance(it, RecProgram):
            items.append({'sub': struct_json(it, keys, cid)})
        else:
            items.append({'kernel': sym_kname(it.name, keys), 'calls': it.calls})
    return {'name': sym_pname(p.name, keys, cid), 'items': items}


def record(case):
    global REC
    lib.clear()
    circuit = lib.build(case['prog'])
    tree = lib.tree_json(circuit.circuit_structure)
    REC = Recorder()
    patch(True)
    try:
        top = to_openql(circuit, circuit_id=case.get('cid'))
    finally:
        patch(False)
    assert lib.tree_json(circuit.circuit_structure) == tree, 'export changed the listing'
    assert top is REC.programs[0]
    return tree, REC, top


def handle_rec(case):
    try:
        tree, rec, top = record(case)
    except AssertionError:
        raise
    except Exception as e:
        lib.clear()
        tree = lib.tree_json(lib.build(case['prog']).circuit_structure)
        return {'tree': tree, 'error': type(e).__name__, 'msg': str(e)[:160]}
    keys = listing_keys(tree)
    cid = case.get('cid')
    evs = []
    for e in rec.events:
        if e[0] == 'P':
            evs.append(['P', sym_pname(e[1], keys, cid)])
        elif e[0] == 'K':
            evs.append(['K', sym_kname(e[1], keys)])
        else:
            evs.append(e)
    names1 = [e[1] for e in rec.events if e[0] in ('P', 'K')]
    tree2, rec2, _ = record(case)                 # an independent second build of the same program
    assert tree2 == tree
    names2 = [e[1] for e in rec2.events if e[0] in ('P', 'K')]
    return {'tree': tree, 'struct': struct_json(top, keys, cid), 'events': evs, 'names1': names1, 'names2': names2}


# ------------------------------------------------------------------------------------------- real platform
class Quiet:
    """OpenQL logs from C++ straight to fd 1/2: keep the result channel clean."""

    def __enter__(self):
        sys.stdout.flush()
        self.saved = [os.dup(1), os.dup(2)]
        self.null = os.open(os.devnull, os.O_WRONLY)
        os.dup2(self.null, 1)
        os.dup2(self.null, 2)

    def __exit__(self, *a):
        os.dup2(self.saved[0], 1)
        os.dup2(self.saved[1], 2)
        for fd in self.saved + [self.null]:
            os.close(fd)


QASM_NAMES = {'prep_z': 'prepz'}


def parse_qasm(path):
    gates = []
    for line in open(path):
        line = line.split('#')[0].strip()
        if not line or line.startswith(('version', 'pragma', '.', 'qubits', 'skip', '{', '}')):
            continue
        m = re.fullmatch(r'([a-z_0-9]+)\s+(.*)', line)
        assert m, line
        name, rest = m.group(1), m.group(2)
        qs = [int(x) for x in re.findall(r'q\[(\d+)\]', rest)]
        if name in ('barrier', 'wait'):
            continue
        gates.append([QASM_NAMES.get(name, name), qs])
    return gates


def handle_real(case):
    import openql as ql
    lib.clear()
    circuit = lib.build(case['prog'])
    tree = lib.tree_json(circuit.circuit_structure)
    cid = 'verif_c15_%d_%s' % (os.getpid(), case['tag'])
    out_dir = None
    with Quiet():
        try:
            program = to_openql(circuit, circuit_id=cid)
            ql.set_option('log_level', 'LOG_NOTHING')
            program.compile()
            out_dir = str(PlatformManager.openql_output_directory())
            res = {'tree': tree, 'qasm': parse_qasm(os.path.join(out_dir, cid + '.qasm'))}
        except Exception as e:
            msg = str(e)
            res = {'tree': tree, 'error': 'dup' if 'duplicate kernel name' in msg else type(e).__name__, 'msg': msg[:160]}
    if out_dir:
        for f in os.listdir(out_dir):
            if f.startswith(cid):
                os.remove(os.path.join(out_dir, f))
    return res


def handle(case):
    return handle_real(case) if case['k'] == 'real' else handle_rec(case)


main(handle)
