"""Build-program generator and Coq printers shared by the Core properties (C01, C02, C04, C05, C06, C11)."""
from common import cz, cbool, clist, copt

CHN = ['READOUT', 'MICROWAVE', 'FLUX', 'ALL']
# documented default duration strategy per class (independent of the implementation: used to build the model program)
GLOBAL = {'Reset': 'RESET', 'Identity': 'MICROWAVE', 'Hadamard': 'MICROWAVE', 'Rx180': 'MICROWAVE', 'Rx90': 'MICROWAVE',
          'Rxm90': 'MICROWAVE', 'Ry180': 'MICROWAVE', 'Ry90': 'MICROWAVE', 'Rym90': 'MICROWAVE', 'Rx180ef': 'MICROWAVE',
          'VirtualPhase': 'MICROWAVE', 'Rphi90': 'MICROWAVE', 'VirtualPark': 'FLUX', 'CPhase': 'FLUX', 'DispersiveMeasure': 'READOUT'}
FIXED = {'Barrier': 0.5, 'TwoQubitVirtualPhase': 0.0, 'CoordinateShiftOperation': 0.0, 'DetectorOperation': 0.0,
         'LogicalObservableOperation': 0.0}
PARAM_DUR = ['SingleQubitOperation', 'Wait', 'VirtualVacant', 'VirtualEmpty', 'TwoQubitOperation', 'VirtualTwoQubitVacant']
import os, sys
sys.path.insert(0, os.path.join(os.path.dirname(os.path.dirname(os.path.abspath(__file__))), 'tools', 'translate'))
import gen_classes
from common import REPO


def class_ids():
    """class name -> index in Gen.Classes.class_table (same generator run as build/Gen/Classes.v)"""
    try:
        return {c['name']: i for i, c in enumerate(gen_classes.table(REPO))}
    except Exception:
        # the translator no longer recognises the class file (reported by the check as a broken tie): keep searching for a failing
        # input with the class numbering of the last generated table, against which the model is still compiled
        import re
        from common import ROOT
        try:
            names = re.findall(r'cs_name := "([A-Za-z0-9_]+)"', open(f"{ROOT}/build/Gen/Classes.v").read())
            return {n: i for i, n in enumerate(names)}
        except Exception:
            return {}


CLS_ID = class_ids()
CLASSES = sorted(set(GLOBAL) | set(FIXED) | set(PARAM_DUR))
TWO_Q = ['TwoQubitOperation', 'CPhase', 'TwoQubitVirtualPhase', 'VirtualTwoQubitVacant']
MULTI_Q = ['Barrier', 'CoordinateShiftOperation']
HAS_CH = ['Wait', 'VirtualVacant', 'VirtualEmpty', 'VirtualTwoQubitVacant']
NO_REL_ARG = ['Barrier', 'CoordinateShiftOperation']           # relation is not an __init__ argument
GK = {'READOUT': 'GReadout', 'MICROWAVE': 'GMicrowave', 'FLUX': 'GFlux', 'RESET': 'GReset'}
RTY = {'F': 'RelationType_FOLLOWED_BY', 'S': 'RelationType_JOINED_START', 'E': 'RelationType_JOINED_END'}
DURS = [0.0, 0.25, 0.5, 1.0, 2.0, 3.0, 5.0]
WEIGHTED = (['Wait'] * 5 + ['Rx180'] * 4 + ['CPhase'] * 4 + ['DispersiveMeasure'] * 4 + ['Barrier'] * 4 + ['Reset'] * 2
            + ['SingleQubitOperation'] * 2 + ['TwoQubitOperation'] * 2 + ['VirtualPark'] * 2 + ['TwoQubitVirtualPhase'] * 2
            + ['VirtualVacant', 'VirtualEmpty', 'VirtualTwoQubitVacant', 'Hadamard', 'Ry90', 'Rym90', 'Identity', 'VirtualPhase',
               'Rphi90', 'Rx90', 'Rxm90', 'Ry180', 'Rx180ef', 'CoordinateShiftOperation', 'DetectorOperation',
               'LogicalObservableOperation'])


def t8(x):
    t = x * 8
    assert t == int(t), x
    return int(t)


# ------------------------------------------------------------------------------------------------ generation
def gen_leaf(rng, nq, n_entries, classes=None, p_rel=0.40, p_dangling=0.05, reg_keys=None):
    cls = rng.choice(classes or WEIGHTED)
    c = {'t': 'leaf', 'cls': cls}
    if cls in TWO_Q:
        if nq < 2:
            return gen_leaf(rng, nq, n_entries, ['Wait', 'Rx180', 'DispersiveMeasure'], p_rel, p_dangling, reg_keys)
        a = rng.randrange(nq)
        b = rng.choice([x for x in range(nq) if x != a])
        c['q'] = [a, b]
    elif cls in MULTI_Q:
        k = rng.randint(1, nq)
        c['q'] = sorted(rng.sample(range(nq), k))
        r = rng.random()
        if r < 0.25:
            rng.shuffle(c['q'])                       # a qubit list in arbitrary order
        elif r < 0.33:
            c['q'] = c['q'] + [rng.choice(c['q'])]     # ... or naming a qubit twice
    else:
        c['q'] = [rng.randrange(nq)]
    if cls in PARAM_DUR:
        if reg_keys and rng.random() < 0.15:
            c['dur'] = ['reg', rng.choice(reg_keys)]
        else:
            c['dur'] = ['fixed', rng.choice(DURS)]
    if cls in HAS_CH:
        c['ch'] = rng.choice(CHN)
    if cls == 'DispersiveMeasure':
        c['tag'] = rng.choice(['', 'a', 'b'])
    if cls == 'DetectorOperation':
        full = rng.random() < 0.5
        c['args'] = [rng.randint(3, 6), rng.randint(0, 2), rng.randint(0, 2), rng.randint(1, 3), rng.randint(1, 3)] if full else \
                    [rng.randint(1, 4), rng.randint(0, 1), rng.choice([None, 0]), None, None]
    if cls == 'LogicalObservableOperation':
        c['args'] = [rng.randint(1, 4), rng.randint(0, 1)]
    if cls == 'CoordinateShiftOperation':
        c['args'] = [rng.randint(0, 2), rng.randint(0, 2)]
    c['rel'] = None
    if cls not in NO_REL_ARG:
        r = rng.random()
        if r < p_dangling:
            c['rel'] = ['dangling', rng.choice('FSE')]
        elif r < p_dangling + p_rel and n_entries > 0:
            c['rel'] = [rng.choice('FSE'), rng.randrange(n_entries)]
    return c


P_EMPTY_SUB = 0.08


def gen_prog(rng, nq, depth, maxlen, p_sub=0.18, reps=(1, 1, 2, 2, 3), **kw):
    n = rng.randint(1, maxlen)
    prog = []
    for _ in range(n):
        if depth > 0 and rng.random() < p_sub:
            if rng.random() < P_EMPTY_SUB:      # an EMPTY sub-circuit: occupies no channel, lists nothing, may still be referred to
                # ... directly empty, or holding nothing but (possibly repeated) empty sub-circuits
                body = [{'t': 'sub', 'reps': rng.choice(reps), 'body': []} for _ in range(rng.randint(1, 2))] if rng.random() < 0.4 else []
                prog.append({'t': 'sub', 'reps': rng.choice(reps), 'body': body})
                continue
            prog.append({'t': 'sub', 'reps': rng.choice(reps), 'body': gen_prog(rng, nq, depth - 1, max(1, maxlen // 2), p_sub, reps, **kw)})
        else:
            prog.append(gen_leaf(rng, nq, len(prog), **kw))
    return prog


def gen_env(rng):
    vals = [0.25, 0.5, 1.0, 1.0, 2.0, 2.0, 3.0, 5.0]
    return {k: rng.choice(vals) for k in ('READOUT', 'MICROWAVE', 'FLUX', 'RESET')}


def _w(q, d, ch='ALL', rel=None):
    return {'t': 'leaf', 'cls': 'Wait', 'q': [q], 'dur': ['fixed', d], 'ch': ch, 'rel': rel}


def _g(cls, q, rel=None, **kw):
    c = {'t': 'leaf', 'cls': cls, 'q': q if isinstance(q, list) else [q], 'rel': rel}
    c.update(kw)
    return c


def gen_structured(rng):
    """Shapes that uniform random generation meets rarely and that several regressions needed to manifest (DESIGN.md section 10):
    parallel first blocks of unequal length inside a repeated block inside a repeated block, with an operation that follows the first
    of them; a repeated block that starts with a plain operation and contains a repeated block; two relation branches of unequal
    depth and length that meet through a barrier; a long chain beside a short operation followed by a repeated two-qubit-wide block;
    an operation JOINED_END to a shorter one inside a doubly nested block that ends last."""
    ds = [0.25, 0.5, 1.0, 2.0, 3.0, 5.0]
    shape = rng.choice(['parallel', 'parallel', 'plain-first', 'two-branch', 'chain-then-block', 'early-start', 'placeholder', 'uneven-leaves', 'channel-block'])
    if shape == 'parallel':
        da, db = rng.sample(ds, 2)
        blocks = [{'t': 'sub', 'reps': rng.choice([1, 1, 2]), 'body': [_w(0, da)] * rng.randint(1, 2)},
                  {'t': 'sub', 'reps': rng.choice([1, 1, 2]), 'body': [_w(1, db)] * rng.randint(1, 3)}]
        if rng.random() < 0.3:
            blocks.append({'t': 'sub', 'reps': 1, 'body': [_g('Rx180', 2)]})
        tail = []
        r = rng.random()
        if r < 0.4:
            tail.append(_w(rng.choice([0, 2, 3]), rng.choice(ds), rel=[rng.choice('FFSE'), 0]))       # explicitly after the FIRST block
        elif r < 0.7:
            tail.append(_g('Rx90', 0))                                                                # implicitly after the first block
        if rng.random() < 0.5:
            tail.append(_g(rng.choice(['DispersiveMeasure', 'Ry90']), rng.choice([0, 1]), **({})))
        for t in tail:
            if t['cls'] == 'DispersiveMeasure':
                t['tag'] = ''
        inner = {'t': 'sub', 'reps': rng.choice([1, 2, 2, 3]), 'body': blocks + tail}
        body = ([_g('Rx180', rng.choice([0, 1]))] if rng.random() < 0.3 else []) + [inner] + ([_w(0, 1.0)] if rng.random() < 0.3 else [])
        prog = [{'t': 'sub', 'reps': rng.choice([1, 2, 2, 3]), 'body': body}] if rng.random() < 0.7 else body
    elif shape == 'plain-first':
        q = 0
        inner = {'t': 'sub', 'reps': rng.choice([2, 2, 3]), 'body': [_w(q, rng.choice(ds))] * rng.randint(1, 2)}
        body = [_w(q, rng.choice(ds))] + ([_g('Rx180', 1)] if rng.random() < 0.4 else []) + [inner]
        prog = [{'t': 'sub', 'reps': rng.choice([2, 3, 3, 4]), 'body': body}, _w(q, 1.0)]
        if rng.random() < 0.3:
            prog = [{'t': 'sub', 'reps': 1, 'body': prog}]
    elif shape == 'two-branch':
        prog = []
        n1 = rng.randint(1, 3)
        for br, (n, dd) in ((1, (n1, [5.0, 3.0])), (2, (n1 + rng.randint(1, 4), [0.25, 0.5, 1.0]))):
            prog += [_w(br, rng.choice(dd)) for _ in range(n)] + [_g('Barrier', sorted([0, br]))]
            prog += [_g(rng.choice(['DispersiveMeasure', 'Rx180', 'Wait']), 0)]
        for t in prog:
            if t['cls'] == 'DispersiveMeasure':
                t['tag'] = ''
            if t['cls'] == 'Wait' and 'dur' not in t:
                t.update(dur=['fixed', 1.0], ch='ALL')
        if rng.random() < 0.4:
            prog = [{'t': 'sub', 'reps': rng.choice([1, 2]), 'body': prog}]
    elif shape == 'chain-then-block':
        n = rng.choice([2, 3, 6, 7])
        head = [_g('Rx180', 0) for _ in range(n)] + [_w(1, rng.choice([0.5, 1.0]))]
        block = {'t': 'sub', 'reps': rng.choice([2, 3]), 'body': [_g('Rx90', 0), _w(1, rng.choice([3.0, 5.0]))] + ([_g('Ry90', 2)] if rng.random() < 0.4 else [])}
        prog = ([{'t': 'sub', 'reps': 1, 'body': head}] if rng.random() < 0.5 else head) + [block]
    elif shape == 'placeholder':
        # three or more chains of different length on different qubits, then an operation that occupies NO channel (an empty
        # sub-circuit), then operations related to it
        lens = rng.sample([1, 2, 3, 4], rng.randint(3, 4))
        prog = []
        for q, n in enumerate(lens):
            prog += [_g(rng.choice(['Rx180', 'Ry90', 'Identity']), q) for _ in range(n)]
        rng.shuffle(prog)
        ph = len(prog)
        prog.append({'t': 'sub', 'reps': rng.choice([1, 1, 2]),
                     'body': [{'t': 'sub', 'reps': rng.choice([1, 2]), 'body': []}] if rng.random() < 0.4 else []})
        prog.append(_g('Identity', rng.randrange(len(lens)), rel=[rng.choice('SFE'), ph]))
        if rng.random() < 0.5:
            prog.append(_w(rng.randrange(len(lens)), 1.0, rel=[rng.choice('SF'), ph]))
        if rng.random() < 0.4:
            prog = [{'t': 'sub', 'reps': 1, 'body': prog}]
    elif shape == 'uneven-leaves':
        # a repeated block with two or three first operations on different qubits whose chains have DIFFERENT depths (the next round's
        # first operations follow the whole group: each must be listed after the deepest member), optionally closed by a two-qubit gate
        n0 = rng.randint(2, 4)
        body = [_g(rng.choice(['Rx180', 'Ry90']), 0) for _ in range(n0)] + [_g('Rx180', 1)]
        if rng.random() < 0.4:
            body += [_g('Ry90', 2)] * rng.randint(1, 2)
        rng.shuffle(body)
        if rng.random() < 0.3:
            body.append(_g('CPhase', [0, 1]))
            body.append(_g('Rx180', 2))
        prog = [{'t': 'sub', 'reps': rng.choice([2, 2, 3]), 'body': body}] + ([_g('Rx180', rng.choice([0, 1]))] if rng.random() < 0.5 else [])
        if rng.random() < 0.3:
            prog = [_g('Ry90', 1)] + prog
    elif shape == 'channel-block':
        # a block holding a wait on ONE channel of a qubit, then relation-free operations on other channels of that qubit (they share
        # no channel with the block and start at the circuit start) and on the same channel (they follow the block)
        chans = ['FLUX', 'MICROWAVE', 'READOUT']
        c0 = rng.choice(chans)
        block = {'t': 'sub', 'reps': rng.choice([1, 2]), 'body': [_w(0, rng.choice(ds), ch=c0)] + ([_w(1, 1.0)] if rng.random() < 0.4 else [])}
        tail = [_g(rng.choice(['Rx180', 'DispersiveMeasure', 'VirtualPark']), 0), _w(0, rng.choice(ds), ch=rng.choice(chans))]
        for t in tail:
            if t['cls'] == 'DispersiveMeasure':
                t['tag'] = ''
        rng.shuffle(tail)
        prog = [block] + tail
        if rng.random() < 0.4:
            prog = [{'t': 'sub', 'reps': rng.choice([1, 2]), 'body': prog}]
    else:   # early-start: an operation that starts before the first operation of a doubly nested block which ends last
        a = _w(0, 1.0)
        b = _w(1, rng.choice([2.0, 3.0, 5.0]), rel=['E', 0])
        inner = {'t': 'sub', 'reps': 1, 'body': [a, b]}
        mid = {'t': 'sub', 'reps': rng.choice([1, 2]), 'body': ([_w(0, 0.5)] if rng.random() < 0.5 else []) + [inner]}
        prog = [mid, _w(0, 1.0)] + ([_g('Rx180', 1, rel=[rng.choice('FE'), 0])] if rng.random() < 0.5 else [])
    import json as _json
    return {'prog': _json.loads(_json.dumps(prog)), 'env': gen_env(rng), 'reg': {'k0': rng.choice(DURS), 'k1': rng.choice(DURS)}, 'shape': shape}


def gen_case(rng, maxlen=10, depth=2, **kw):
    nq = rng.randint(1, 4)
    reg = {f"k{i}": rng.choice(DURS) for i in range(2)}
    return {'prog': gen_prog(rng, nq, depth, maxlen, reg_keys=list(reg), **kw), 'env': gen_env(rng), 'reg': reg}


def n_leaves(prog):
    return sum(n_leaves(c['body']) if c['t'] == 'sub' else 1 for c in prog)


def has_sub(prog):
    return any(c['t'] == 'sub' for c in prog)


def has_multi(prog):
    return any(c['t'] == 'leaf' and c.get('rel') and c['rel'][0] == 'multi' for c in prog)


def has_rel(prog):
    return any((c['t'] == 'sub' and has_rel(c['body'])) or (c['t'] == 'leaf' and c.get('rel')) for c in prog)


def shares_channel(prog):
    qs = []
    for c in prog:
        if c['t'] == 'sub':
            if shares_channel(c['body']):
                return True
            continue
        if set(c['q']) & set(qs):
            return True
        qs += c['q']
    return False


def nontrivial(case):
    p = case['prog']
    return n_leaves(p) >= 2 and (has_sub(p) or has_rel(p) or shares_channel(p))


def max_reps(prog):
    return max([1] + [max(c['reps'], max_reps(c['body'])) for c in prog if c['t'] == 'sub'])


# ------------------------------------------------------------------------------------------------ Coq printing
def c_chan(ch):
    return f"(ch {cz(ch[0])} QubitChannel_{ch[1]})"


def c_dstrat(c, reg_ids):
    cls = c['cls']
    if cls in GLOBAL:
        return f"(DGlobal {GK[GLOBAL[cls]]})"
    if cls in FIXED:
        return f"(DFixed {cz(t8(FIXED[cls]))})"
    d = c.get('dur') or ['fixed', 0.0]
    if d[0] == 'fixed':
        return f"(DFixed {cz(t8(d[1]))})"
    return f"(DRegistry {cz(reg_ids[d[1]])})"


TAGS = {'': 0, 'a': 1, 'b': 2}


def c_leaf_term(c, reg_ids, lab):
    """Coq term of type Core.Model.leaf for a leaf command"""
    acq = copt((c['q'][0], TAGS[c.get('tag', '')]), lambda v: f"({cz(v[0])}, {cz(v[1])})") if c['cls'] == 'DispersiveMeasure' else 'None'
    return (f"(mk_leaf {cz(lab)} {cz(CLS_ID[c['cls']])} {clist([cz(q) for q in c['q']])} QubitChannel_{c.get('ch') or 'ALL'} "
            f"{c_dstrat(c, reg_ids)} {acq})")


def c_prog(prog, leafinfo, reg_ids, counter):
    """Coq term of type `list cmd`; leafinfo (optional) = classes reported by the implementation at construction, in pre-order."""
    items = []
    for c in prog:
        if c['t'] == 'sub':
            items.append(f"(CSub {cz(c['reps'])} {c_prog(c['body'], leafinfo, reg_ids, counter)})")
            continue
        lab = counter[0]
        counter[0] += 1
        if leafinfo is not None:
            assert leafinfo[lab]['cls'] == c['cls']
        leaf = c_leaf_term(c, reg_ids, lab)
        r = c.get('rel')
        if r is None:
            items.append(f"(CAdd {leaf} None)")
        elif r[0] == 'dangling':
            items.append(f"(CDangling {leaf} {RTY[r[1]]})")
        else:
            items.append(f"(CAdd {leaf} (Some ({RTY[r[0]]}, {r[1]}%nat)))")
    return clist(items)


def c_env(case):
    e = case['env']
    reg = case.get('reg', {})
    reg_ids = {k: i for i, k in enumerate(sorted(reg))}
    pairs = clist([f"({cz(reg_ids[k])}, {cz(t8(reg[k]))})" for k in sorted(reg)])
    return f"(mk_env {cz(t8(e['READOUT']))} {cz(t8(e['MICROWAVE']))} {cz(t8(e['FLUX']))} {cz(t8(e['RESET']))} {pairs})", reg_ids


def c_sig_str(s):
    return '"' + s.replace('"', '""') + '"%string'


def c_oentry(o):
    r = o.get('rel')
    rel = 'None' if r is None else f"(Some ({RTY[r['t']]}, {cz(r['rs'])}, {cz(r['re'])}))"
    tag = TAGS.get(o.get('tag'), -1) if 'tag' in o else -1
    return (f"{{| oe_cls := {cz(CLS_ID[o['cls']])}; oe_chans := {clist([c_chan(x) for x in o['ch']])}; oe_s := {cz(o['s'])}; "
            f"oe_e := {cz(o['e'])}; oe_d := {cz(o['d'])}; oe_rel := {rel}; oe_tag := {cz(tag)}; oe_cmd := {cz(o.get('cmd', -1))}; "
            f"oe_refpos := {cz(r['ref_pos'] if r else -1)}; oe_multi := {clist(['(%s, %s)' % (cz(a), cz(b)) for a, b in (r or {}).get('multi', [])])}; "
            f"oe_sig := {c_sig_str(o.get('sig', ''))} |}}")


def c_obs(ob):
    if ob is None:
        return 'None'
    comps = clist([f"{{| oc_s := {cz(x['s'])}; oc_d := {cz(x['d'])}; oc_n := {cz(x['n'])}; oc_lo := {cz(x['lo'])}; oc_hi := {cz(x['hi'])}; oc_first := {cz(x['first'])} |}}"
                   for x in ob.get('comps', [])])
    return f"(Some {{| o_ops := {clist([c_oentry(o) for o in ob['ops']])}; o_duration := {cz(ob['duration'])}; o_comps := {comps} |}})"


IMPOSSIBLE = ("{| c_prog := []; c_env := mk_env 0 0 0 0 []; c_plain := Some {| o_ops := []; o_duration := 1; o_comps := [] |}; "
              "c_plain_dur_first := None; c_unrolled := None; c_unrolled_twice := None; c_unrolled_dur_first := None; c_stable := false; c_reps_after := []; c_top_ref := [] |}")


def c_case(case, out):
    """Coq term of type Core.Run.case.  An implementation error (exception) is encoded as an impossible observation."""
    if 'error' in out or any(isinstance(out.get(k), dict) and 'error' in out[k] for k in out):
        return IMPOSSIBLE
    env, reg_ids = c_env(case)
    prog = c_prog(case['prog'], out['leafinfo'], reg_ids, [0])
    reps_after = clist([cz(x) for x in (out.get('unrolled') or {}).get('reps', [])])
    return (f"{{| c_prog := {prog}; c_env := {env}; c_plain := {c_obs(out.get('plain'))}; "
            f"c_plain_dur_first := {c_obs(out.get('plain_dur_first'))}; c_unrolled := {c_obs(out.get('unrolled'))}; "
            f"c_unrolled_twice := {c_obs(out.get('unrolled_twice'))}; c_unrolled_dur_first := {c_obs(out.get('unrolled_dur_first'))}; "
            f"c_stable := {cbool((out.get('plain') or {}).get('again', True))}; c_reps_after := {reps_after}; "
            f"c_top_ref := {clist([cz(x) for x in out.get('top_ref', [])])} |}}")


def fixed_structured():
    """small deterministic cases of shapes that seeded changes needed (run by C01, C02, C06 on every check)"""
    env = {'READOUT': 2.0, 'MICROWAVE': 1.0, 'FLUX': 1.0, 'RESET': 2.0}
    x = lambda q: _g('Rx180', q)
    progs = [
        # a repeated block whose first operations sit on chains of different depth: the next round follows the whole group
        [{'t': 'sub', 'reps': 2, 'body': [x(0), x(0), x(0), x(1)]}],
        [{'t': 'sub', 'reps': 2, 'body': [x(1), x(0), x(0), x(0)]}],
        [{'t': 'sub', 'reps': 3, 'body': [x(0), x(0), x(1), _g('CPhase', [0, 1])]}, x(1)],
        # a wait on one channel of a qubit inside a (copied) block, then a relation-free gate on another channel of that qubit
        [{'t': 'sub', 'reps': 1, 'body': [_w(0, 4.0, ch='FLUX')]}, x(0)],
        [{'t': 'sub', 'reps': 2, 'body': [_w(0, 3.0, ch='READOUT'), _w(0, 1.0, ch='FLUX')]}, x(0), _w(0, 1.0, ch='FLUX')],
    ]
    import json as _json
    return [{'prog': _json.loads(_json.dumps(p)), 'env': dict(env), 'reg': {'k0': 1.0, 'k1': 2.0}, 'shape': 'fixed'} for p in progs]


# ------------------------------------------------------------------------------------------------ observation after a change of settings
def gen_after_change(rng, n, gen):
    """Cases whose ONLY observation is made after the duration settings changed (driver: obs 'after_change')."""
    cases = []
    # C04 under a history: the unrolled circuit is listed and its durations are read, THEN the duration settings change (global
    # durations rotated, registry durations permuted; for a third of the cases all registry durations sit near 10^6 and move by
    # a few units), and the circuit is observed again.  Encoded as a case whose settings are the NEW ones and whose only
    # observation is that last one: the tie compares it with the model of a fresh circuit under the new settings.
    for i in range(n):
        c = gen_structured(rng) if i % 4 == 3 else gen()
        c['obs'] = ['after_change']
        e = c['env']
        ks = sorted(e)
        c['env2'] = dict(e) if i % 2 else {k: e[ks[(j + 1) % len(ks)]] for j, k in enumerate(ks)}
        reg = dict(c.get('reg', {}))
        if i % 3 == 0:
            reg = {k: 1000000.0 + v for k, v in reg.items()}
            c['reg'] = reg
        rk = sorted(reg)
        c['reg2'] = {k: reg[rk[(j + 1) % len(rk)]] + (0.0 if len(rk) > 1 and reg[rk[(j + 1) % len(rk)]] != reg[k] else 3.0)
                     for j, k in enumerate(rk)}
        if i % 5 == 1:
            c['late_reg'] = True         # registry durations are set for the FIRST time by the change
        cases.append(c)
    # fixed: a repeated body that starts with a nested block beside a registry-timed wait; the change flips which of the two ends
    # last (in both directions), so whatever follows the round must follow the OTHER member afterwards
    for before, after in ((10.0, 1.0), (1.0, 10.0)):
        for reps in (2, 3):
            body = [{'t': 'sub', 'reps': 1, 'body': [_g('Rx180', 0)]},
                    dict(_w(1, 1.0), dur=['reg', 'k0'])]
            cases.append({'prog': [{'t': 'sub', 'reps': reps, 'body': body}], 'obs': ['after_change'],
                          'env': {'READOUT': 2.0, 'MICROWAVE': 4.0, 'FLUX': 1.0, 'RESET': 2.0},
                          'env2': {'READOUT': 2.0, 'MICROWAVE': 4.0, 'FLUX': 1.0, 'RESET': 2.0},
                          'reg': {'k0': before, 'k1': 2.0}, 'reg2': {'k0': after, 'k1': 2.0}})
    # fixed: a registry-timed wait with a follower; the key is set for the first time after times were read
    cases.append({'prog': [dict(_w(0, 1.0), dur=['reg', 'k0']), _g('Rx180', 0), _g('Rx180', 1)],
                  'obs': ['after_change'], 'late_reg': True,
                  'env': {'READOUT': 2.0, 'MICROWAVE': 2.0, 'FLUX': 1.0, 'RESET': 2.0},
                  'env2': {'READOUT': 2.0, 'MICROWAVE': 2.0, 'FLUX': 1.0, 'RESET': 2.0},
                  'reg': {'k0': 5.0, 'k1': 2.0}, 'reg2': {'k0': 5.0, 'k1': 2.0}})
    return cases


def after_change_as(c, o, field):
    """(case, out) to print with c_case: the settings are the NEW ones and the observation made after the change sits in `field`"""
    if 'error' in o or 'after_change' not in o:
        return c, {'error': o.get('error', 'no observation')}
    return dict(c, env=c['env2'], reg=c['reg2']), {'leafinfo': o['leafinfo'], field: o['after_change']}


# ------------------------------------------------------------------------------------------------ shrinking
def _fix_rels(prog, removed):
    """after removing top-level command index `removed`, re-index / drop relations that referred to it or later ones"""
    out = []
    for c in prog:
        c = dict(c)
        r = c.get('rel')
        if c['t'] == 'leaf' and r and r[0] == 'multi':
            ms = [m - 1 if m > removed else m for m in r[2] if m != removed]
            c['rel'] = ['multi', r[1], ms] if ms else None
        elif c['t'] == 'leaf' and r and r[0] != 'dangling':
            if r[1] == removed:
                c['rel'] = None
            elif r[1] > removed:
                c['rel'] = [r[0], r[1] - 1]
        out.append(c)
    return out


def shrink_progs(prog):
    """smaller programs: drop one command, inline/reduce a sub-circuit, drop a relation, shrink inside a body"""
    for i in range(len(prog)):
        yield _fix_rels(prog[:i] + prog[i + 1:], i)
    for i, c in enumerate(prog):
        if c['t'] == 'sub':
            if c['reps'] > 1:
                yield prog[:i] + [dict(c, reps=c['reps'] - 1)] + prog[i + 1:]
            for b in shrink_progs(c['body']):
                if b:
                    yield prog[:i] + [dict(c, body=b)] + prog[i + 1:]
        elif c.get('rel'):
            yield prog[:i] + [dict(c, rel=None)] + prog[i + 1:]


def shrink_candidates(case):
    for p in shrink_progs(case['prog']):
        if p:
            yield dict(case, prog=p)
