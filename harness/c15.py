"""C15 — OpenQL export is the in-order image of the circuit (DESIGN.md 7, C15)."""
import copy
from common import cz, cbool, cstr, clist, copt
import c08 as G       # generators and Coq printers of the listing tree are shared with C08

ID = 'C15'
GEN_MODULES = ['Tables']
MODEL_TARGETS = ['coq/C15/Run.vo']
PROOF_TARGETS = ['coq/C15/Proofs.vo']
PROPS_FILE = 'coq/Props/C15.v'
RUN_MODULE = 'QCE.C15.Run'
COQ_HEADER = 'From QCE Require Import C08.Tree C08.Model C15.Model C15.Spec.\nFrom Gen Require Import Tables.'
REPEAT_REVERSED = True     # every case is evaluated twice per run, the second time in reversed order in the same processes
IMPL = 'harness/impl/c15_impl.py'
SHARD = 60
IMPL_KW = {'shards': 8}
TRUSTED = ['Gen/Tables.v (operation classes, channel ids, OpenQL factory table incl. the kernel calls of every factory) is regenerated from the source on every run',
           'the walk OpenQLCircuitFactoryManager.construct / _extend_kernel (one program, one kernel, sub-circuits expanded in place, naming) is a '
           'hand-written model (C15/Model.v), tied by the correspondence run against recording doubles of PlatformManager.construct_program/kernel',
           'the documented calls of each class (C15/Spec.v) are written by hand, independently of the tables',
           'recording doubles and the translation of names to their symbolic form (uuid5 prefix looked up among the class-name sequences of the '
           'circuit\'s listings) live in the driver; the real OpenQL is used as an oracle (export + Program.compile() must succeed, cQASM gate order per qubit)']
ASSUMPTIONS = ['"executed gate order" of a program = for each item in the order added: a sub-program\'s executed order, a kernel\'s calls (what OpenQL does '
               'with the calls in Program.compile() is observed on the real-platform cases, not proved)',
               'uuid5 is modelled as an arbitrary function of the class-name sequence',
               'domain: waits of a whole non-negative number of time units (OpenQL\'s wait takes an unsigned integer; int() truncates other durations, '
               'which the model mirrors and only model = implementation compares), distinct qubits on a controlled-phase, repetition counts >= 1',
               'listing order (get_node_iterator) is taken from the implementation: the driver serialises the listing tree']
RULE = ('random build programs through DeclarativeCircuit.add over all 26 leaf classes, flat (about half) and nested (depth <= 3, repetition counts 1..3), '
        'with and without circuit_id, exported against recording doubles (call log + structure, built twice for name determinism); plus a fixed set '
        '(thorough: also random flat programs) exported and compiled with the real OpenQL platform, among them the three F7 witnesses. '
        'non-trivial: >= 2 exported calls on a shared qubit, a controlled-phase, a wait, or a sub-circuit')
LEVEL_TEXT = ('Machine-checked (Coq) over the factory table regenerated from the source: for every listing tree in the domain -- flat or nested, any '
              'repetition counts -- the modelled export returns, and what it executes is exactly the documented call sequence of the expanded '
              'listing in listing order (cz + barrier + two phase updates per controlled-phase, waits with their duration, sub-circuits in place and '
              'repeated, unsupported kinds omitted), in one kernel; program and kernel names are a function of the class-name sequence (and the given '
              'id) for every hash function. The model is the one the correspondence run compares, call by call, with the API calls recorded from the '
              'real exporter on random flat and nested programs; the specification (not the model) judges the recorded output, and a fixed set of '
              'programs is exported and compiled with the real OpenQL.')
LEVEL_NOTE = ('Trusted: Coq kernel, the ast translator (its table is re-proved equal to the hand-written documentation on every run), the hand-written '
              'walk model (tied by correspondence only), recording doubles and name symbolisation in the driver. Listing order is taken from the '
              'implementation. Program.compile() is observed, not proved. C15_old_walk_refuted is history about the pre-40c98cf walk (F7, fixed). '
              'No axioms (Print Assumptions: closed).')
TECHNIQUE = 'Coq proof (nested structural induction over the listing tree) over translator-generated tables + randomised correspondence against recording doubles and the real OpenQL, evaluated by vm_compute'

X180 = {'op': 'Rx180', 'q': [0]}
Y90 = {'op': 'Ry90', 'q': [0]}
X90 = {'op': 'Rx90', 'q': [0]}
W_F7A = [X180, {'reps': 1, 'body': [Y90]}, X90]
W_F7B = [X180, {'reps': 2, 'body': [Y90]}, X90]
W_F7C = [{'reps': 1, 'body': [Y90]}, {'reps': 1, 'body': [Y90]}]
REAL_FLAT = [
    [X180, {'op': 'CPhase', 'q': [0, 1]}, {'op': 'Wait', 'q': [1], 'a': [12]}, {'op': 'Barrier', 'q': [0, 1, 2]}, {'op': 'Reset', 'q': [2]},
     {'op': 'Hadamard', 'q': [2]}, {'op': 'Identity', 'q': [1]}, {'op': 'DispersiveMeasure', 'q': [0]}],
    [{'op': 'Rxm90', 'q': [1]}, {'op': 'Ry180', 'q': [1]}, {'op': 'Rym90', 'q': [0]}, {'op': 'VirtualPhase', 'q': [0]}, {'op': 'CPhase', 'q': [1, 0]},
     {'op': 'Ry90', 'q': [1]}, {'op': 'Rx90', 'q': [0]}, {'op': 'DispersiveMeasure', 'q': [1]}, {'op': 'DispersiveMeasure', 'q': [0]}],
]


def corpus():
    cases = [
        {'k': 'rec', 'prog': [X180, {'op': 'Barrier', 'q': [0]}, {'op': 'Wait', 'q': [0], 'a': [0]}, {'op': 'DispersiveMeasure', 'q': [0]}], 'cid': 'unit_test_circuit'},
        {'k': 'rec', 'prog': REAL_FLAT[0]},
        # F7 (fixed in 40c98cf): sub-circuit order, repetition count 2, two sub-circuits with equal class names
        {'k': 'rec', 'prog': W_F7A}, {'k': 'rec', 'prog': W_F7B}, {'k': 'rec', 'prog': W_F7C, 'cid': 'two_blocks'},
        {'k': 'rec', 'prog': [{'reps': 2, 'body': [Y90, {'reps': 3, 'body': [X90, {'op': 'Wait', 'q': [0], 'a': [7]}]}]}, X180]},
    ]
    for i, p in enumerate(REAL_FLAT):
        cases.append({'k': 'real', 'prog': p, 'tag': 'flat%d' % i})
    cases += [{'k': 'real', 'prog': W_F7A, 'tag': 'f7a'}, {'k': 'real', 'prog': W_F7B, 'tag': 'f7b'}, {'k': 'real', 'prog': W_F7C, 'tag': 'f7c'}]
    return cases


def gen_leaf(rng, nq, n_prev):
    cmd = G.gen_leaf(rng, nq, n_prev, 0.1)
    if cmd['op'] == 'Wait':
        cmd['a'] = [rng.choice([0, 4, 8, 12, 40, 80]) if rng.random() < 0.85 else rng.choice([1, 2, 7, 10])]
    elif rng.random() < 0.12:
        q = cmd['q'][0] if cmd['q'] else 0
        cmd = {'op': 'Wait', 'q': [q], 'a': [rng.choice([0, 4, 8, 20])]}
    return cmd


def gen_flat(rng, nq, n):
    prog = []
    for _ in range(n):
        prog.append(gen_leaf(rng, nq, len(prog)))
    return prog


def retarget(prog, rng, nq):
    """a C08-style nested program with the C15 leaf mixture"""
    out = []
    for c in prog:
        if 'body' in c:
            out.append(dict(c, body=retarget(c['body'], rng, nq)))
        else:
            out.append(gen_leaf(rng, nq, len(out)))
    return out


def gen_cases(rng, tier):
    n = 900 if tier == 'quick' else 6000
    cases = []
    for i in range(n):
        nq = rng.randint(1, 4)
        if i % 2 == 0:
            prog = gen_flat(rng, nq, rng.randint(1, 12))
        else:
            prog = retarget(G.gen_prog(rng, nq, 0, rng.choice([6, 12, 25, 50]), 0.0), rng, nq)
        case = {'k': 'rec', 'prog': prog}
        if rng.random() < 0.4:
            case['cid'] = rng.choice(['unit_test_circuit', 'expA', 'conditional_oscillation'])
        cases.append(case)
    if tier != 'quick':
        for i in range(12):
            nq = rng.randint(1, 3)
            prog = [c for c in gen_flat(rng, nq, rng.randint(2, 8)) if c['op'] in REAL_OK and (c['op'] != 'CPhase' or c['q'][0] != c['q'][1])]
            cases.append({'k': 'real', 'prog': [{k: v for k, v in c.items() if k != 'rel'} for c in prog], 'tag': 'rnd%d' % i})
    return cases


REAL_OK = ['Reset', 'Hadamard', 'Identity', 'CPhase', 'DispersiveMeasure', 'Rx180', 'Rx90', 'Rxm90', 'Ry180', 'Ry90', 'Rym90', 'VirtualPhase',
           'Rphi90', 'VirtualPark']


# ----------------------------------------------------------------------------------------- Coq literals
def c_kinds(seq):
    return clist(['K_' + s for s in seq])


def c_pname(n):
    base = f"(PB_hash {c_kinds(n['key'])})" if 'key' in n else f"(PB_id {cstr(n['id'])})"
    return f"(PN {int(n['nsub'])} {base})"


def c_kname(n):
    return f"(KN {c_kinds(n['key'])})" if 'key' in n else f"(KRaw {cstr(n['raw'])})"


def c_call(c):
    if c[0] == 'gate':
        return f"(QGate {cstr(c[1])} {clist([cz(x) for x in c[2]])})"
    if c[0] == 'cz':
        return f"(QCz {cz(c[1])} {cz(c[2])})"
    if c[0] == 'barrier':
        return f"(QBarrier {clist([cz(x) for x in c[1]])})"
    if c[0] == 'wait':
        return f"(QWait {clist([cz(x) for x in c[1]])} {cz(c[2])})"
    raise ValueError(c)


def c_items(items):
    out = []
    for it in items:
        if 'sub' in it:
            out.append(f"QSub {c_pname(it['sub']['name'])} {c_items(it['sub']['items'])}")
        else:
            out.append(f"QKernel {c_kname(it['kernel'])} {clist([c_call(c) for c in it['calls']])}")
    return clist(out)


def c_event(e):
    if e[0] == 'P':
        return f"ENewProg {c_pname(e[1])}"
    if e[0] == 'K':
        return f"ENewKernel {c_kname(e[1])}"
    if e[0] == 'c':
        return f"ECall {int(e[1])} {c_call(e[2])}"
    if e[0] == 'ap':
        return f"EAddProg {int(e[1])} {int(e[2])}"
    if e[0] == 'ak':
        return f"EAddKernel {int(e[1])} {int(e[2])}"
    raise ValueError(e)


def to_coq(case, out):
    if 'tree' not in out:
        return "(CRec [] None None [] [])"        # building the circuit failed: disagrees with the model on purpose
    tree = G.c_tree(out['tree'])
    if case['k'] == 'real':
        err = out.get('error')
        qasm = clist([f"({cstr(g[0])}, {clist([cz(x) for x in g[1]])})" for g in out.get('qasm', [])])
        return f"(CReal {tree} {cbool(err == 'dup')} {cbool(err is not None and err != 'dup')} {qasm})"
    cid = copt(case.get('cid'), cstr)
    if 'error' in out:
        return f"(CRec {tree} {cid} None [] [])"
    s = out['struct']
    res = f"(Some (({c_pname(s['name'])}, {c_items(s['items'])}), {clist([c_event(e) for e in out['events']])}))"
    return f"(CRec {tree} {cid} {res} {clist([cstr(x) for x in out['names1']])} {clist([cstr(x) for x in out['names2']])})"


# ----------------------------------------------------------------------------------------- metadata
def kind(case):
    d = G.depth(case['prog'])
    base = 'flat' if d == 0 else f'nested-depth-{d}'
    return ('real-' if case['k'] == 'real' else '') + base + ('-with-id' if case.get('cid') else '')


def nontrivial(case, out):
    if G.depth(case['prog']) > 0:
        return True
    ls = list(G.leaves(case['prog']))
    if any(l['op'] in ('CPhase', 'Wait') for l in ls):
        return True
    sup = [l for l in ls if l['op'] in ('Reset', 'Barrier', 'Hadamard', 'Identity', 'DispersiveMeasure', 'Rx180', 'Rx90', 'Rxm90', 'Ry180', 'Ry90', 'Rym90')]
    seen = set()
    for l in sup:
        if seen & set(l['q']):
            return True
        seen |= set(l['q'])
    return False


def sample(case, out):
    return {'input': case, 'listing_tree': out.get('tree'), 'recorded_structure': out.get('struct', out.get('error')),
            'call_log': (out.get('events') or [])[:40], 'real_platform': out.get('qasm')}


def shrink_candidates(case):
    for v in G._variants(copy.deepcopy(case['prog'])):
        yield dict(case, prog=v)
