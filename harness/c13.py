"""C13 -- index kernels agree with the multi-round experiment circuit (DESIGN.md 7, C13)."""
import itertools
from common import cz, clist

ID = 'C13'
GEN_MODULES = ['Kernels']
MODEL_TARGETS = ['coq/C13/Run.vo']
PROOF_TARGETS = ['coq/C13/Proofs.vo']
PROPS_FILE = 'coq/Props/C13.v'
RUN_MODULE = 'QCE.C13.Run'
COQ_HEADER = 'From QCE Require Import C12.Model C13.Model.\nFrom Gen Require Import Kernels.'
IMPL = 'harness/impl/c13_impl.py'
SHARD = 60
TRUSTED = ['Gen/Kernels.v is regenerated from the index-kernel sources on every run; C12/Model.v is the fold of the kernel-building loop (tied by C12)',
           'C13/Model.v multi_round_tags: closed-form per-ancilla measurement sequence written from construct_repetition_code_multi_round_circuit / '
           'get_circuit_qec_with_detectors / construct_calibration_circuit; tied by comparing it with the tag sequence of every constructed circuit',
           'the circuit library itself (schedule graph, apply_modifiers, flatten, acquisition registry) is exercised, not modelled, by this check']
ASSUMPTIONS = ['per-qubit acquisition_index = number of earlier measurements of the same qubit in circuit order (checked on every case by spec_ok, proved for the generic circuit in C07)',
               'every ancilla of a description sees the same tag sequence; code distance and initial state only change which qubits exist (checked on every case)',
               'the kernel is used as the constructor is: heralded initialisation on, qutrit calibration points on, experiment_repetitions = 1 (other repetition counts are translates, C12)',
               'the memoised start times are cleared between cases (known stale-cache defect F1; acquisition indices do not depend on start times)']
RULE = ('quick: code distance (data qubits) 2..5, rounds lists with distinct entries 0..6 of length 1..4 (all single-entry lists for d = 2, 3; random longer ones), '
        'random computational initial states (all of them for one fixed rounds list at d = 2, 3), refocusing on/off; every ancilla of every circuit is observed; '
        'malformed stream: empty rounds list (error class only). thorough: distance up to 6, entries 0..8, length up to 5. '
        'non-trivial: at least two blocks or a 0-round block'
        ' Every second case builds the kernel BEFORE the circuit, both from one description object (its own qubit-id lists).')


def circ(d, rounds, state, refocus=True):
    return {'k': 'circ', 'd': d, 'rounds': list(rounds), 'state': list(state), 'refocus': refocus}


def gen_cases(rng, tier):
    cases = []
    thorough = tier == 'thorough'
    top = 8 if thorough else 6
    for d in (2, 3):
        for r in range(top + 1):
            cases.append(circ(d, [r], [rng.randint(0, 1) for _ in range(d)], rng.random() < 0.8))
        for state in itertools.product((0, 1), repeat=d):
            cases.append(circ(d, [2, 0, 3], state))
    budget = {2: 40, 3: 40, 4: 30, 5: 20} if not thorough else {2: 300, 3: 300, 4: 250, 5: 200, 6: 100}
    for d, n in budget.items():
        for _ in range(n):
            rounds = rng.sample(range(top + 1), rng.randint(2, 5 if thorough else 4))
            cases.append(circ(d, rounds, [rng.randint(0, 1) for _ in range(d)], rng.random() < 0.8))
    for d in (2, 3):
        cases.append(circ(d, [], [0] * d))
    for i, c in enumerate(cases):          # every second case builds the kernel BEFORE the circuit, from the same description object
        c['kernel_first'] = i % 2 == 1
    return cases


def corpus():
    return [circ(3, [0, 3, 6, 2], [0, 1, 0]), circ(2, [0], [1, 1]), circ(2, [1, 0], [0, 1], False), circ(4, [4, 1, 0, 2], [1, 0, 0, 1])]


def lz(l):
    return clist([cz(x) for x in l])


def mat(m):
    return clist([lz(r) for r in m])


TAG = {'heralded': 'THeralded', 'parity': 'TParity', 'final': 'TFinal'}


def chain_indices(d):
    n = 2 * d - 1
    return list(range(0, n, 2)), list(range(1, n, 2))


def to_coq(c, o):
    if 'error' in o:
        data, anc = chain_indices(c['d'])
        e = o['error'] if o['error'] in ('IndexError', 'AssertionError') else 'OtherError'
        return f"(CFail {lz(c['rounds'])} {lz(data)} {lz(anc)} {e})"
    obs = clist([
        "(MkAobs %s %s %s %s %s %s %s %s)" % (
            cz(a['q']), clist([f"({TAG[t]}, {cz(i)})" for t, i in a['seq']]), mat(a['bytag']), mat(a['her']), mat(a['sp']), mat(a['proj']),
            mat(a['cal_her']), mat(a['cal_proj']))
        for a in o['obs']])
    return f"(CCirc {lz(c['rounds'])} {lz(o['data'])} {lz(o['anc'])} {cz(o['L'])} {obs})"


def kind(c):
    return f"d{c['d']}/len{len(c['rounds'])}"


def nontrivial(c, o):
    return len(c['rounds']) >= 2 or 0 in c['rounds']


def sample(c, o):
    if 'error' in o:
        return {'input': c, 'impl': o}
    return {'input': c, 'impl': {'L': o['L'], 'n_ops': o['n_ops'], 'first_ancilla': o['obs'][0]}}


SUPPORTING = ['libbuild']      # constructors as Gallina build programs (coq/LibBuild): per-ancilla tag sequence of the unrolled repetition-code circuit for all descriptions / cycles
LEVEL_TEXT = ('Machine-checked theorem (Coq): for ALL non-empty lists of distinct round counts >= 0 and every ancilla, in the closed-form measurement sequence of the '
              'multi-round circuit the heralded / parity / calibration measurements of every block and calibration state sit exactly at the indices the '
              'RepetitionExperimentKernel (definitions regenerated from the Python source on every run) returns for heralded / stabilizer-and-projected / calibration '
              'acquisitions, the projected index is the last parity round, the number of acquisitions equals the kernel cycle length, and the 0-round block is the only '
              'exception (one final measurement at the block stop index, reported by no kernel category). Correspondence: real circuits are built for distances 2..5 and '
              'their per-ancilla (tag, index) sequences are compared with the closed form and judged against the kernel outputs inside Coq.')
LEVEL_NOTE = ('Trusted: Coq kernel, the ast translator, the closed form of the constructors (compared with every constructed circuit in the run), the C12 fold. '
              'The generic schedule/flatten machinery is exercised, not proved, here. The supporting check LIBBUILD (run by this check) models construct_repetition_code_circuit as a Gallina build program tied node for node to the real constructor and proves, for every well-formed description and cycle count within the depth limit of the listing, that the unrolled Core listing carries per ancilla the tags heralded; parity^cycles (heralded; final for 0 cycles) = C13.block_tags (LibBuild_anc_tags_block); the multi-round composition (flatten + nesting per round + calibration) is modelled and tied (multi_round_nodes) and LibMulti_anc_tags / LibMulti_kernel_agrees prove, for every description with gates_ok and every rounds list, that wherever the model circuit is defined its per-ancilla tag sequence is the closed form of this check and sits at the generated kernel indices (definedness of flatten is an antecedent; it is a conclusion for d in {2,3} and rounds entries 0..4). No axioms (Print Assumptions: closed).')
TECHNIQUE = 'Coq proof (induction over the rounds list, reuse of the C12 kernel lemmas) + correspondence on constructed circuits evaluated by vm_compute'
