"""C08 — Stim export is the in-order image of the circuit (DESIGN.md 7, C08)."""
import copy
from common import cz, cbool, cstr, clist, copt
import libgen

ID = 'C08'
GEN_MODULES = ['Tables', 'Ident', 'Classes']
MODEL_TARGETS = ['coq/C08/Run.vo']
PROOF_TARGETS = ['coq/C08/Proofs.vo', 'coq/Bridge/Proofs.vo']
PROPS_FILE = 'coq/Props/C08.v'
RUN_MODULE = 'QCE.C08.Run'
COQ_HEADER = ('From Gen Require Import Ident Classes Tables.\nFrom QCE Require Import Core.Model Core.Run Lib.Run.\n'
              'From QCE Require Import C08.Tree C08.Model C08.Spec.')
IMPL = 'harness/impl/c08_impl.py'
SHARD = 60
IMPL_KW = {'shards': 8}
TRUSTED = ['Gen/Tables.v (operation classes, channel ids, Stim factory table, the three to_stim_instruction methods) is regenerated from the source on every run',
           'the walk StimCircuitFactoryManager.construct and the part of Stim it uses (append/+=/* with fusion and REPEAT merging, flattened(), '
           'num_measurements, target/argument validation) are hand-written models (C08/Model.v), tied by the correspondence run',
           'the documented gate of each class and the meaning of detector targets (C08/Spec.v) are written by hand, independently of the tables',
           'listing order itself (get_node_iterator) is taken from the implementation: the driver serialises the listing tree',
           'library cases: Lib/Run.v case format and Core model (agree_lib), harness/impl/lib_impl.py']
ASSUMPTIONS = ['"identical program" / "instruction by instruction" is read modulo Stim\'s own normal form: REPEAT unrolled, fused targets split, '
               'SHIFT_COORDS folded into detector coordinates (DESIGN 8.2); the multiset clause is read on the normal form before folding',
               'domain: operations with as many qubits as their class takes, distinct qubits on a two-qubit gate, qubit indices < 2^24, '
               'detector/observable record offsets in [-16777215,-1], repetition counts 0 <= n < 2^64; outside it only model = implementation is compared',
               'that the unrolled listing is a permutation of (library-built: equal to) the expanded listing is C06\'s; here the two exports are compared as exported',
               'the memoised start times are cleared before every build/export']
RULE = ('random build programs through DeclarativeCircuit.add over all 26 leaf classes (supported and unsupported), 1-4 qubits, nesting depth <= 3, '
        'repetition counts 1..3 (fixed or registry-provided), optional relation to an earlier sibling, detector/observable/shift arguments from a grid '
        'incl. None, invalid offsets and every detector branch; each case is built twice (as built / after apply_modifiers). Library clause: '
        'repetition-code circuits from random descriptions (chain or shipped layout sub-chain, refocusing on/off), initial states, 0..5 cycles and '
        'duration settings (Lib/Run.v format), plus a few with the listing-tree model. non-trivial: contains a sub-circuit, an annotation, or two '
        'exported operations that Stim fuses; library: >= 1 QEC cycle')
LEVEL_TEXT = ('Machine-checked (Coq) over tables and annotation methods regenerated from the source: whenever the modelled export returns, its Stim '
              'normal form is the expanded listing translated operation by operation, in order, unsupported kinds omitted and nothing added '
              '(nested induction over the listing tree, through Stim\'s instruction fusion, `+=` seam fusion and REPEAT arithmetic); every emitted '
              'instruction is the hand-written documented one (gate table, exactly its qubits, the five detector target shapes = record positions '
              'of the named measurements, observables incl. the target-less one); one measurement per DispersiveMeasure; a rearranged expanded '
              'listing exports the same instruction multiset and measurement count; equal expanded listings export the identical program. The model '
              'is compared with the real exporter (raw instruction structure, stim\'s flattened(), num_measurements) on random programs over all 26 '
              'classes, and the specification (not the model) judges the exporter\'s output incl. before/after apply_modifiers and library-built circuits.')
LEVEL_NOTE = ('Trusted: Coq kernel, the ast translator (its output is re-proved equal to the hand-written documentation on every run), the hand-written '
              'model of the walk and of Stim\'s append/+=/*/flattened semantics (tied by correspondence only). Listing order is taken from the '
              'implementation; that unrolling permutes / preserves the expanded listing is C06\'s theorem, used here as a hypothesis and checked on '
              'outputs. No axioms (Print Assumptions: closed).')
TECHNIQUE = 'Coq proof (nested structural induction over the listing tree) over translator-generated tables + randomised correspondence evaluated by vm_compute'

SINGLE = ['SingleQubitOperation', 'Reset', 'Wait', 'Identity', 'Hadamard', 'Rx180', 'Rx90', 'Rxm90', 'Ry180', 'Ry90', 'Rym90', 'Rx180ef',
          'VirtualPhase', 'VirtualPark', 'Rphi90', 'DispersiveMeasure', 'VirtualVacant', 'VirtualEmpty', 'DetectorOperation',
          'LogicalObservableOperation']
PAIR = ['TwoQubitOperation', 'CPhase', 'TwoQubitVirtualPhase', 'VirtualTwoQubitVacant']
LIST = ['Barrier', 'CoordinateShiftOperation']
ALL_KINDS = SINGLE + PAIR + LIST
SUPPORTED = ['Reset', 'Barrier', 'Hadamard', 'Identity', 'CPhase', 'DispersiveMeasure', 'Rx180', 'Rx90', 'Rxm90', 'Ry180', 'Ry90', 'Rym90',
             'DetectorOperation', 'LogicalObservableOperation', 'CoordinateShiftOperation']
CHANNELS = ['READOUT', 'MICROWAVE', 'FLUX', 'ALL']
RELS = ['FOLLOWED_BY', 'JOINED_START', 'JOINED_END']


# ----------------------------------------------------------------------------------------- generators
def gen_detector_args(rng):
    last = rng.choice([None, 0, 1, 2, 3, 5, 8]) if rng.random() < 0.06 else rng.choice([1, 2, 3, 5, 8])
    hi = last if last is not None else 3

    def tgt():
        return rng.randint(0, hi) if rng.random() < 0.97 else hi + rng.randint(1, 2)    # sometimes in the future
    branch = rng.choice(['none', 'm', 'm', 'mr', 'mr', 'ms', 'msr', 'msrs', 'msrs', 's_only', 'r_only'])
    m = s = r = so = None
    if 'm' in branch and branch not in ('s_only', 'r_only'):
        m = tgt()
    if branch in ('ms', 'msr', 'msrs', 's_only'):
        s = tgt()
    if branch in ('mr', 'msr', 'msrs', 'r_only'):
        r = rng.choice([1, 1, 2, 3, 0, -1]) if rng.random() < 0.1 else rng.choice([1, 2, 3])
    if branch == 'msrs' or rng.random() < 0.08:
        so = rng.choice([1, 2, 0, -1]) if rng.random() < 0.1 else rng.choice([1, 2])
    return [last, m, s, r, so]


def gen_leaf(rng, nq, n_prev, p_obs_none):
    r = rng.random()
    if r < 0.45:
        name = rng.choice(SUPPORTED)
    elif r < 0.55:
        name = rng.choice(['DetectorOperation', 'LogicalObservableOperation', 'CoordinateShiftOperation', 'DispersiveMeasure'])
    else:
        name = rng.choice(ALL_KINDS)
    cmd = {'op': name}
    if name in PAIR:
        a = rng.randrange(nq)
        b = rng.randrange(nq)
        if a == b and (nq == 1 or rng.random() < 0.9):
            b = (a + 1) % max(nq, 2)
        cmd['q'] = [a, b]
    elif name in LIST:
        k = rng.choice([0, 1, 2, 2, 3, 4]) if rng.random() < 0.3 else rng.randint(1, nq)
        cmd['q'] = [rng.randrange(nq) for _ in range(k)] if rng.random() < 0.3 else sorted(rng.sample(range(max(nq, k)), k))
    else:
        cmd['q'] = [rng.randrange(nq)]
    if name == 'DetectorOperation':
        cmd['a'] = gen_detector_args(rng)
    elif name == 'LogicalObservableOperation':
        last = rng.choice([0, 1, 2, 3, 5])
        main = rng.randint(0, last) if rng.random() < 0.97 else last + 1
        if rng.random() < p_obs_none:
            last, main = rng.choice([(None, None), (None, main), (last, None)])
        cmd['a'] = [last, main]
    elif name == 'CoordinateShiftOperation':
        cmd['a'] = [rng.choice([0, 1, 1, 2, -1]), rng.choice([0, 0, 1, 3, -2])]
    elif name == 'Wait':
        cmd['a'] = [rng.choice([0, 1, 2, 4, 8, 12, 20, 7])]
    if name in ('Wait', 'VirtualVacant', 'VirtualEmpty', 'VirtualTwoQubitVacant') and rng.random() < 0.5:
        cmd['chan'] = rng.choice(CHANNELS)
    if name == 'DispersiveMeasure':
        cmd['acq'] = rng.choice(['own', 'own', 'top'])
        if rng.random() < 0.3:
            cmd['tag'] = rng.choice(['final', 'parity'])
    if n_prev > 0 and name not in LIST and rng.random() < 0.25:
        cmd['rel'] = [rng.randrange(n_prev), rng.choice(RELS)]
    return cmd


def gen_prog(rng, nq, depth, budget, p_obs_none):
    """budget: bound on the number of expanded leaves of this listing"""
    n = rng.randint(0 if depth > 0 and rng.random() < 0.1 else 1, 7 if depth == 0 else 4)
    prog = []
    for _ in range(n):
        if budget <= 0:
            break
        if depth < 3 and rng.random() < (0.3 if depth == 0 else 0.22):
            reps = rng.randint(1, 3)
            body = gen_prog(rng, nq, depth + 1, max(1, budget // (2 * reps)), p_obs_none)
            r = {'registry': reps} if rng.random() < 0.2 else reps
            prog.append({'reps': r, 'body': body})
            budget -= reps * max(1, size(body))
        else:
            prog.append(gen_leaf(rng, nq, len(prog), p_obs_none))
            budget -= 1
    return prog


def reps_of(cmd):
    return cmd['reps']['registry'] if isinstance(cmd['reps'], dict) else cmd['reps']


def size(prog):
    return sum(reps_of(c) * size(c['body']) if 'body' in c else 1 for c in prog)


def depth(prog):
    return max([1 + depth(c['body']) for c in prog if 'body' in c] + [0])


def leaves(prog):
    for c in prog:
        if 'body' in c:
            yield from leaves(c['body'])
        else:
            yield c


def corpus():
    X = lambda q: {'op': 'Rx180', 'q': [q]}
    M = lambda q: {'op': 'DispersiveMeasure', 'q': [q]}
    W = lambda q, d: {'op': 'Wait', 'q': [q], 'a': [d]}
    D = lambda q, a: {'op': 'DetectorOperation', 'q': [q], 'a': a}
    return [
        {'k': 'tree', 'prog': [X(0), X(1), {'reps': 2, 'body': [M(0), W(1, 6), D(0, [0, 0, None, None, None])]}, {'op': 'CPhase', 'q': [0, 1]},
                               {'op': 'Barrier', 'q': [0, 1, 1]}, {'reps': {'registry': 3}, 'body': [W(1, 2)]},
                               {'op': 'LogicalObservableOperation', 'q': [0], 'a': [1, 0]}]},
        # fusion across the seam of an inlined (x1) block, REPEAT-count merging of nested single blocks, empty REPEAT body
        {'k': 'tree', 'prog': [X(0), {'reps': 1, 'body': [X(1), X(2)]}, X(3), {'reps': 2, 'body': [{'reps': 3, 'body': [X(1)]}]},
                               {'reps': 2, 'body': [W(0, 4)]}, {'reps': 2, 'body': [{'reps': 1, 'body': [{'reps': 2, 'body': [M(0), M(1)]}]}]}]},
        # all five detector branches + fall-through, shifts before/inside a repeated block
        {'k': 'tree', 'prog': [M(0), M(1), M(2), M(3), {'op': 'CoordinateShiftOperation', 'q': [0, 1], 'a': [1, 2]},
                               D(0, [3, 3, None, None, None]), D(1, [3, 3, None, 2, None]), D(2, [3, 3, 2, None, None]),
                               {'reps': 2, 'body': [{'op': 'CoordinateShiftOperation', 'q': [0], 'a': [1, 0]}, D(3, [3, 3, 2, 1, None]),
                                                    D(0, [3, 3, 2, 1, 2]), D(1, [None, None, 1, 1, 1])]}]},
        # annotations that cannot be exported: future record offset, missing last_acquisition_index, cz on one qubit
        {'k': 'tree', 'prog': [M(0), D(0, [0, 1, None, None, None])]},
        {'k': 'tree', 'prog': [M(0), D(0, [None, 0, None, None, None])]},
        {'k': 'tree', 'prog': [{'op': 'CPhase', 'q': [1, 1]}]},
        {'k': 'lib', 'init': [0, 1, 0], 'cycles': 2},
        # F16 (fixed in 744f678): an observable without (last_acquisition_index, main_target)
        {'k': 'tree', 'prog': [M(0), {'op': 'LogicalObservableOperation', 'q': [0], 'a': [None, None]}]},
    ]


def gen_cases(rng, tier):
    n = 900 if tier == 'quick' else 6000
    cases = []
    for i in range(n):
        nq = rng.randint(1, 4)
        p_obs_none = 0.5 if i % 40 == 0 else 0.0         # the F11 class is visited by a few cases only
        prog = gen_prog(rng, nq, 0, rng.choice([6, 12, 25, 50, 90]), p_obs_none)
        cases.append({'k': 'tree', 'prog': prog})
    libs = [([0, 1], 1), ([0, 1, 0], 3), ([1, 0], 0), ([0, 1, 0], 1)] if tier == 'quick' else \
        [(list(i), c) for i in ([0], [0, 1], [1, 0], [0, 1, 0], [1, 1, 0, 1]) for c in (0, 1, 2, 3, 5)]
    for init, cyc in libs:
        cases.append({'k': 'lib', 'init': init, 'cycles': cyc})
    # library clause (shared Lib/Run.v format): before / after unrolling the identical flattened program
    for _ in range(20 if tier == 'quick' else 250):
        c = libgen.gen_repcode(rng, max_d=3 if tier == 'quick' else 5, max_cycles=5 if tier == 'quick' else 8)
        c['obs'] = ['structure', 'plain', 'unrolled']
        cases.append(c)
    return cases


LIBK = ('repcode', 'simplified', 'multi', 'calib')


# ----------------------------------------------------------------------------------------- Coq literals
def c_leaf(l):
    args = clist([copt(x, cz) for x in l.get('a', [])])
    return f"(Leaf (MkLeaf K_{l['op']} {clist([cz(x) for x in l['q']])} {args}))"


def c_tree(t):
    return clist([f"(Block {cz(x['reps'])} {c_tree(x['body'])})" if 'body' in x else c_leaf(x) for x in t])


def c_circ(c):
    out = []
    for i in c:
        if i[0] == 'R':
            out.append(f"SRep {cz(i[1])} {c_circ(i[2])}")
        else:
            ts = clist([("TQ " if k == 'q' else "TRec ") + cz(v) for k, v in i[3]])
            out.append(f"SI {cstr(i[1])} {clist([cz(a) for a in i[2]])} {ts}")
    return clist(out)


def c_expo(e):
    if 'error' in e:
        return "EErr"
    return f"(EOk {c_circ(e['raw'])} {c_circ(e['flat'])} {cz(e['nmeas'])})"


def to_coq(case, out):
    if case['k'] in LIBK:
        return f"(KLib {libgen.c_lcase(case, out)})"
    return f"(KTree {tree_case(case, out)})"


def tree_case(case, out):
    if 'a' not in out or 'tree' not in out['a']:
        return "(MkCase false [] EErr None)"      # building the circuit failed: disagrees with the model on purpose
    a, u = out['a'], out['u']
    un = "None" if 'unroll_error' in u else f"(Some ({c_tree(u['tree'])}, {c_expo(u)}))"
    return f"(MkCase {cbool(case['k'] == 'lib')} {c_tree(a['tree'])} {c_expo(a)} {un})"


# ----------------------------------------------------------------------------------------- metadata
def kind(case):
    if case['k'] in LIBK:
        return 'library:' + case['k']
    if case['k'] == 'lib':
        return 'library-tree'
    d = depth(case['prog'])
    return 'flat' if d == 0 else f'nested-depth-{d}'


def nontrivial(case, out):
    if case['k'] in LIBK:
        return case['cycles'] >= 1
    if case['k'] == 'lib':
        return True
    if depth(case['prog']) > 0:
        return True
    ls = list(leaves(case['prog']))
    if any(l['op'] in ('DetectorOperation', 'LogicalObservableOperation', 'CoordinateShiftOperation') for l in ls):
        return True
    raw = out.get('a', {}).get('raw') or []
    return any(i[0] == 'I' and len(i[3]) > (2 if i[1] == 'CZ' else 1) for i in raw)


def sample(case, out):
    if case['k'] in LIBK:
        return {'library_input': case, 'stim_flat_plain': (out.get('plain') or {}).get('stim_flat', '')[:400]}
    a = out.get('a', {})
    return {'input': case, 'listing_tree': a.get('tree'), 'exported_raw': a.get('raw', a.get('error')),
            'after_unrolling_raw': out.get('u', {}).get('raw', out.get('u', {}).get('unroll_error'))}


def _drop(prog, i):
    """remove command i of a listing, repairing sibling references"""
    out = []
    for j, c in enumerate(prog):
        if j == i:
            continue
        c = dict(c)
        if 'rel' in c:
            if c['rel'][0] == i:
                del c['rel']
            elif c['rel'][0] > i:
                c['rel'] = [c['rel'][0] - 1, c['rel'][1]]
        out.append(c)
    return out


def _inline(prog, i):
    """replace the block at position i (repetition count 1) by its body, repairing sibling references"""
    body = [{k: v for k, v in c.items() if k != 'rel'} for c in prog[i]['body']]
    shift = len(body) - 1
    out = []
    for j, c in enumerate(prog):
        if j == i:
            out += body
            continue
        c = dict(c)
        if 'rel' in c:
            if c['rel'][0] == i:
                del c['rel']
            elif c['rel'][0] > i:
                c['rel'] = [c['rel'][0] + shift, c['rel'][1]]
        out.append(c)
    return out


def _variants(prog):
    for i, c in enumerate(prog):
        yield _drop(prog, i)
    for i, c in enumerate(prog):
        if 'body' in c and reps_of(c) == 1:
            yield _inline(prog, i)
    for i, c in enumerate(prog):
        if 'body' in c:
            if reps_of(c) > 1:
                yield prog[:i] + [dict(c, reps=reps_of(c) - 1)] + prog[i + 1:]
            for v in _variants(c['body']):
                yield prog[:i] + [dict(c, body=v)] + prog[i + 1:]
        elif 'rel' in c:
            yield prog[:i] + [{k: v for k, v in c.items() if k != 'rel'}] + prog[i + 1:]


def shrink_candidates(case):
    if case['k'] in LIBK:
        if case['cycles'] > 0:
            yield dict(case, cycles=case['cycles'] - 1)
        return
    if case['k'] != 'tree':
        return
    for v in _variants(copy.deepcopy(case['prog'])):
        yield {'k': 'tree', 'prog': v}
