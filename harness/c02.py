"""C02 — the operation listing is complete, duplicate-free, causal and stable (DESIGN.md 7, C02)."""
import coregen
from coregen import gen_case, nontrivial as _nt, c_case
import coregen

ID = 'C02'
GEN_MODULES = ['Ident', 'Classes', 'Flags']
MODEL_TARGETS = ['coq/C02/Run.vo']
PROOF_TARGETS = ['coq/C02/Proofs.vo']
PROPS_FILE = 'coq/Props/C02.v'
RUN_MODULE = 'QCE.C02.Run'
COQ_HEADER = 'From Gen Require Import Ident Classes.\nFrom QCE Require Import Core.Model Core.Run.'
IMPL = 'harness/impl/core_impl.py'
IMPL_KW = {'shards': 12}
SHARD = 100
TRUSTED = ['Gen/Ident.v, Gen/Classes.v regenerated from the source on every run (channel templates, default durations, copy() specs)',
           'Core/Model.v: hand-written model of add_to_graph / layered listing / relation equations / copy / extend / apply_modifiers, tied by this correspondence run']
ASSUMPTIONS = ['binary64 arithmetic is exact on the generated durations (multiples of 0.25 below 2^20); times compared as integers in ticks of 1/8',
               'object identity modelled as insertion index; relation depth <= 300 in generated programs (Python recursion limit is outside the model)']
RULE = ('random build programs (1-12 commands, 1-4 qubits, 26 operation classes weighted, durations from {0,.25,.5,1,2,3,5}, relation none 55% / explicit 40% / dangling 5%, '
        'nesting depth <= 2, repetition counts 1-3) x random global duration settings; observed plain (operations then duration), duration-first, unrolled, unrolled twice. '
        'non-trivial: >= 2 leaves and (a nested block or an explicit relation or two operations sharing a qubit); distinct by hash of the case Plus ~13% structured shapes (coregen.gen_structured: parallel first blocks of unequal length under two levels of repetition with a follower of the first, a repeated block starting with a plain operation and containing a repeated block, two relation branches of unequal depth and length meeting through a barrier, a long chain beside a short operation followed by a repeated block, an early-starting operation in a doubly nested block).')


def gen_cases(rng, tier):
    n = 160 if tier == 'quick' else 3000
    cases = [gen_case(rng, maxlen=rng.choice([4, 8, 12])) for _ in range(n)]
    cases += [coregen.gen_structured(rng) for _ in range(24 if tier == 'quick' else 400)]      # rarely met shapes (coregen.gen_structured)
    for c in cases:
        c['obs'] = ['plain', 'plain_dur_first']
    # the structured shapes and a few fixed ones also unrolled: the listing of the unrolled circuit must be causal too
    extra = [coregen.gen_structured(rng) for _ in range(16 if tier == 'quick' else 200)] + coregen.fixed_structured()
    for c in extra:
        c['obs'] = ['plain', 'plain_dur_first', 'unrolled']
    cases += extra
    # chains at the documented graph depth limit (only the number of listed operations is observed)
    cases.append({'k': 'deep', 'n': 4999})
    if tier == 'thorough':
        cases += [{'k': 'deep', 'n': 4998}, {'k': 'deep', 'n': 5003}]
    return cases


def to_coq(c, o):
    if c.get('k') == 'deep':
        if 'error' in o:
            return f"(KDeep {c['n']} (-1))"
        return f"(KDeep {c['n']} {o['listed'] if o.get('again') else -2})"
    return f"(KCore {c_case(c, o)})"


def nontrivial(c, o):
    if c.get('k') == 'deep':
        return True
    return _nt(c)


def kind(c):
    if c.get('k') == 'deep':
        return 'chain-at-depth-limit'
    return ('nested' if coregen.has_sub(c['prog']) else 'flat') + ('+rel' if coregen.has_rel(c['prog']) else '')


def sample(c, o):
    if c.get('k') == 'deep':
        return {'chain_length': c['n'], 'listed': o.get('listed')}
    return {'prog': c['prog'], 'env': c['env'], 'reported_first_ops': (o.get('plain') or {}).get('ops', [])[:3]}


LEVEL_TEXT = "Coq theorems over the Core model's layered listing: for a well-formed forest the listing is duplicate-free and contains exactly the nodes of depth < 4999 (the documented limit), is sorted by relation depth, lists every parent before its children; for every build program the listed leaves are a permutation of the leaves added (sub-circuits expanded in place; unconditional for the current generated class table), and every entry is listed after the entry its relation refers to, through nesting. spec_ok judges completeness, causality and stability on the implementation's listing."
LEVEL_NOTE = 'Trusted: Coq kernel, translator (Gen/Classes.v: copy() faithfulness is an Example over the generated table), hand-written Core model tied by correspondence. Stability of listing twice is an observation (c_stable), trivial in the functional model. No axioms.'
TECHNIQUE = 'Coq proof over an executable model + correspondence evaluated by vm_compute'


def shrink_candidates(case):
    if case.get('k') == 'deep':
        return
    yield from coregen.shrink_candidates(case)
