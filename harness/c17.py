"""C17 — declared and derived gate-sequence layouts are executable (DESIGN.md 7, C17)."""
import os
import sys
import common
from common import cz, cbool, cstr, clist, copt

sys.path.insert(0, os.path.join(common.ROOT, 'tools', 'translate'))
import c16

ID = 'C17'
GEN_MODULES = ['Layouts']
MODEL_TARGETS = ['coq/C17/Run.vo']
PROOF_TARGETS = ['coq/C17/Proofs.vo']
PROPS_FILE = 'coq/Props/C17.v'
RUN_MODULE = 'QCE.C17.Run'
COQ_HEADER = 'From Gen Require Import Layouts.\nFrom QCE Require Import C16.Spec C16.Model C17.Model.'
REPEAT_REVERSED = True     # every case is evaluated twice per run, the second time in reversed order in the same processes
IMPL = 'harness/impl/c17_impl.py'
IMPL_KW = {'shards': 12}
SHARD = 40
TRUSTED = ['Gen/Layouts.v (device tables, the three repetition layouts) is regenerated from the source on every run and compared with the runtime singletons',
           'C17/Model.v: hand-written model of from_connectivity / the composite description / the index observations, tied by the correspondence run',
           'C16/Model.v requires_parking (= get_requires_parking) and C16/Spec.v spec_park (the frequency reading), linked by theorem C16_parking']
ASSUMPTIONS = ['the default qubit_index_map of from_connectivity (enumerate of the involved list); composite descriptions are given an injective index map over the device qubits',
               'Python dict/list membership = existence of an equal member under the translated __eq__']
RULE = ('for every shipped layout: the runtime singleton against the generated table; from_connectivity for the full involved list, all device qubits, the empty list, '
        'every contiguous data-to-data sub-chain of the layout (forward; quick: a sample reversed/shuffled, thorough: all reversed and shuffled too), random subsets in random '
        'order, lists with repeated and with foreign identifiers; composite descriptions over random sub-chains with optional leading gate/readout descriptions, random edge / '
        'qubit exclusions, both parking modes and a random injective index map. Observed: gate_sequences, get_gate_sequence_indices / get_park_sequence_indices for every layer '
        'index and one below/above the range, circuit_channel_map, qubit/data/ancilla ids. non-trivial: a description that keeps >= 1 gate (layout/device cases always)')

LAYOUTS = ['Repetition9Code', 'Repetition9Round6Code', 'Repetition5Round4Code']


def tables():
    import gen_layouts
    return gen_layouts.parse_tables(common.REPO)


def uniq(l):
    out = []
    for x in l:
        if x not in out:
            out.append(x)
    return out


def chain_of(layout):
    """The data-ancilla-data-... chain described by the layout's parity groups (None if they do not form one path)."""
    layers, pz, px = layout
    adj = {}
    for _, anc, data in px + pz:
        for d in data:
            adj.setdefault(anc, set()).add(d)
            adj.setdefault(d, set()).add(anc)
    ends = sorted(q for q, n in adj.items() if len(n) == 1)
    if len(ends) != 2 or any(len(n) > 2 for n in adj.values()):
        return None
    path, prev = [ends[0]], None
    while True:
        nxt = [n for n in sorted(adj[path[-1]]) if n != prev]
        if not nxt:
            break
        prev = path[-1]
        path.append(nxt[0])
    return path if len(path) == len(adj) else None


def gen_cases(rng, tier):
    thorough = tier == 'thorough'
    try:
        tb = tables()
    except Exception:
        tb = None
    cases = [{'k': 'device'}]
    for name in LAYOUTS:
        cases.append({'k': 'layout', 'name': name})
    if tb is None:
        # the source tables are not readable: still exercise the implementation on generic inputs
        dev = [q for q, _ in sorted(c16.FALLBACK_FREQ.items())]
        for name in LAYOUTS:
            cases.append({'k': 'derived', 'name': name, 'involved': dev})
        return cases
    dev = [q for _, qs in tb['feedlines'] for q in qs]
    for name in LAYOUTS:
        layout = tb['layouts'][name]
        layers = layout[0]
        involved_all = uniq([q for parks, gates in layers for q in uniq(parks + [x for e in gates for x in e])])
        gates_all = [e for _, gates in layers for e in gates]
        lists = [involved_all, dev, [], list(reversed(involved_all))]
        chain = chain_of(layout)
        subchains = []
        if chain:
            data_pos = [i for i in range(0, len(chain), 2)]
            for a in data_pos:
                for b in data_pos:
                    if a <= b:
                        subchains.append(chain[a:b + 1])
        lists += subchains
        for sc in (subchains if thorough else rng.sample(subchains, min(8, len(subchains)))):
            lists.append(list(reversed(sc)))
            sh = list(sc)
            rng.shuffle(sh)
            lists.append(sh)
        for _ in range(120 if thorough else 25):
            lists.append(rng.sample(dev, rng.randint(1, len(dev))))
        for _ in range(20 if thorough else 5):       # repeated and foreign identifiers
            base = rng.sample(dev, rng.randint(2, 10))
            base += [rng.choice(base) for _ in range(rng.randint(1, 3))] + rng.sample(['Q0', 'D10', 'A1'], rng.randint(0, 2))
            rng.shuffle(base)
            lists.append(base)
        for l in lists:
            cases.append({'k': 'derived', 'name': name, 'involved': l})
        # composite descriptions
        pool = subchains if subchains else [involved_all]
        for _ in range(80 if thorough else 18):
            inv = list(rng.choice(pool)) if rng.random() < 0.7 else rng.sample(dev, rng.randint(3, len(dev)))
            if rng.random() < 0.3:
                inv = involved_all
            lead_gate = None if rng.random() < 0.6 else list(rng.choice(pool))
            lead_ro = None if rng.random() < 0.7 else list(rng.choice(pool))
            src = lead_gate if lead_gate is not None else inv
            kept = [e for e in gates_all if e[0] in src and e[1] in src]
            excl_e, excl_q = [], []
            r = rng.random()
            if r < 0.5 and kept:
                for e in rng.sample(kept, min(len(kept), rng.randint(1, 2))):
                    excl_e.append(list(e) if rng.random() < 0.5 else [e[1], e[0]])
            elif r < 0.75 and src:
                excl_q = rng.sample(src, 1)
            elif r < 0.85:
                excl_e = [list(rng.choice(tb['edges']))]
            perm = list(range(len(dev)))
            rng.shuffle(perm)
            cases.append({'k': 'composite', 'name': name, 'involved': inv, 'lead_readout': lead_ro, 'lead_gate': lead_gate,
                          'excl_e': excl_e, 'excl_q': excl_q, 'only': rng.random() < 0.5,
                          'index': [[q, i] for q, i in zip(dev, perm)]})
    return cases


def corpus():
    """Minimised earlier failures, run first: the witness of finding F11 (fixed): a composite description that excludes the
    gate X3-D8 of Repetition9Code and keeps the underlying parks used to leave X3 unparked in layer 1."""
    dev = ['D9', 'D8', 'X4', 'Z4', 'Z2', 'D6', 'D3', 'D7', 'D2', 'X3', 'Z1', 'X2', 'Z3', 'D5', 'D4', 'D1', 'X1']
    index = [[q, i] for i, q in enumerate(dev)]
    return [{'k': 'composite', 'name': 'Repetition9Code', 'involved': dev, 'lead_readout': None, 'lead_gate': None,
             'excl_e': [['X3', 'D8']], 'excl_q': [], 'only': False, 'index': index},
            # the same finding, minimised by the shrinker (replay/C17-9108cca3ec59e927.json, recorded on the pre-fix code)
            {'k': 'composite', 'name': 'Repetition9Code', 'involved': ['D8', 'X3', 'Z1', 'D5'], 'lead_readout': None,
             'lead_gate': None, 'excl_e': [['X3', 'D8']], 'excl_q': [], 'only': False, 'index': index}]


# ------------------------------------------------------------------------- Coq literals
def ce(e):
    return f"({cstr(e[0])}, {cstr(e[1])})"


def cstrs(l):
    return clist([cstr(q) for q in l])


def clayer(l):
    return f"(MkGateLayer {cstrs(l['parks'])} {clist([ce(e) for e in l['gates']])})"


def cgroup(g):
    return f"(MkParityGroup StabilizerType_{g['type']} {cstr(g['ancilla'])} {cstrs(g['data'])})"


def cobs(o):
    gi = clist([copt(x, lambda v: clist(['(%s, %s)' % (cz(a), cz(b)) for a, b in v])) for x in o['gate_idx']])
    pi = clist([copt(x, lambda v: clist([cz(i) for i in v])) for x in o['park_idx']])
    chan = clist(['(%s, %s)' % (cz(k), cstr(v)) for k, v in o['chan']])
    return (f"(MkObs {cstrs(o['qubits'])} {cstrs(o['data'])} {cstrs(o['ancilla'])} {clist([clayer(l) for l in o['layers']])} "
            f"{gi} {pi} {chan})")


def to_coq(c, o):
    k = c['k']
    if not isinstance(o, dict) or 'error' in o:
        return "CError"
    if k == 'device':
        return ("(CDevice " + cstrs(o['qubits']) + " " + clist([ce(e) for e in o['edges']]) + " "
                + clist(['(%s, FrequencyGroup_%s)' % (cstr(q), g) for q, g in o['freq']]) + " "
                + clist([cgroup(g) for g in o['gx']]) + " " + clist([cgroup(g) for g in o['gz']]) + ")")
    if k == 'layout':
        return (f"(CLayout {cstr(c['name'])} {clist([clayer(l) for l in o['layers']])} {clist([cgroup(g) for g in o['pz']])} "
                f"{clist([cgroup(g) for g in o['px']])} {cstrs(o['involved'])} {cstrs(o['data'])} {cstrs(o['ancilla'])})")
    if k == 'derived':
        return f"(CDerived {cstr(c['name'])} {cstrs(c['involved'])} {cobs(o)})"
    if k == 'composite':
        return (f"(CComposite {cstr(c['name'])} {cstrs(c['involved'])} {copt(c['lead_readout'], cstrs)} {copt(c['lead_gate'], cstrs)} "
                f"{clist([ce(e) for e in c['excl_e']])} {cstrs(c['excl_q'])} {cbool(c['only'])} "
                f"{clist(['(%s, %s)' % (cstr(q), cz(i)) for q, i in c['index']])} {cobs(o)} {cbool(o.get('base_unchanged', True))})")
    raise ValueError(k)


def kind(c):
    if c['k'] == 'composite':
        return 'composite(%s, %s)' % ('required parks' if c['only'] else 'inherited parks',
                                      'exclusions' if (c['excl_e'] or c['excl_q']) else 'no exclusions')
    return c['k']


def nontrivial(c, o):
    if not isinstance(o, dict) or 'error' in o:
        return False
    if c['k'] in ('device', 'layout'):
        return True
    return any(l['gates'] for l in o['layers'])


def sample(c, o):
    if c['k'] in ('derived', 'composite') and isinstance(o, dict) and 'layers' in o:
        return {'input': c, 'impl': {'qubits': o['qubits'], 'layers': o['layers'][:2], 'gate_idx': o['gate_idx'][:3], 'park_idx': o['park_idx'][:3]}}
    if isinstance(o, dict) and 'layers' in o:
        return {'input': c, 'impl': {'layers': o['layers'][:2]}}
    return {'input': c, 'impl': o if not isinstance(o, dict) else {k: o[k] for k in list(o)[:2]}}


def shrink_candidates(c):
    """Smaller cases: drop one involved qubit, drop a leading description or an exclusion."""
    if c['k'] == 'derived':
        inv = c['involved']
        if len(inv) > 1:
            for i in range(len(inv)):
                yield dict(c, involved=inv[:i] + inv[i + 1:])
    elif c['k'] == 'composite':
        for key in ('lead_readout', 'lead_gate'):
            if c[key] is not None:
                yield dict(c, **{key: None})
        for key in ('excl_e', 'excl_q'):
            for i in range(len(c[key])):
                yield dict(c, **{key: c[key][:i] + c[key][i + 1:]})
        inv = c['involved']
        if len(inv) > 1:
            for i in range(len(inv)):
                yield dict(c, involved=inv[:i] + inv[i + 1:])


LEVEL_TEXT = ('Coq theorems over layout tables regenerated from the Python source on every run: the Surface-17 device tables are consistent and every layer of the three '
              'shipped repetition layouts is executable (device edges on distinct qubits, nothing parked and gated, every required park present, every parity edge exercised '
              'exactly once) by vm_compute over the shipped tables. For ANY layout and ANY involved-qubit list the derived description keeps exactly the gates with both qubits '
              'involved, parks exactly the required qubits, stays executable and maps its qubits to indices injectively (bijectively onto 0..n-1 for duplicate-free lists); '
              'composite descriptions with exclusions stay executable in both parking modes.')
LEVEL_NOTE = ('The theorems are about the hand-written model C17/Model.v (+ C16/Model.v requires_parking); it is tied to the code by the correspondence run (every shipped '
              'layout, all contiguous data-to-data sub-chains, random subsets/orderings, composite descriptions with random exclusions), whose outputs are judged by spec_ok '
              'written with the frequency rule of C16/Spec.v only. The pre-fix behaviour of finding F11 is kept as C17_composite_before_F11_refuted. Trusted: Coq kernel, '
              'the ast translator (tables also compared with the runtime singletons). No axioms.')
TECHNIQUE = 'Coq proof (finite shipped tables by vm_compute + generic list lemmas for all involved lists) over translator-generated tables, with a sampled model/implementation correspondence judged in Coq'
