"""C01 — relation-based timing.  Core correspondence on random build programs x duration settings (DESIGN.md 7, C01)."""
import coregen
from coregen import gen_case, nontrivial as _nt, c_case, shrink_candidates

ID = 'C01'
GEN_MODULES = ['Ident', 'Classes', 'Flags']
MODEL_TARGETS = ['coq/C01/Run.vo']
PROOF_TARGETS = ['coq/C01/Proofs.vo']
PROPS_FILE = 'coq/Props/C01.v'
RUN_MODULE = 'QCE.C01.Run'
COQ_HEADER = 'From Gen Require Import Ident Classes.\nFrom QCE Require Import Core.Model Core.Run.'
IMPL = 'harness/impl/core_impl.py'
IMPL_KW = {'shards': 12}
SHARD = 100
TRUSTED = ['Gen/Ident.v, Gen/Classes.v regenerated from the source on every run (channel templates, default durations, copy() specs)',
           'Core/Model.v: hand-written model of add_to_graph / layered listing / relation equations / copy / extend / apply_modifiers, tied by this correspondence run']
ASSUMPTIONS = ['binary64 arithmetic is exact on the generated durations (multiples of 0.25 below 2^20); times compared as integers in ticks of 1/8',
               'object identity modelled as insertion index; relation depth <= 300 in generated programs (Python recursion limit is outside the model)']
RULE = ('random build programs (1-12 commands, 1-4 qubits, 26 operation classes weighted, durations from {0,.25,.5,1,2,3,5}, relation none 55% / explicit 40% / dangling 5%, '
        'nesting depth <= 2, repetition counts 1-3) x random global duration settings; observed plain (operations then duration), duration-first, unrolled, unrolled twice. '
        'non-trivial: >= 2 leaves and (a nested block or an explicit relation or two operations sharing a qubit); distinct by hash of the case Plus ~13% structured shapes (coregen.gen_structured: parallel first blocks of unequal length under two levels of repetition with a follower of the first, a repeated block starting with a plain operation and containing a repeated block, two relation branches of unequal depth and length meeting through a barrier, a long chain beside a short operation followed by a repeated block, an early-starting operation in a doubly nested block). Plus observations made AFTER the settings changed (coregen.gen_after_change): the circuit is built, unrolled, listed and every duration read; then the global durations are rotated (half of the cases) and the registry durations permuted (a third of the cases near 10^6 moving by a few units; a fifth set for the FIRST time), and duration, sub-circuit durations and listing are read again; fixed cases: a repeated body starting with a nested block beside a registry-timed wait whose change flips which ends last, and a first-time set key with a follower.')


def gen_cases(rng, tier):
    n = 160 if tier == 'quick' else 3000
    cases = [gen_case(rng, maxlen=rng.choice([4, 8, 12])) for _ in range(n)]
    cases += [coregen.gen_structured(rng) for _ in range(24 if tier == 'quick' else 400)]      # rarely met shapes (coregen.gen_structured)
    cases += coregen.fixed_structured()
    for c in cases:
        c['obs'] = ['plain', 'plain_dur_first', 'unrolled']
    # the relation equations on the numbers reported AFTER the duration settings changed (coregen.gen_after_change)
    cases += coregen.gen_after_change(rng, 30 if tier == 'quick' else 400, lambda: gen_case(rng, maxlen=rng.choice([4, 8])))
    return cases


def to_coq(c, o):
    if c.get('obs') == ['after_change']:
        return c_case(*coregen.after_change_as(c, o, 'unrolled'))
    return c_case(c, o)


def nontrivial(c, o):
    return _nt(c)


def kind(c):
    return ('after-change:' if c.get('obs') == ['after_change'] else '') + ('nested' if coregen.has_sub(c['prog']) else 'flat') + ('+rel' if coregen.has_rel(c['prog']) else '')


def sample(c, o):
    return {'prog': c['prog'], 'env': c['env'], 'reported_first_ops': (o.get('plain') or {}).get('ops', [])[:3]}


LEVEL_TEXT = "Coq theorems over the executable Core model (run_prog / add_node / times / listing): for every build program and duration setting each reported (start, end) is end = start + duration and satisfies its link's equation against the referent's times (three relation types, no relation = enclosing context, multi-link = FOLLOWED_BY the latest-ending member); the solution is unique; adding never moves earlier operations; an operation added without relation hangs below a channel-sharing node of maximal relation depth or at the root; the same through nesting (shift lemma) and after apply_modifiers. The model is tied to the running code by a correspondence run in which spec_ok judges the implementation's reported times directly."
LEVEL_NOTE = "Trusted: Coq kernel (vm_compute), translator for Gen/Ident.v + Gen/Classes.v, the hand-written Core model (tied by correspondence on random nested programs, plain / duration-first / unrolled), exactness of binary64 on multiples of 1/8. Relation depth in generated programs stays far below the interpreter's recursion limit. No axioms."
TECHNIQUE = 'Coq proof over an executable model + correspondence evaluated by vm_compute'
