"""C14 — noise dressing of Stim circuits only adds noise, with the configured strengths (DESIGN.md 7, C14; finding F6)."""
from fractions import Fraction
from common import cz, cbool, cstr, clist

ID = 'C14'
GEN_MODULES = ['Noise']
MODEL_TARGETS = ['coq/C14/Run.vo']
PROOF_TARGETS = ['coq/C14/Proofs.vo', 'coq/C14/PauliBounds.vo']
PROPS_FILE = 'coq/Props/C14.v'
RUN_MODULE = 'QCE.C14.Run'
COQ_HEADER = 'From Gen Require Import Noise.\nFrom QCE Require Import C14.Model.'
IMPL = 'harness/impl/c14_impl.py'
REPEAT_REVERSED = True     # every case is evaluated twice per run, the second time in reversed order in the same processes
SHARD = 60
TRUSTED = [
    'Gen/Noise.v is regenerated from factory_pauli_noise.py, factory_measurement_noise.py, noise_factory_manager.py, '
    'noise_settings_manager.py, intrf_noise_factory.py on every run (formula over R, registrations, duration table, field wiring, defaults); '
    'its tables are compared with the run-time objects (case kind "tables")',
    'Stim itself: flattened(), without_noise(), the names it reports (alias table checked by case kind "alias"), fusion of adjacent equal gates '
    '(the driver splits every instruction per target group and asserts that re-appending the pieces rebuilds the same circuit)',
    'probabilities are not computed in Coq: the model yields the ARGUMENTS (block duration d, T1, T2 in whole ns) of each inserted channel; '
    'the driver evaluates the closed form of get_pauli_error (proved equal to the generated formula: pauli_closed_form) in binary64 with '
    "numpy's exp -- the function the library calls; math.exp differs from it in ~6% of arguments -- for every possible argument triple "
    '(ptable), and Coq compares the float.hex strings of the implementation with the table entry of the model-side / spec-side arguments',
    'range checks (each probability in [0,1], X+Y+Z <= 1) are evaluated exactly (fractions.Fraction) on the implementation floats by the '
    'harness and passed to spec_ok as booleans',
    'times are whole ns n <-> float(f"{n}e-9") (strictly monotone, so max commutes; halving is exact); the driver asserts the round trip',
]
ASSUMPTIONS = [
    'inputs are circuits the exporter can produce: plain qubit targets on gates/resets/measurements, measurements without arguments, no noise '
    'instructions (hypothesis `supported` of strip_dress); other inputs make extract_instruction_targets raise or are already noisy',
    'real-number semantics of get_pauli_error (np.exp as the real exponential); IEEE evaluation is not modelled, it is tied by the exact '
    'float.hex comparison against the driver-side evaluation only',
    'dictionaries as association lists with unique keys; QubitIDObj equality is equality of names (C19)',
]
RULE = ('random Stim circuits over 1-4 qubit indices (not necessarily contiguous) built from what the exporter emits: R/RX, H X Y I SQRT_X(_DAG) '
        'SQRT_Y(_DAG), CZ, M with 1..n targets, TICK (also doubled / trailing / absent), DETECTOR(q,0) rec.., OBSERVABLE_INCLUDE(0) rec.., '
        'SHIFT_COORDS, REPEAT blocks (count 1-3, nesting <= 2); x noise settings: library defaults or random default + per-qubit T1/T2 '
        '(T2 also > 2*T1), assignment error, operation durations (incl. 0 and measurement shorter than gates); x index maps empty / partial / '
        'full (also naming identifiers without individual entry). Fixed edge cases first. non-trivial: >= 1 measurement, >= 2 blocks, and an '
        'individual entry reached through the map'
        ' A third of the dress cases first dress the same circuit once with the SAME settings object and the identifiers rotated over the indices (result discarded).')

GATES1 = ['H', 'X', 'Y', 'I', 'SQRT_X', 'SQRT_X_DAG', 'SQRT_Y', 'SQRT_Y_DAG']
NAMES = ['D1', 'D2', 'D3', 'Z1', 'X1', 'X2']
DUR_FIELDS = ['duration_mz', 'duration_cz', 'duration_h', 'duration_x']
ALIASES = ['MZ', 'RZ', 'CNOT', 'ZCX', 'ZCZ', 'H_XZ', 'M', 'R', 'RX', 'H', 'X', 'Y', 'I', 'CZ', 'SQRT_X', 'SQRT_X_DAG', 'SQRT_Y',
           'SQRT_Y_DAG', 'TICK', 'MX', 'MR']


# ------------------------------------------------------------------------------------------------ generators
def ins(name, targets, coords=None):
    return ['I', name, targets, coords]


def gen_body(rng, qubits, depth, nmeas_before, budget):
    """-> (items, number of measurements one execution of the body makes)"""
    items, nm = [], 0
    n = rng.randint(1, budget)
    for _ in range(n):
        r = rng.random()
        avail = nmeas_before + nm
        if r < 0.08:
            items.append(ins(rng.choice(['R', 'R', 'RX']), [['q', rng.choice(qubits)]]))
        elif r < 0.30:
            for q in rng.sample(qubits, rng.randint(1, len(qubits))):
                items.append(ins(rng.choice(GATES1 if rng.random() < 0.5 else ['H', 'X']), [['q', q]]))
        elif r < 0.40 and len(qubits) >= 2:
            qs = rng.sample(qubits, 2 * rng.randint(1, len(qubits) // 2))
            for i in range(0, len(qs), 2):
                items.append(ins('CZ', [['q', qs[i]], ['q', qs[i + 1]]]))
        elif r < 0.58:
            qs = rng.sample(qubits, rng.randint(1, len(qubits)))
            if rng.random() < 0.15:
                qs = qs + [qs[0]]
            items.append(ins('M', [['q', q] for q in qs]))
            nm += len(qs)
        elif r < 0.65 and avail >= 1:
            k = rng.randint(1, min(2, avail))
            recs = [['rec', -j] for j in rng.sample(range(1, avail + 1), k)]
            items.append(ins('DETECTOR', recs, rng.choice([[rng.choice(qubits), 0], [rng.choice(qubits), 0], [rng.randint(0, 3)], None,
                                                           [1, 2, 3]])))
        elif r < 0.68 and avail >= 1:
            items.append(ins('OBSERVABLE_INCLUDE', [['rec', -rng.randint(1, avail)]], [rng.randint(0, 1)]))
        elif r < 0.72:
            items.append(ins('SHIFT_COORDS', [], rng.choice([[0, 1], [0, 1], [1, 0], [2], [0, 0, 1]])))
        elif r < 0.80 and depth < 2 and budget >= 3:
            body, bm = gen_body(rng, qubits, depth + 1, avail, max(2, budget // 2))
            cnt = rng.choice([1, 2, 2, 3])
            items.append(['R', cnt, body])
            nm += bm * cnt
        else:
            items.append(ins('TICK', []))
            if rng.random() < 0.08:
                items.append(ins('TICK', []))
    return items, nm


def gen_qp(rng):
    t1 = rng.choice([rng.randint(1000, 100000), rng.randint(200, 3000), 10000, 30000])
    r = rng.random()
    if r < 0.6:
        t2 = rng.randint(max(1, t1 // 4), 2 * t1)
    elif r < 0.8:
        t2 = 2 * t1
    else:
        t2 = rng.randint(2 * t1 + 1, 6 * t1)         # unphysical T2 > 2*T1: the clamp becomes active
    return {'t1': t1, 't2': t2, 'ae': rng.choice([0, 100, 300, rng.randint(0, 5000), rng.randint(0, 10000), 10000]), 'sq': rng.choice([0, 0, 10])}


def gen_settings(rng, names_in_map):
    r = rng.random()
    if r < 0.12:
        return None                                   # NoiseSettings(): every default of the library
    s = {'default': gen_qp(rng) if rng.random() < 0.85 else None, 'individual': [], 'durations': None}
    cand = [n for n in names_in_map if rng.random() < 0.75] + [n for n in NAMES if n not in names_in_map][:rng.choice([0, 0, 1, 2])]
    rng.shuffle(cand)
    for n in cand:
        s['individual'].append([n, gen_qp(rng)])
    if rng.random() < 0.85:
        pool = [0, 20, 20, 40, 60, 100, 340, 500, 1000, rng.randint(1, 2000)]
        if rng.random() < 0.15:
            pool = [0, 1, 1, 2, 2, 3]                  # durations of a nanosecond or two: still not "no idling"
        d = {f: rng.choice(pool) for f in DUR_FIELDS}
        r = rng.random()
        if r < 0.25:
            d['duration_mz'] = 0                       # measurement shorter than everything: F6 cannot show
        elif r < 0.40:
            d['duration_mz'] = min(d['duration_cz'], d['duration_h'], d['duration_x'])
        s['durations'] = d
    return s


def gen_map(rng, qubits):
    kind = rng.choice(['empty', 'partial', 'full', 'full'])
    names = NAMES[:]
    rng.shuffle(names)
    if kind == 'empty':
        return kind, []
    qs = list(qubits)
    if kind == 'partial':
        qs = rng.sample(qs, rng.randint(1, max(1, len(qs) - 1))) if len(qs) > 1 else []
        if rng.random() < 0.3:
            qs.append(max(qubits) + 3)                  # an index the circuit does not use
    rng.shuffle(qs)
    return kind, [[q, names[i]] for i, q in enumerate(qs)]


def render(items, indent=0):
    out = []
    pad = ' ' * indent
    for it in items:
        if it[0] == 'R':
            out.append(f"{pad}REPEAT {it[1]} {{")
            out += render(it[2], indent + 4)
            out.append(pad + "}")
        else:
            _, name, targets, coords = it
            a = '' if coords is None else '(' + ', '.join(str(c) for c in coords) + ')'
            t = ''.join(' ' + (str(v) if k == 'q' else f"rec[{v}]") for k, v in targets)
            out.append(f"{pad}{name}{a}{t}")
    return out


def mk(items, settings, qmap, mkind='fixed'):
    return {'k': 'dress', 'text': '\n'.join(render(items)) + '\n', 'circuit': items, 'settings': settings, 'map': qmap, 'mkind': mkind}


def q(i):
    return ['q', i]


def fixed_cases():
    ind = [['D1', {'t1': 5000, 't2': 7000, 'ae': 300, 'sq': 0}]]
    s1 = {'default': {'t1': 10000, 't2': 20000, 'ae': 100, 'sq': 0}, 'individual': ind,
          'durations': {'duration_mz': 500, 'duration_cz': 60, 'duration_h': 20, 'duration_x': 20}}
    s0 = dict(s1, durations={'duration_mz': 0, 'duration_cz': 60, 'duration_h': 20, 'duration_x': 20})
    cs = [
        mk([], None, []),
        mk([ins('TICK', [])], None, []),
        mk([ins('H', [q(0)])], None, []),                                   # no measurement, no TICK
        mk([ins('H', [q(0)]), ins('TICK', [])], s1, [[0, 'D1']]),             # trailing TICK: empty last block
        mk([ins('M', [q(0)])], s0, [[0, 'D1']]),                              # measurement of duration 0
        mk([ins('M', [q(0)])], None, []),                                    # F6 minimal: measurement block idles 0 s
        mk([ins('R', [q(0)]), ins('R', [q(1)]), ins('R', [q(2)]), ins('TICK', []), ins('H', [q(0)]), ins('H', [q(1)]),
            ins('CZ', [q(0), q(1)]), ins('CZ', [q(1), q(2)]), ins('TICK', []), ins('M', [q(0), q(1)]), ins('M', [q(2)]),
            ins('DETECTOR', [['rec', -1], ['rec', -2]], [1, 0]), ins('SHIFT_COORDS', [], [0, 1]),
            ['R', 2, [ins('X', [q(0)]), ins('TICK', []), ins('M', [q(1)]), ins('DETECTOR', [['rec', -1], ['rec', -2]], [1, 0]),
                      ins('SHIFT_COORDS', [], [0, 1])]],
            ins('OBSERVABLE_INCLUDE', [['rec', -1]], [0]), ins('TICK', [])], s1, [[1, 'D1']]),
        mk([ins('CZ', [q(0), q(5)]), ins('M', [q(5), q(0)]), ins('TICK', []), ins('TICK', []), ins('X', [q(5)])], s0, [[5, 'D1'], [0, 'Z1']]),
    ]
    return cs


def gen_cases(rng, tier):
    cases = [{'k': 'tables'}] + [{'k': 'alias', 'given': a} for a in ALIASES] + fixed_cases()
    n = 400 if tier == 'quick' else 5000
    for _ in range(n):
        nq = rng.choice([1, 2, 2, 3, 3, 4])
        qubits = sorted(rng.sample(range(0, 7), nq)) if rng.random() < 0.4 else list(range(nq))
        items, _ = gen_body(rng, qubits, 0, 0, rng.choice([3, 6, 10, 14, 18, 22]))
        if rng.random() < 0.12:
            items = strip_meas(items)
        mkind, qmap = gen_map(rng, qubits)
        settings = gen_settings(rng, [n for _, n in qmap])
        c = mk(items, settings, qmap, mkind)
        # a third of the cases dress the same circuit once before, with the SAME settings object and the identifiers rotated over the
        # indices (state surviving between calls -- memo tables, shared defaults -- must not leak into the judged result)
        c['warm'] = rng.random() < 0.33
        cases.append(c)
    return cases


def strip_meas(items):
    """a circuit without measurements (and hence without record references)"""
    out = []
    for it in items:
        if it[0] == 'R':
            out.append(['R', it[1], strip_meas(it[2])])
        elif it[1] in ('M', 'DETECTOR', 'OBSERVABLE_INCLUDE'):
            continue
        else:
            out.append(it)
    return out


# ------------------------------------------------------------------------------------------------ Coq printers
def ctarget(t):
    return f"(TQ {cz(t[1])})" if t[0] == 'q' else f"(TRec {cz(t[1])})"


def cinstr_tree(it):
    _, name, targets, coords = it
    a = 'ANone' if coords is None else f"(ACoords {clist([cz(x) for x in coords])})"
    return f"(MkI {cstr(name)} {clist([ctarget(t) for t in targets])} {a})"


def citem(it):
    if it[0] == 'R':
        return f"(Rep {cz(it[1])} {clist([citem(x) for x in it[2]])})"
    return f"(It {cinstr_tree(it)})"


def cinstr_out(i):
    name, targets, kind, args = i
    if kind == 'N':
        a = 'ANone'
    elif kind == 'C':
        a = f"(ACoords {clist([cz(x) for x in args])})"
    elif kind == 'E':
        a = f"(AErr {cstr(args[0])})"
    else:
        a = f"(AProbs {cstr(args[0])} {cstr(args[1])} {cstr(args[2])})"
    return f"(MkI {cstr(name)} {clist([ctarget(t) for t in targets])} {a})"


def cqp(p):
    return f"(MkQubitNoiseModelParameters {cz(p['t1'])} {cz(p['t2'])} {cstr(p['ae'])} {cstr(p['sq'])})"


def cdurs(d):
    return "(MkOperationDurationParameters " + " ".join(cz(v) for _, v in d) + ")"


def csettings(s):
    ind = clist([f"({cstr(n)}, {cqp(p)})" for n, p in s['individual']])
    return f"(MkSettings {cqp(s['default'])} {ind} {cdurs(s['durations'])})"


def cpairs(l, f, g):
    return clist([f"({f(a)}, {g(b)})" for a, b in l])


def range_ok(i):
    name, targets, kind, args = i
    vals = [Fraction(*float.fromhex(a).as_integer_ratio()) for a in args]
    return all(0 <= v <= 1 for v in vals) and sum(vals) <= 1


def noisy(i):
    return i[2] in ('P', 'E')


ERROR_CASE = ('(CDress true (MkSettings NoiseSettings_default_qubit [] OperationDurationParameters_default) [] [] [] [] [] false [] [])')


def to_coq(c, o):
    k = c['k']
    if 'error' in o:
        return ERROR_CASE          # fails agree and spec_ok alike
    if k == 'tables':
        n = o['n_fields']
        probe = "(MkOperationDurationParameters " + " ".join(str(i + 1) for i in range(n)) + ")"
        return (f"(CTables {cpairs(o['lookup'], cstr, cstr)} {cpairs(o['additives'], cstr, cstr)} {cpairs(o['mapper'], cstr, cz)} "
                f"(duration_mapper {probe}) {cdurs(o['durs'])} OperationDurationParameters_default {cz(o['default_duration'])} "
                f"{cqp(o['ns_default'])} {cqp(o['qp_default'])})")
    if k == 'alias':
        return f"(CAlias {cstr(c['given'])} {cstr(o['reported'])})"
    tb = clist([f"(({cz(d)}, {cz(t1)}, {cz(t2)}), ({cstr(p[0])}, {cstr(p[1])}, {cstr(p[2])}))" for d, t1, t2, p in o['ptable']])
    rng_ = clist([cbool(range_ok(i)) for i in o['out'] if noisy(i)])
    return (f"(CDress false {csettings(o['settings'])} {cpairs(o['map'], cz, cstr)}\n  {clist([citem(x) for x in c['circuit']])}\n  "
            f"{clist([cinstr_out(i) for i in o['flat']])}\n  {clist([cinstr_out(i) for i in o['out']])}\n  "
            f"{clist([cinstr_out(i) for i in o['stripped']])} {cbool(o['wn_eq'])}\n  {tb} {rng_})")


# ------------------------------------------------------------------------------------------------ metadata
def kind(c):
    return c['k'] if c['k'] != 'dress' else 'dress/map=' + c.get('mkind', '?') + ('/defaults' if c['settings'] is None else '') + ('/warm' if c.get('warm') else '')


def blocks_of(flat):
    bs, cur = [], []
    for i in flat:
        cur.append(i)
        if i[0] == 'TICK':
            bs.append(cur)
            cur = []
    bs.append(cur)
    return bs


def nontrivial(c, o):
    if c['k'] != 'dress' or 'error' in o:
        return False
    flat = o['flat']
    has_m = any(i[0] == 'M' for i in flat)
    nblocks = len([b for b in blocks_of(flat) if b])
    ind = {n for n, _ in o['settings']['individual']}
    used = {t[1] for i in flat if i[0] not in ('DETECTOR', 'OBSERVABLE_INCLUDE') for t in i[1] if t[0] == 'q'}
    reached = any(q_ in used and n in ind for q_, n in o['map'])
    return has_m and nblocks >= 2 and reached


F6_CLASS = 'block containing a measurement'


def known_class(c, o):
    """F6: the duration table is keyed 'MZ' but Stim reports a measurement as 'M', so a measurement contributes 0 s to its block.
    The class is exactly the family where that changes the output: the circuit has a qubit target and some TICK-delimited block
    contains a measurement whose configured duration exceeds every other configured duration in that block."""
    if c['k'] != 'dress' or 'error' in o or 'flat' not in o:
        return None
    flat = o['flat']
    if not any(t[0] == 'q' for i in flat for t in i[1]):
        return None
    durs = dict(o['settings']['durations'])
    mz = durs.get('duration_mz', 0)
    other = {'CZ': durs.get('duration_cz', 0), 'H': durs.get('duration_h', 0), 'X': durs.get('duration_x', 0)}
    for b in blocks_of(flat):
        if any(i[0] == 'M' for i in b) and mz > max([other.get(i[0], 0) for i in b if i[0] != 'M'] + [0]):
            return F6_CLASS
    return None


def shrink_candidates(c):
    """smaller variants of a dress case: drop one top-level item, unroll/lower a REPEAT, drop map / individual entries,
    fall back to the library defaults"""
    if c['k'] != 'dress':
        return
    items = c['circuit']
    for i in range(len(items)):
        yield mk(items[:i] + items[i + 1:], c['settings'], c['map'], c.get('mkind', '?'))
    for i, it in enumerate(items):
        if it[0] == 'R':
            yield mk(items[:i] + it[2] + items[i + 1:], c['settings'], c['map'], c.get('mkind', '?'))
            if it[1] > 1:
                yield mk(items[:i] + [['R', it[1] - 1, it[2]]] + items[i + 1:], c['settings'], c['map'], c.get('mkind', '?'))
        elif it[1] == 'M' and len(it[2]) > 1:
            yield mk(items[:i] + [ins('M', it[2][:-1])] + items[i + 1:], c['settings'], c['map'], c.get('mkind', '?'))
    for i in range(len(c['map'])):
        yield mk(items, c['settings'], c['map'][:i] + c['map'][i + 1:], c.get('mkind', '?'))
    s = c['settings']
    if s is not None:
        yield mk(items, None, c['map'], c.get('mkind', '?'))
        for i in range(len(s['individual'])):
            yield mk(items, dict(s, individual=s['individual'][:i] + s['individual'][i + 1:]), c['map'], c.get('mkind', '?'))
        if s.get('durations') is not None:
            yield mk(items, dict(s, durations=None), c['map'], c.get('mkind', '?'))
        if s.get('default') is not None:
            yield mk(items, dict(s, default=None), c['map'], c.get('mkind', '?'))


def sample(c, o):
    if c['k'] != 'dress':
        return {'input': c, 'impl': o}
    return {'input': {'text': c['text'], 'settings': c['settings'], 'map': c['map']},
            'impl': {'out': o.get('out', o)[:12] if isinstance(o.get('out'), list) else o}}


LEVEL_TEXT = ('Machine-checked theorems (Coq) about an executable model of apply_noise whose tables, field wiring and T1/T2 formula are regenerated '
              'from the Python source on every run: stripping the dressed circuit gives back the (normalised) flattened input; every measurement '
              'carries the assignment error configured for its qubit; every block is wrapped by one channel per qubit with arguments (block '
              'maximum / 2, T1 q, T2 q); over the reals the generated formula yields px,py,pz in [0,1] with px+py+pz <= 1 for all t >= 0, T1,T2 > 0 '
              '(thanks to its clamp; without clamp exactly when T2 <= 2*T1). The clause "measurements included" is REFUTED for the code as it is '
              '(F6, witness theorem) and proved conditionally on the duration table being keyed by the name Stim reports. Randomised exact '
              'correspondence (float.hex) ties model, Stim and the running code.')
LEVEL_NOTE = ('Trusted: Coq kernel, the ast translator (tables compared with run-time objects), Stim, the driver-side binary64 evaluation of the '
              'formula. Axioms: the four of the standard library Reals (pauli_bounds only). IEEE evaluation of the formula is not modelled.')
TECHNIQUE = 'Coq proof over translator-generated definitions + randomised correspondence evaluated by vm_compute (spec_ok is the judge)'
