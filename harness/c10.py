"""C10 — library circuits never double-book a qubit channel (DESIGN.md 7, C10)."""
import libgen

ID = 'C10'
GEN_MODULES = ['Ident', 'Classes']
MODEL_TARGETS = ['coq/C10/Run.vo']
PROOF_TARGETS = ['coq/C10/Proofs.vo']
PROPS_FILE = 'coq/Props/C10.v'
RUN_MODULE = 'QCE.C10.Run'
COQ_HEADER = 'From Gen Require Import Ident Classes.\nFrom QCE Require Import Core.Model Core.Run Lib.Run C10.Model.'
IMPL = 'harness/impl/core_impl.py'
IMPL_KW = {'shards': 12}
SHARD = 6
EXTRA_FNS = ('agree_model', 'cert_plain', 'cert_unrolled', 'cert_strict_plain', 'cert_strict_unrolled')
TRUSTED = ['Gen/Classes.v, Gen/Ident.v regenerated from the source on every run (operation classes: channels, default durations; ChannelIdentifier.__eq__)',
           'Core/Model.v times / ext_of / listing_op / apply_modifiers: hand-written, tied to the implementation by this correspondence run on the relation graph '
           'extracted from the real library-built circuit (harness/impl/lib_impl.py records the true insertion order)',
           'the max-plus scheduler C10/Model.v is NOT trusted: it is proved sound w.r.t. Core/Model.v (C10_symbolic_listing_sound)']
ASSUMPTIONS = ['durations are multiples of 0.25 (2 ticks of 1/8), so readout - microwave is even in ticks and the decoupling wait 0.5*(R-M) is exact; the theorems state this parity hypothesis',
               'global durations are non-negative (the property text says positive); registry-keyed durations do not occur in library circuits (the symbolic scheduler rejects them)']
RULE = ('library constructor inputs x global duration settings: construct_repetition_code_circuit and ..._simplified on from_chain descriptions (length 3..9) and on contiguous '
        'data-to-data sub-chains of the three shipped layouts, cycles 0..6, refocusing on/off, random initial states; construct_repetition_code_multi_round_circuit on rounds lists; '
        'construct_calibration_circuit (QUBIT / QUTRIT, 1..5 qubits); each under positive settings for READOUT, MICROWAVE, FLUX, RESET that are multiples of 0.25 and include '
        'microwave > readout, all equal, all 0.25 and 2^15.  Observed: extracted relation graph, listing (class, channels, start, end) and duration as constructed and after '
        'apply_modifiers().  Non-trivial: at least 2 QEC cycles (or 2 rounds entries / a QUTRIT calibration) so that repetition blocks, barriers and measurements interleave'
        ' A third of the repetition-code inputs is run a second time as: fresh construction, apply_modifiers(), the duration read first, then the listing. Three fixed inputs use a CompositeRepetitionCodeDescription (two ancillas active in the same layers, the last gate edge of one of them excluded or none) under microwave > flux.')


def _env_corners(rng):
    big = libgen.BIG
    return [{'READOUT': 1.0, 'MICROWAVE': 3.0, 'FLUX': 0.5, 'RESET': 2.0},            # microwave > readout
            {'READOUT': 1.0, 'MICROWAVE': 1.0, 'FLUX': 1.0, 'RESET': 1.0},            # all equal
            {'READOUT': 0.25, 'MICROWAVE': 0.25, 'FLUX': 0.25, 'RESET': 0.25},        # the smallest step
            {'READOUT': big, 'MICROWAVE': 0.25, 'FLUX': big, 'RESET': 1.0},           # 2^15, wait = (2^15 - 0.25)/2
            {'READOUT': 3.0, 'MICROWAVE': 0.5, 'FLUX': 0.25, 'RESET': 5.0}]           # long readout, odd multiple of 0.25 wait


def gen_cases(rng, tier):
    quick = tier == 'quick'
    max_d, max_c = (4, 5) if quick else (5, 6)
    cases = []
    # fixed part: every constructor under every corner setting (small inputs), refocusing on and off
    for i, env in enumerate(_env_corners(rng)):
        L = [3, 5, 7, 5, 3][i]
        d = (L + 1) // 2
        for k in ('repcode', 'simplified'):
            cases.append({'k': k, 'desc': {'src': 'chain', 'length': L, 'refocus': i % 2 == 0}, 'init': [rng.randint(0, 1) for _ in range(d)],
                          'cycles': [4, 2, 1, 3, 0][i], 'env': env})
        if i < 2:
            cases.append({'k': 'multi', 'desc': {'src': 'chain', 'length': 3, 'refocus': i == 0}, 'init': [0, 1], 'rounds': [[0, 2], [1, 3, 1]][i], 'env': env})
        cases.append({'k': 'calib', 'n': 1 + i % 3, 'type': ['QUTRIT', 'QUBIT'][i % 2], 'env': env})
        # a layout sub-chain (these park qubits during the flux layers: flux against microwave lengths matter)
        chains = [ch for ch in libgen.sub_chains('Repetition9Round6Code', 3) if len(ch) == 5]
        inv = chains[(3 * i + 1) % len(chains)]
        cases.append({'k': 'repcode', 'desc': {'src': 'layout', 'name': 'Repetition9Round6Code', 'involved': inv, 'refocus': True},
                      'init': [rng.randint(0, 1) for _ in range((len(inv) + 1) // 2)], 'cycles': 2, 'env': env})
    # a multi-round experiment whose bulk block (cycles - 3 >= 2 repetitions) is unrolled, flattened and then copied into the experiment,
    # on a chain whose first gate layer activates two ancillas (the copy of a group relation must keep every member)
    cases.append({'k': 'multi', 'desc': {'src': 'chain', 'length': 5, 'refocus': True}, 'init': [0, 1, 0], 'rounds': [5], 'env': _env_corners(rng)[0]})
    # a derived (composite) description: two ancillas active in the same gate layers, the LAST gate edge of one of them excluded
    # (its closing rotation then shares a layer with the other ancilla's flux operations), microwave longer than flux
    for excl, cyc in (([['Z2', 'D3']], 1), ([['Z1', 'D5']], 3), ([], 2)):
        cases.append({'k': 'repcode', 'desc': {'src': 'composite', 'name': 'Repetition9Code', 'involved': ['D4', 'Z1', 'D5', 'D3', 'Z2', 'D6'],
                                               'excl_e': excl, 'refocus': True},
                      'init': [rng.randint(0, 1) for _ in range(4)], 'cycles': cyc, 'env': _env_corners(rng)[0]})
    # random part
    n = {'repcode': 12, 'simplified': 9, 'multi': 4, 'calib': 3} if quick else {'repcode': 220, 'simplified': 140, 'multi': 40, 'calib': 40}
    for kind, cnt in n.items():
        for _ in range(cnt):
            c = libgen.gen_lib_case(rng, kind, max_d=max_d, max_cycles=max_c)
            if kind == 'multi' and quick:
                c['rounds'] = [min(r, 3) for r in c['rounds'][:2]]
            cases.append(c)
    if not quick:   # long chains (distance 5, length 9) and 6 cycles under the corner settings
        for env in _env_corners(rng):
            for k in ('repcode', 'simplified'):
                cases.append({'k': k, 'desc': {'src': 'chain', 'length': 9, 'refocus': True}, 'init': [0, 1, 0, 1, 0], 'cycles': 6, 'env': env})
    for c in cases:
        c['obs'] = ['structure', 'plain', 'unrolled']
    # a third of the inputs a second time: fresh construction, apply_modifiers(), the DURATION read first and only then the listing
    # (a time memoised before the first listing of an unrolled copy must not survive the hand-off of the relation links)
    extra = [dict(c, dur_first=True, obs=['structure', 'unrolled']) for i, c in enumerate(cases) if i % 3 == 0 and c['k'] in ('repcode', 'simplified')]
    return cases + extra


def corpus():
    # F18 (fixed by 4104f91): the simplified constructor without refocusing scheduled the final measurements and the closing
    # barrier parallel to the QEC cycle block (closing Barrier 20-24 over CPhase(0,1) 20-28 in ticks, any setting)
    w = {'k': 'simplified', 'desc': {'src': 'chain', 'length': 3, 'refocus': False}, 'init': [0, 0], 'cycles': 1,
         'env': {'READOUT': 1.0, 'MICROWAVE': 1.0, 'FLUX': 1.0, 'RESET': 1.0}, 'obs': ['structure', 'plain', 'unrolled']}
    return [w, dict(w, cycles=3, env={'READOUT': 2.0, 'MICROWAVE': 0.5, 'FLUX': 1.0, 'RESET': 3.0})]


def shrink_candidates(case):
    k = case['k']
    if k in ('repcode', 'simplified'):
        if case['cycles'] > 0:
            yield dict(case, cycles=case['cycles'] - 1)
            yield dict(case, cycles=0)
        d = case['desc']
        if d['src'] == 'chain' and d['length'] > 3:
            yield dict(case, desc=dict(d, length=d['length'] - 2), init=case['init'][:-1])
        if d['src'] == 'layout' and len(d['involved']) > 3:
            yield dict(case, desc=dict(d, involved=d['involved'][:-2]), init=case['init'][:-1])
            yield dict(case, desc=dict(d, involved=d['involved'][2:]), init=case['init'][1:])
    elif k == 'multi':
        r = case['rounds']
        if len(r) > 1:
            yield dict(case, rounds=r[:-1])
            yield dict(case, rounds=r[1:])
        for i, x in enumerate(r):
            if x > 0:
                yield dict(case, rounds=r[:i] + [x - 1] + r[i + 1:])
    elif k == 'calib':
        if case['n'] > 1:
            yield dict(case, n=case['n'] - 1)
        if case['type'] == 'QUTRIT':
            yield dict(case, type='QUBIT')
    one = {'READOUT': 1.0, 'MICROWAVE': 1.0, 'FLUX': 1.0, 'RESET': 1.0}
    if case['env'] != one:
        yield dict(case, env=one)
        for key in one:
            if case['env'][key] != 1.0:
                yield dict(case, env=dict(case['env'], **{key: 1.0}))


def _match(a, b):
    return a[0] == b[0] and (a[1] == b[1] or a[1] == 'ALL' or b[1] == 'ALL')


def py_spec_fail(case, out):
    """extra search oracle (never the only judge): direct O(n^2) scan of the reported listings, both clauses"""
    for which in ('plain', 'unrolled'):
        ops = (out.get(which) or {}).get('ops') or []
        for i, a in enumerate(ops):
            for b in ops[i + 1:]:
                if a['s'] < b['e'] and b['s'] < a['e'] and any(_match(x, y) for x in a['ch'] for y in b['ch']):
                    both_positive = a['s'] < a['e'] and b['s'] < b['e']
                    if both_positive or 'Barrier' in (a['cls'], b['cls']):
                        return True
    return False


def to_coq(c, o):
    return f"(KLib {libgen.c_lcase(c, o)})"


def nontrivial(c, o):
    if 'error' in o:
        return False
    if c['k'] in ('repcode', 'simplified'):
        return c['cycles'] >= 2
    if c['k'] == 'multi':
        return len(c['rounds']) >= 2
    return c.get('type') == 'QUTRIT'


def kind(c):
    e = c['env']
    cls = ('mw>ro' if e['MICROWAVE'] > e['READOUT'] else 'equal' if len(set(e.values())) == 1 else 'big' if max(e.values()) >= libgen.BIG else 'ro>=mw')
    return f"{c['k']}:{cls}"


def sample(c, o):
    return {'library_input': {k: v for k, v in c.items() if k != 'obs'},
            'listed_operations': len((o.get('plain') or {}).get('ops', [])), 'unrolled_operations': len((o.get('unrolled') or {}).get('ops', []))}


SUPPORTING = ['libbuild']      # constructors as Gallina build programs (coq/LibBuild), tied node for node to the real constructors; LibBuild_chain_no_overlap_partial
LEVEL_TEXT = ('Coq proof for the "all duration settings" half of the quantifier, per constructor input: a symbolic scheduler computes the listing of a relation graph once, '
              'with starts and ends as max-plus forms over R, M, F, S and the decoupling wait W; it is proved equal to the model\'s scheduler (Core/Model.v times / ext_of / '
              'listing_op, nested blocks and multi-links included) for every setting with non-negative globals and R - M even (C10_symbolic_listing_sound); a decidable order '
              'on forms (uses only R, M, F, S, W >= 0, 2W + M >= R and 2W <= R) is proved sound (C10_mp_le_sound); hence one vm_compute evaluation of cert_no_overlap on a graph proves '
              'that no two channel-sharing operations of non-zero length overlap and nothing - zero-length operations included - sits inside a barrier under EVERY such setting, as constructed '
              '(C10_certified) and after unrolling (C10_certified_unrolled, using that unrolling is setting-independent). The certificate is evaluated on the relation graph '
              'extracted from every generated library circuit and is part of the tie, so each passing case is a theorem instance over all settings '
              '(C10_holds_all_settings_partial), and the tie implies the judge (C10_tie_implies_spec).')
LEVEL_NOTE = ('Partial: the "all constructor inputs" half (chain descriptions, layouts, cycle counts, initial states, calibration type) is covered by generation, not by proof - '
              'no closed-form schedule of the constructors is derived, the certificate is computed per extracted graph. The supporting check LIBBUILD (run by this check, verdict reported here) models the constructors themselves as Gallina build programs tied node for node to the real constructors, and LibBuild_chain_no_overlap_partial proves the certificate for the PROGRAM rep_code_prog on a finite list of inputs (d=2 all data states, d=3 selected, 0..6 cycles, plain and unrolled), i.e. without extracting a graph from the implementation; and, because neither the symbolic scheduler nor the certificate reads a repetition count (LibBuild_cert_ignores_reps) and every circuit with >= 4 cycles has the shape of the one with 4 (LibBuild_rep_code_cert_bulk), the circuit AS CONSTRUCTED is proved overlap-free and barrier-clear under every admissible setting for EVERY cycle count: chains d = 2, 3 with every state, d = 4 with full data states, all 82 layout sub-chains with one state each (LibBuild_chain2/3_no_overlap_plain_all_cycles, ..._partial). The unrolled circuit for every cycle count is not covered. The theorems are about Core/Model.v run on the '
              'structure extracted from the real circuit (true insertion order recorded by the driver); model and implementation are tied by exact equality of the reported '
              'listing (class, channels, start, end, length, tag) and duration under sampled settings (microwave > readout, all equal, 0.25, 2^15 included), plain and '
              'unrolled, and the implementation\'s listing is judged by spec_ok without the model. Hypotheses on settings: non-negative (the text says positive) and '
              '(R - M) mod 2 = 0 in 1/8 ticks, i.e. durations are multiples of 0.25; without parity the model\'s floor division makes 2W + M >= R false '
              '(C10_wait_fact_without_parity_refuted) while the Python float wait stays exact, so this is a limit of the integer model, not of the code. Zero-length '
              'operations (virtual phases, detectors, CoordinateShiftOperation = the barrier-like operation without length) are never "positive"; clause 2 is checked with '
              'the open-interval test (barrier_clear); the strict certificate (no zero-length operation strictly inside ANY channel-sharing operation, C10_certified_strict) also holds '
              'on every generated library circuit but is only reported (extra_functions_false_on), not part of the tie. Finding F18 (simplified constructor without '
              'refocusing: closing barrier over the QEC cycle) was found by this check and is fixed (4104f91); its witness runs first on every check. No axioms.')
TECHNIQUE = ('Coq proof of a symbolic (max-plus) scheduler against the executable model + reflective certificate (vm_compute) per extracted library circuit, with a sampled '
             'model/implementation correspondence judged in Coq')
