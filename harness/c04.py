"""C04 — duration spans everything contained.  Core correspondence (DESIGN.md 7, C04)."""
import coregen
from coregen import gen_case, nontrivial as _nt, c_case, shrink_candidates

ID = 'C04'
GEN_MODULES = ['Ident', 'Classes']
MODEL_TARGETS = ['coq/C04/Run.vo']
PROOF_TARGETS = ['coq/C04/Proofs.vo', 'coq/Core/EnvIndep.vo']
PROPS_FILE = 'coq/Props/C04.v'
RUN_MODULE = 'QCE.C04.Run'
COQ_HEADER = 'From Gen Require Import Ident Classes.\nFrom QCE Require Import Core.Model Core.Run.'
IMPL = 'harness/impl/core_impl.py'
IMPL_KW = {'shards': 12}
SHARD = 100
TRUSTED = ['Gen/Ident.v, Gen/Classes.v regenerated from the source on every run',
           'Core/Model.v: hand-written model (relation equations, span computation of CircuitCompositeOperation.duration), tied by this correspondence run']
ASSUMPTIONS = ['binary64 arithmetic exact on generated durations; times compared as integers in ticks of 1/8']
RULE = ('random build programs as for C01, with a raised share of JOINED_START / JOINED_END relations and long/short duration mixes so that the last-ending operation '
        'is often not a relation leaf and operations start before the first-added ones; non-trivial: >= 2 leaves and (nested or explicit relation or shared qubit) Plus ~13% structured shapes (coregen.gen_structured: parallel first blocks of unequal length under two levels of repetition with a follower of the first, a repeated block starting with a plain operation and containing a repeated block, two relation branches of unequal depth and length meeting through a barrier, a long chain beside a short operation followed by a repeated block, an early-starting operation in a doubly nested block). Plus observations made AFTER the settings changed (coregen.gen_after_change): the circuit is built, unrolled, listed and every duration read; then the global durations are rotated (half of the cases) and the registry durations permuted (a third of the cases near 10^6 moving by a few units; a fifth set for the FIRST time), and duration, sub-circuit durations and listing are read again; fixed cases: a repeated body starting with a nested block beside a registry-timed wait whose change flips which ends last, and a first-time set key with a follower.')


def gen_cases(rng, tier):
    n = 160 if tier == 'quick' else 3000
    cases = []
    for _ in range(n):
        c = gen_case(rng, maxlen=rng.choice([3, 6, 10]), p_rel=0.6)
        c['obs'] = ['plain', 'plain_dur_first', 'unrolled']
        cases.append(c)
    for _ in range(24 if tier == 'quick' else 400):      # rarely met shapes (coregen.gen_structured)
        c = coregen.gen_structured(rng)
        c['obs'] = ['plain', 'plain_dur_first', 'unrolled']
        cases.append(c)
    cases += coregen.gen_after_change(rng, 40 if tier == 'quick' else 600, lambda: gen_case(rng, maxlen=rng.choice([3, 6, 10]), p_rel=0.6))
    return cases


def to_coq(c, o):
    if c.get('obs') == ['after_change']:
        return c_case(*coregen.after_change_as(c, o, 'unrolled_dur_first'))
    return c_case(c, o)


def nontrivial(c, o):
    return _nt(c)


def kind(c):
    return ('after-change:' if c.get('obs') == ['after_change'] else '') + ('nested' if coregen.has_sub(c['prog']) else 'flat') + ('+rel' if coregen.has_rel(c['prog']) else '')


def sample(c, o):
    return {'prog': c['prog'], 'env': c['env'], 'reported_duration': (o.get('plain') or {}).get('duration')}


LEVEL_TEXT = "Coq theorems over the Core model of CircuitCompositeOperation._relative_extent: an empty circuit has duration 0; for every program (flat or nested, also after apply_modifiers) with non-negative durations the reported duration equals latest end minus earliest start over all listed operations; whatever is FOLLOWED_BY a block whose content does not start early starts after every operation inside. spec_ok checks the same on reported durations and on every sub-circuit's extent."
LEVEL_NOTE = 'Trusted: Coq kernel, Core model tied by correspondence (programs with many JOINED_START/JOINED_END relations). Nested theorem excludes JOINED_END placement of a whole block and empty sub-circuits (stated). No axioms.'
TECHNIQUE = 'Coq proof over an executable model + correspondence evaluated by vm_compute'
