"""C04 — duration spans everything contained.  Core correspondence (DESIGN.md 7, C04)."""
import coregen
from coregen import gen_case, nontrivial as _nt, c_case


def shrink_candidates(case):
    if case.get('k') == 'jb':
        if case['reps'] > 1:
            yield dict(case, reps=1)
        if len(case['firsts']) > 1:
            yield dict(case, firsts=case['firsts'][:-1])
        if case['tail']:
            yield dict(case, tail=False)
        if case['follow']:
            yield dict(case, follow=False)
        return
    yield from coregen.shrink_candidates(case)


ID = 'C04'
GEN_MODULES = ['Ident', 'Classes']
MODEL_TARGETS = ['coq/C04/Run.vo']
PROOF_TARGETS = ['coq/C04/Proofs.vo', 'coq/Core/EnvIndep.vo']
PROPS_FILE = 'coq/Props/C04.v'
RUN_MODULE = 'QCE.C04.Run'
COQ_HEADER = 'From Gen Require Import Ident Classes.\nFrom QCE Require Import Core.Model Core.Run.'
IMPL = 'harness/impl/core_impl.py'
IMPL_KW = {'shards': 12}
SHARD = 100
TRUSTED = ['Gen/Ident.v, Gen/Classes.v regenerated from the source on every run',
           'Core/Model.v: hand-written model (relation equations, span computation of CircuitCompositeOperation.duration), tied by this correspondence run']
ASSUMPTIONS = ['binary64 arithmetic exact on generated durations; times compared as integers in ticks of 1/8']
RULE = ('random build programs as for C01, with a raised share of JOINED_START / JOINED_END relations and long/short duration mixes so that the last-ending operation '
        'is often not a relation leaf and operations start before the first-added ones; non-trivial: >= 2 leaves and (nested or explicit relation or shared qubit) Plus ~13% structured shapes (coregen.gen_structured: parallel first blocks of unequal length under two levels of repetition with a follower of the first, a repeated block starting with a plain operation and containing a repeated block, two relation branches of unequal depth and length meeting through a barrier, a long chain beside a short operation followed by a repeated block, an early-starting operation in a doubly nested block). Plus observations made AFTER the settings changed (coregen.gen_after_change): the circuit is built, unrolled, listed and every duration read; then the global durations are rotated (half of the cases) and the registry durations permuted (a third of the cases near 10^6 moving by a few units; a fifth set for the FIRST time), and duration, sub-circuit durations and listing are read again; fixed cases: a repeated body starting with a nested block beside a registry-timed wait whose change flips which ends last, and a first-time set key with a follower.' ' Plus circuits built through the structure-level API in which a sub-circuit carries an EXPLICIT relation (FOLLOWED_BY / JOINED_START / JOINED_END) to an earlier operation: first operations of different lengths on different qubits, with and without an inner follower, repetition 1-2, with and without an operation added afterwards (96 + 24 of 192 combinations in the quick tier, all in the thorough tier); judged by the specification alone (KBlock), listing first and durations first.')


def gen_cases(rng, tier):
    n = 160 if tier == 'quick' else 3000
    cases = []
    for _ in range(n):
        c = gen_case(rng, maxlen=rng.choice([3, 6, 10]), p_rel=0.6)
        c['obs'] = ['plain', 'plain_dur_first', 'unrolled']
        cases.append(c)
    for _ in range(24 if tier == 'quick' else 400):      # rarely met shapes (coregen.gen_structured)
        c = coregen.gen_structured(rng)
        c['obs'] = ['plain', 'plain_dur_first', 'unrolled']
        cases.append(c)
    cases += coregen.gen_after_change(rng, 40 if tier == 'quick' else 600, lambda: gen_case(rng, maxlen=rng.choice([3, 6, 10]), p_rel=0.6))
    # structure-level API: a sub-circuit with an explicit relation to an earlier operation (coq: KBlock, specification only)
    import itertools
    combos = list(itertools.product('FSE', [2.0, 0.5], [[1.0, 3.0], [3.0, 1.0], [1.0], [2.0, 2.0, 0.5]], [False, True], [1, 2], [False, True]))
    if tier == 'quick':
        combos = combos[::2] + [x for x in combos[1::2] if x[0] == 'E'][:24]
    for rel, d0, firsts, follow, reps, tail in combos:
        cases.append({'k': 'jb', 'rel': rel, 'd0': d0, 'firsts': firsts, 'follow': follow, 'reps': reps, 'tail': tail})
    return cases


def to_coq(c, o):
    if c.get('k') == 'jb':
        if 'error' in o:
            return "(KBlock None None)"
        return f"(KBlock {coregen.c_obs(o.get('jb1'))} {coregen.c_obs(o.get('jb2'))})"
    if c.get('obs') == ['after_change']:
        return "(KCore " + c_case(*coregen.after_change_as(c, o, 'unrolled_dur_first')) + ")"
    return "(KCore " + c_case(c, o) + ")"


F23_CLASS = 'sub-circuit attached JOINED_END through the structure-level API whose reported start is not the earliest start of its operations'


def known_class(c, o):
    """F23: a sub-circuit carrying an explicit JOINED_END relation is itself placed END-aligned with its referent, but listing hands
    the link down to its first operations, which are then END-aligned one by one; when the block does not end with them (an inner
    follower) the block's own frame (reported start) and its operations' frame differ and the parent's duration mixes the two.
    Only that symptom is excused: the relation is JOINED_END, every sub-circuit's own duration equals the extent of what it
    contains in both observations, and the block's reported start differs from the earliest start of its operations."""
    if c.get('k') != 'jb' or c.get('rel') != 'E' or 'error' in o:
        return None
    for key in ('jb1', 'jb2'):
        ob = o.get(key)
        if not ob or not ob.get('comps'):
            return None
        for x in ob['comps']:
            if x['n'] and x['d'] != x['hi'] - x['lo']:
                return None
        b = ob['comps'][0]
        if b['s'] == b['lo']:
            return None
    if o['jb1'] != o['jb2']:        # the two observation orders agree: nothing stale is involved
        return None
    return F23_CLASS


def nontrivial(c, o):
    if c.get('k') == 'jb':
        return len(c['firsts']) >= 2 or c['follow']
    return _nt(c)


def kind(c):
    if c.get('k') == 'jb':
        return 'explicit-relation block:' + c['rel']
    return ('after-change:' if c.get('obs') == ['after_change'] else '') + ('nested' if coregen.has_sub(c['prog']) else 'flat') + ('+rel' if coregen.has_rel(c['prog']) else '')


def sample(c, o):
    if c.get('k') == 'jb':
        return {'block': c, 'reported_duration': (o.get('jb1') or {}).get('duration')}
    return {'prog': c['prog'], 'env': c['env'], 'reported_duration': (o.get('plain') or {}).get('duration')}


LEVEL_TEXT = "Coq theorems over the Core model of CircuitCompositeOperation._relative_extent: an empty circuit has duration 0; for every program (flat or nested, also after apply_modifiers) with non-negative durations the reported duration equals latest end minus earliest start over all listed operations; whatever is FOLLOWED_BY a block whose content does not start early starts after every operation inside. spec_ok checks the same on reported durations and on every sub-circuit's extent."
LEVEL_NOTE = 'Trusted: Coq kernel, Core model tied by correspondence (programs with many JOINED_START/JOINED_END relations). Nested theorem excludes JOINED_END placement of a whole block and empty sub-circuits (stated). No axioms.'
TECHNIQUE = 'Coq proof over an executable model + correspondence evaluated by vm_compute'
