#!/usr/bin/env python3
"""tools/keep_seed.py <seed-id> <worktree> <property> "<needs>" -- <check results text...>
Confirms a seeded change independently (suite green with the change; demo fails with it and passes without it) and stores it
under /verif/seeded/<seed-id>/ (patch.diff, demo.py, meta.json)."""
import sys, os, json, subprocess, shutil
sid, wt, prop, needs = sys.argv[1:5]
caught = sys.argv[6] if len(sys.argv) > 6 else ''
env = dict(os.environ, PYTHONPATH=f"{wt}/src", MPLBACKEND='Agg')
def run(cmd, cwd=wt):
    p = subprocess.run(cmd, cwd=cwd, env=env, capture_output=True, text=True)
    return p.returncode, (p.stdout + p.stderr)
rc_t, out_t = run(['/venv/bin/python', '-m', 'pytest', '-q', '-p', 'no:cacheprovider'])
tests = out_t.strip().split('\n')[-1]
rc_with, out_with = run(['/venv/bin/python', 'demo.py'])
subprocess.run(['git', 'apply', '-R', 'patch.diff'], cwd=wt, check=True)
rc_without, _ = run(['/venv/bin/python', 'demo.py'])
subprocess.run(['git', 'apply', 'patch.diff'], cwd=wt, check=True)
ok = rc_t == 0 and rc_with != 0 and rc_without == 0
print(f"suite: {tests} | demo with change: exit {rc_with} | without: exit {rc_without} | confirmed: {ok}")
if not ok:
    sys.exit(1)
d = f"/verif/seeded/{sid}"
os.makedirs(d, exist_ok=True)
shutil.copy(f"{wt}/patch.diff", f"{d}/patch.diff")
shutil.copy(f"{wt}/demo.py", f"{d}/demo.py")
base = subprocess.run(['git', '-C', wt, 'rev-parse', '--short', 'HEAD'], capture_output=True, text=True).stdout.strip()
json.dump({'breaks_property': prop, 'needs_to_manifest': needs, 'base_commit_of_repo': base,
           'confirmed': {'suite_with_change': tests, 'demo_exit_with_change': rc_with, 'demo_exit_without_change': rc_without,
                         'demo_output_with_change': out_with[-600:]},
           'ran': [f"tools/seedrun.sh {wt} <checks>  (isolated copy of /verif, QCE_REPO={wt})"],
           'caught_by': caught}, open(f"{d}/meta.json", 'w'), indent=1)
print('kept', d)
