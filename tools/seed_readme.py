#!/usr/bin/env python3
"""Regenerates seeded/README.md from seeded/<id>/meta.json."""
import json, glob, os, re
ROOT = os.path.dirname(os.path.dirname(os.path.abspath(__file__)))
rows = []
for m in sorted(glob.glob(f"{ROOT}/seeded/C*/meta.json"), key=lambda p: [int(x) if x.isdigit() else x for x in re.split(r'(\d+)', p)]):
    d = json.load(open(m))
    sid = os.path.basename(os.path.dirname(m))
    esc = lambda s: s.replace('|', '\\|').replace('\n', ' ')
    rows.append(f"| {sid} | {d['breaks_property']} | {esc(d['needs_to_manifest'])} | {esc(d.get('caught_by', ''))} |")
head = f"""# Seeded changes (each breaks a property while the 61 tests stay green)

Produced by independent sub-agents that saw only the property text and a scratch worktree; every one was re-confirmed
(`tools/keep_seed.py`: suite green with the change, demonstration fails with it and passes without it) and run against
the checks in an isolated copy of /verif (`tools/seedrun.sh`).  To replay: `git -C /repo apply seeded/<id>/patch.diff`,
`./check <ID>`, `git -C /repo checkout -- .` (patches are relative to the `base_commit_of_repo` in meta.json; later
`fix:` commits may require `git apply -3`).  {len(rows)} changes are kept.

`not-kept/C06-round4.diff`: a round-4 change (unroll the children before repeating the parent) that broke C06 on the tree
at 2771604 only because it exposed a latent defect of the library (F21: copying an unrolled circuit with parallel first
blocks); the checks of that time missed it, the structured generator shapes and the copies of derived circuits that were
added because of it found F21 on the unchanged tree, and since the fix (c6503c2) the change no longer breaks the property
(its own demonstration passes), so it is not a seeded violation any more.

| id | property | needs to manifest | caught by |
|---|---|---|---|
"""
open(f"{ROOT}/seeded/README.md", 'w').write(head + "\n".join(rows) + "\n")
print(len(rows), 'rows')
