"""Gen/Noise.v : what C14 (noise dressing of Stim circuits) needs from the source text.

 (a) `PauliAdditiveCircuitNoiseFactory.get_pauli_error`  -> a term over R (`exp`, `Rmin`, `Rmax`, `Req_EM_T` for `t == 0`);
 (b) the dresser registrations of `NoiseFactoryManager` (which Stim name is replaced by which noisy instruction, which additive
     channel is wrapped around blocks), the split instruction, the names without qubit targets, the keys of
     `OperationDurationParameters.duration_mapper` and the field each maps to, `default_duration`, and the *wiring* of the two
     factory `construct` methods (which settings field is passed as t1 / t2 / assignment error, the factor on the duration,
     the key handed to `get_operation_duration`, the aggregate over a block and its default);
 (c) the literal defaults of the three settings dataclasses (times in ns as `Z`, probabilities as `float.hex` strings).

Fail-closed: every shape not listed raises TranslateError.  Nothing of /repo is imported.
"""
import ast
from decimal import Decimal
from fractions import Fraction
from pycoq import parse_file, find_class, find_func, TranslateError, fail, dataclass_fields, decorators, norm_function

SRC_PAULI = 'src/qce_circuit/addon_stim/noise_factories/factory_pauli_noise.py'
SRC_MEAS = 'src/qce_circuit/addon_stim/noise_factories/factory_measurement_noise.py'
SRC_MGR = 'src/qce_circuit/addon_stim/noise_factory_manager.py'
SRC_SET = 'src/qce_circuit/addon_stim/noise_settings_manager.py'
SRC_INTRF = 'src/qce_circuit/addon_stim/intrf_noise_factory.py'
SOURCES = [SRC_PAULI, SRC_MEAS, SRC_MGR, SRC_SET, SRC_INTRF]

NS = Decimal(10) ** 9


def skip_doc(stmts):
    return [s for s in stmts if not (isinstance(s, ast.Expr) and isinstance(s.value, ast.Constant) and isinstance(s.value.value, str))]


def cstr(s):
    if not isinstance(s, str) or '"' in s:
        raise TranslateError(f"string literal {s!r}")
    return '"' + s + '"'


def str_const(n):
    if isinstance(n, ast.Constant) and isinstance(n.value, str):
        return n.value
    fail(n, "expected a string literal")


# ----------------------------------------------------------------------------------------- (a) real arithmetic
class RealExpr:
    """Python float arithmetic -> Coq term over R.  Literals are read from the *source text* as exact decimals."""

    def __init__(self, src):
        self.src = src

    def const(self, n):
        v = n.value
        if isinstance(v, bool) or not isinstance(v, (int, float)):
            fail(n, "numeric constant expected")
        seg = ast.get_source_segment(self.src, n)
        try:
            q = Fraction(Decimal(seg))
        except Exception:
            fail(n, f"numeric literal {seg!r}")
        if float(q) != float(v):
            fail(n, "literal does not round-trip")
        if q.denominator == 1:
            return f"{q.numerator}" if q.numerator >= 0 else f"(- {-q.numerator})"
        if q < 0:
            return f"(- ({-q.numerator} / {q.denominator}))"
        return f"({q.numerator} / {q.denominator})"

    def expr(self, n, loc):
        if isinstance(n, ast.Constant):
            return self.const(n)
        if isinstance(n, ast.Name):
            if n.id in loc:
                return n.id
            fail(n, "unknown name")
        if isinstance(n, ast.UnaryOp) and isinstance(n.op, ast.USub):
            return f"(- {self.expr(n.operand, loc)})"
        if isinstance(n, ast.BinOp):
            ops = {ast.Add: '+', ast.Sub: '-', ast.Mult: '*', ast.Div: '/'}
            for k, v in ops.items():
                if isinstance(n.op, k):
                    return f"({self.expr(n.left, loc)} {v} {self.expr(n.right, loc)})"
            fail(n, "binary operator")
        if isinstance(n, ast.Call) and not n.keywords:
            f = n.func
            if (isinstance(f, ast.Attribute) and isinstance(f.value, ast.Name) and f.value.id in ('np', 'numpy', 'math')
                    and f.attr == 'exp' and len(n.args) == 1):
                return f"(exp {self.expr(n.args[0], loc)})"
            if isinstance(f, ast.Name) and f.id in ('min', 'max') and len(n.args) == 2:
                return f"(R{f.id} {self.expr(n.args[0], loc)} {self.expr(n.args[1], loc)})"
            fail(n, "call")
        fail(n, "real expression shape")


def gen_formula(src, cls, module=None):
    fn = find_func(cls, 'get_pauli_error')
    # calls of private single-`return` helpers (`_clamp(x)` for `min(max(x, 0.0), 1.0)`) are inlined and annotations dropped
    # (pycoq N6, N1); the `let`s of the body are kept as written (no substitution of locals: they are part of the emitted term)
    fn = norm_function(fn, module=module, cls=cls, guards=False, accumulate=False, single_use=False)
    if 'staticmethod' not in decorators(fn):
        fail(fn, "get_pauli_error is expected to be a staticmethod")
    args = [a.arg for a in fn.args.args]
    if args != ['t', 't1', 't2'] or fn.args.vararg or fn.args.kwarg or fn.args.kwonlyargs or fn.args.defaults:
        fail(fn, "signature of get_pauli_error")
    R = RealExpr(src)
    body = skip_doc(fn.body)
    loc = set(args)
    lines = []
    # leading guards  `if <name> == <const>: return c, c, c`
    while body and isinstance(body[0], ast.If):
        s = body[0]
        t = s.test
        if not (isinstance(t, ast.Compare) and len(t.ops) == 1 and isinstance(t.ops[0], ast.Eq) and isinstance(t.left, ast.Name)
                and t.left.id in loc and isinstance(t.comparators[0], ast.Constant) and not s.orelse and len(s.body) == 1
                and isinstance(s.body[0], ast.Return) and isinstance(s.body[0].value, ast.Tuple) and len(s.body[0].value.elts) == 3):
            fail(s, "guard shape in get_pauli_error")
        ret = ", ".join(R.expr(e, loc) for e in s.body[0].value.elts)
        lines.append(f"  if Req_EM_T {t.left.id} {R.const(t.comparators[0])} then ({ret}) else")
        body = body[1:]
    if not body or not isinstance(body[-1], ast.Return):
        fail(fn, "get_pauli_error must end in a return")
    for s in body[:-1]:
        if not (isinstance(s, ast.Assign) and len(s.targets) == 1 and isinstance(s.targets[0], ast.Name)):
            fail(s, "statement shape in get_pauli_error")
        name = s.targets[0].id
        if name in ('t', 't1', 't2'):
            fail(s, "assignment to a parameter")
        lines.append(f"  let {name} := {R.expr(s.value, loc)} in")
        loc = loc | {name}
    r = body[-1].value
    if not (isinstance(r, ast.Tuple) and len(r.elts) == 3):
        fail(body[-1], "return shape in get_pauli_error")
    lines.append("  (" + ", ".join(R.expr(e, loc) for e in r.elts) + ").")
    return "Definition get_pauli_error (t t1 t2 : R) : R * R * R :=\n" + "\n".join(lines) + "\n"


# ----------------------------------------------------------------------------------------- (b) tables and wiring
def init_string_attrs(cls, want):
    """`self._x: str = <param or literal>` assignments of __init__; returns {attr: ('param', name, default) | ('lit', s)}."""
    fn = find_func(cls, '__init__')
    params = [a.arg for a in fn.args.args][1:]
    defaults = fn.args.defaults
    dmap = {}
    for p, d in zip(params[len(params) - len(defaults):], defaults):
        dmap[p] = str_const(d)
    out = {}
    fn = norm_function(fn, guards=False, accumulate=False, single_use=False, helpers=False)     # `self._x: str = v` -> `self._x = v` (N1)
    for s in skip_doc(fn.body):
        tgt = s.targets[0] if isinstance(s, ast.Assign) and len(s.targets) == 1 else None
        if not (isinstance(tgt, ast.Attribute) and isinstance(tgt.value, ast.Name) and tgt.value.id == 'self'):
            fail(s, "statement in __init__")
        if tgt.attr in out:
            fail(s, "attribute assigned twice in __init__")
        if isinstance(s.value, ast.Name) and s.value.id in params:
            out[tgt.attr] = ('param', params.index(s.value.id), dmap.get(s.value.id))
        else:
            out[tgt.attr] = ('lit', str_const(s.value))
    if set(out) != set(want):
        fail(fn, f"attributes set by __init__ changed: {sorted(out)} (expected {sorted(want)})")
    return out


def ctor_string(call, clsname, attrs, attr):
    """Value of string attribute `attr` of the object built by `Cls(<literal>)`."""
    if not (isinstance(call, ast.Call) and isinstance(call.func, ast.Name) and call.func.id == clsname and not call.keywords):
        fail(call, f"expected a {clsname}(...) call")
    kind = attrs[attr]
    if kind[0] == 'lit':
        return kind[1]
    _, idx, default = kind
    if idx < len(call.args):
        return str_const(call.args[idx])
    if default is None:
        fail(call, "missing constructor argument")
    return default


def is_self_attr(n, attr):
    return isinstance(n, ast.Attribute) and isinstance(n.value, ast.Name) and n.value.id == 'self' and n.attr == attr


def walk_calls(fn, pred):
    return [n for n in ast.walk(fn) if isinstance(n, ast.Call) and pred(n)]


def is_method_call(n, recv, meth):
    f = n.func
    return isinstance(f, ast.Attribute) and f.attr == meth and isinstance(f.value, ast.Name) and f.value.id == recv


def local_assigns(nodes, name):
    """`name = <value>` statements (after N1 every annotated local assignment is one) among `nodes`"""
    return [s for s in nodes if isinstance(s, ast.Assign) and len(s.targets) == 1 and isinstance(s.targets[0], ast.Name)
            and s.targets[0].id == name]


def gen_pauli_wiring(cls, attrs, module=None):
    """The parts of PauliAdditiveCircuitNoiseFactory.construct the model relies on."""
    fn = find_func(cls, 'construct')
    # a per-qubit body extracted into a private method of the class is inlined again (pycoq N6); annotations dropped (N1).
    # Locals are NOT substituted: the wiring below is read off the named locals.
    # a number hoisted out of the per-qubit loop (`half = max_duration * 0.5` ... `t=half`) is substituted back (N9).
    fn = norm_function(fn, module=module, cls=cls, guards=False, accumulate=False, single_use=False, numeric_locals=True)
    out = []
    # 1. max_duration = max([settings.get_operation_duration(instruction.name) for instruction in instructions], default=0)
    assigns = local_assigns(ast.walk(fn), 'max_duration')
    if len(assigns) != 1:
        fail(fn, "expected exactly one assignment to max_duration")
    v = assigns[0].value
    if not (isinstance(v, ast.Call) and isinstance(v.func, ast.Name) and v.func.id == 'max' and len(v.args) == 1
            and len(v.keywords) == 1 and v.keywords[0].arg == 'default' and isinstance(v.keywords[0].value, ast.Constant)
            and v.keywords[0].value.value == 0 and isinstance(v.args[0], ast.ListComp)):
        fail(v, "block duration must be max([...], default=0)")
    lc = v.args[0]
    g = lc.generators
    if not (len(g) == 1 and not g[0].ifs and isinstance(g[0].target, ast.Name) and isinstance(g[0].iter, ast.Name)
            and g[0].iter.id == 'instructions'):
        fail(lc, "block duration comprehension")
    var = g[0].target.id
    e = lc.elt
    if not (isinstance(e, ast.Call) and is_method_call(e, 'settings', 'get_operation_duration') and len(e.args) == 1 and not e.keywords
            and isinstance(e.args[0], ast.Attribute) and isinstance(e.args[0].value, ast.Name) and e.args[0].value.id == var):
        fail(e, "block duration element")
    out.append("(* PauliAdditiveCircuitNoiseFactory.construct: max_duration = max([get_operation_duration(instruction.<attr>) ...], default=<d>) *)")
    out.append(f"Definition block_duration_key_attr : string := {cstr(e.args[0].attr)}.")
    out.append("Definition block_duration_aggregate : Z -> Z -> Z := Z.max.")
    out.append("Definition block_duration_default : Z := 0.")
    # 2. the loop is over the split blocks of the flattened circuit, split at self._split_operation
    loops = [s for s in fn.body if isinstance(s, ast.For)]
    if len(loops) != 1:
        fail(fn, "expected one block loop")
    it = loops[0].iter
    if not (isinstance(it, ast.Call) and is_method_call(it, 'self', 'split_instruction_blocks') and len(it.args) == 2
            and isinstance(it.args[0], ast.Name) and it.args[0].id == 'circuit_flattened' and is_self_attr(it.args[1], '_split_operation')
            and isinstance(loops[0].target, ast.Name) and loops[0].target.id == 'instructions'):
        fail(it, "block loop iterator")
    # 3. qubit_targets = extract_all_targets(circuit=circuit)
    qa = local_assigns(fn.body, 'qubit_targets')
    if not (len(qa) == 1 and isinstance(qa[0].value, ast.Call) and isinstance(qa[0].value.func, ast.Name)
            and qa[0].value.func.id == 'extract_all_targets'):
        fail(fn, "qubit_targets assignment")
    # 4. get_pauli_error(t=max_duration * <c>, t1=noise_setting.<f1>, t2=noise_setting.<f2>)
    calls = walk_calls(fn, lambda n: is_method_call(n, 'self', 'get_pauli_error'))
    if len(calls) != 1 or calls[0].args:
        fail(fn, "expected one keyword call of get_pauli_error")
    kw = {k.arg: k.value for k in calls[0].keywords}
    if set(kw) != {'t', 't1', 't2'}:
        fail(calls[0], "keywords of get_pauli_error call")
    t = kw['t']
    if not (isinstance(t, ast.BinOp) and isinstance(t.op, ast.Mult) and isinstance(t.left, ast.Name) and t.left.id == 'max_duration'
            and isinstance(t.right, ast.Constant) and isinstance(t.right.value, float)):
        fail(t, "t argument of get_pauli_error call")
    fr = Fraction(Decimal(repr(t.right.value)))
    fields = {}
    for k in ('t1', 't2'):
        a = kw[k]
        if not (isinstance(a, ast.Attribute) and isinstance(a.value, ast.Name) and a.value.id == 'noise_setting'):
            fail(a, f"{k} argument of get_pauli_error call")
        fields[k] = a.attr
    ns = local_assigns(ast.walk(fn), 'noise_setting')
    if not (len(ns) == 1 and isinstance(ns[0].value, ast.Call) and is_method_call(ns[0].value, 'settings', 'get_noise_settings')
            and len(ns[0].value.keywords) == 1 and isinstance(ns[0].value.keywords[0].value, ast.Name)
            and ns[0].value.keywords[0].value.id == 'qubit_target'):
        fail(fn, "noise_setting assignment")
    out.append("(* ... get_pauli_error(t=max_duration * <factor>, t1=noise_setting.<f1>, t2=noise_setting.<f2>) *)")
    out.append(f"Definition pauli_call_t_factor : R := ({fr.numerator} / {fr.denominator})%R.")
    out.append(f"Definition pauli_call_t1 (p : QubitNoiseModelParameters) : Z := qp_{fields['t1']} p.")
    out.append(f"Definition pauli_call_t2 (p : QubitNoiseModelParameters) : Z := qp_{fields['t2']} p.")
    # 5. the noise instruction: name = self._operation_name, targets = [qubit_target], gate_args = [px, py, pz]
    ci = walk_calls(fn, lambda n: isinstance(n.func, ast.Attribute) and n.func.attr == 'CircuitInstruction')
    if len(ci) != 1:
        fail(fn, "expected one CircuitInstruction")
    kw = {k.arg: k.value for k in ci[0].keywords}
    if not (set(kw) == {'name', 'targets', 'gate_args'} and is_self_attr(kw['name'], '_operation_name')
            and ast.unparse(kw['targets']) == '[qubit_target]' and ast.unparse(kw['gate_args']) == '[px, py, pz]'):
        fail(ci[0], "noise instruction shape")
    return out


def gen_meas_wiring(cls, module=None):
    fn = find_func(cls, 'construct')
    # `result = []; for x in it: result.append(e); return result` and `return [e for x in it]` are read as the same thing
    # (pycoq N5 + N4); private helpers inlined (N6), annotations dropped (N1)
    fn = norm_function(fn, module=module, cls=cls, guards=False)
    ci = walk_calls(fn, lambda n: isinstance(n.func, ast.Attribute) and n.func.attr == 'CircuitInstruction')
    if len(ci) != 1 or ci[0].keywords or len(ci[0].args) != 3:
        fail(fn, "measurement instruction shape")
    a0, a1, a2 = ci[0].args
    if not (is_self_attr(a0, '_operation_name') and ast.unparse(a1) == '[target_index]' and isinstance(a2, ast.List) and len(a2.elts) == 1):
        fail(ci[0], "measurement instruction arguments")
    e = a2.elts[0]
    if not (isinstance(e, ast.Attribute) and isinstance(e.value, ast.Call) and is_method_call(e.value, 'settings', 'get_noise_settings')
            and len(e.value.args) == 1 and isinstance(e.value.args[0], ast.Name) and e.value.args[0].id == 'target_index'):
        fail(e, "measurement error argument")
    loops = [s for s in fn.body if isinstance(s, ast.For)]
    comps = [x for x in ast.walk(fn) if isinstance(x, (ast.ListComp, ast.GeneratorExp, ast.SetComp, ast.DictComp))]
    body = skip_doc(fn.body)
    as_loop = (len(loops) == 1 and not comps and isinstance(loops[0].target, ast.Name) and loops[0].target.id == 'target_index'
               and isinstance(loops[0].iter, ast.Name) and loops[0].iter.id == 'qubit_targets')
    # normal form of the accumulate loop: the function returns `[<the instruction> for target_index in qubit_targets]`
    as_comp = (not loops and len(comps) == 1 and isinstance(comps[0], ast.ListComp) and len(comps[0].generators) == 1
               and not comps[0].generators[0].ifs and not comps[0].generators[0].is_async
               and isinstance(comps[0].generators[0].target, ast.Name) and comps[0].generators[0].target.id == 'target_index'
               and isinstance(comps[0].generators[0].iter, ast.Name) and comps[0].generators[0].iter.id == 'qubit_targets'
               and comps[0].elt is ci[0] and body and isinstance(body[-1], ast.Return) and body[-1].value is comps[0])
    if not (as_loop or as_comp):
        fail(fn, "measurement target loop")
    return ["(* MeasurementNoiseDresserFactory.construct: one instruction per target, argument get_noise_settings(target).<field> *)",
            f"Definition meas_call_arg (p : QubitNoiseModelParameters) : string := qp_{e.attr} p."]


def float_field_default(v):
    """`field(default=<float literal>)` -> Decimal"""
    if not (isinstance(v, ast.Call) and isinstance(v.func, ast.Name) and v.func.id == 'field' and len(v.keywords) == 1
            and v.keywords[0].arg == 'default' and isinstance(v.keywords[0].value, ast.Constant)
            and isinstance(v.keywords[0].value.value, (int, float)) and not isinstance(v.keywords[0].value.value, bool)):
        fail(v, "field default shape")
    return v.keywords[0].value


def ns_of(src, const):
    seg = ast.get_source_segment(src, const)
    d = Decimal(seg) * NS
    if d != d.to_integral_value():
        fail(const, "time literal is not a whole number of ns")
    return int(d)


def hex_of(const):
    return float(const.value).hex()


def generate(repo):
    src_p = open(f"{repo}/{SRC_PAULI}").read()
    t_p, t_m = ast.parse(src_p), parse_file(f"{repo}/{SRC_MEAS}")
    t_g = parse_file(f"{repo}/{SRC_MGR}")
    src_s = open(f"{repo}/{SRC_SET}").read()
    t_s = ast.parse(src_s)
    t_i = parse_file(f"{repo}/{SRC_INTRF}")
    out = ["(* GENERATED by tools/translate/gen_noise.py from the current /repo sources -- do not edit *)",
           "From Coq Require Import ZArith List String Reals.", "Import ListNotations.", "Local Open Scope Z_scope.", "Local Open Scope string_scope.", ""]

    # ---- settings dataclasses (noise_settings_manager.py)
    qp = find_class(t_s, 'QubitNoiseModelParameters')
    qf = dataclass_fields(qp)
    if [(n, a) for n, a, _ in qf] != [('t1', 'float'), ('t2', 'float'), ('assignment_error', 'float'), ('single_qubit_gate_error', 'float')]:
        raise TranslateError(f"QubitNoiseModelParameters fields changed: {[(n, a) for n, a, _ in qf]}")
    out.append("(* times in ns (Z); probabilities are passed through as float.hex strings *)")
    out.append("Record QubitNoiseModelParameters := MkQubitNoiseModelParameters { qp_t1 : Z; qp_t2 : Z; qp_assignment_error : string; "
               "qp_single_qubit_gate_error : string }.")
    d = {n: float_field_default(v) for n, a, v in qf}
    out.append(f"Definition QubitNoiseModelParameters_default : QubitNoiseModelParameters := MkQubitNoiseModelParameters "
               f"{ns_of(src_s, d['t1'])} {ns_of(src_s, d['t2'])} {cstr(hex_of(d['assignment_error']))} {cstr(hex_of(d['single_qubit_gate_error']))}.")
    od = find_class(t_s, 'OperationDurationParameters')
    of = dataclass_fields(od)
    names = [n for n, a, _ in of]
    if any(a != 'float' for _, a, _ in of) or not names or any(not n.startswith('duration_') for n in names):
        raise TranslateError(f"OperationDurationParameters fields changed: {[(n, a) for n, a, _ in of]}")
    out.append("Record OperationDurationParameters := MkOperationDurationParameters { " + "; ".join(f"{n} : Z" for n in names) + " }.")
    out.append("Definition OperationDurationParameters_default : OperationDurationParameters := MkOperationDurationParameters "
               + " ".join(str(ns_of(src_s, float_field_default(v))) for _, _, v in of) + ".")
    dm = find_func(od, 'duration_mapper')
    body = skip_doc(dm.body)
    if not (len(body) == 1 and isinstance(body[0], ast.Return) and isinstance(body[0].value, ast.Dict) and 'property' in decorators(dm)):
        fail(dm, "duration_mapper shape")
    entries = []
    for k, v in zip(body[0].value.keys, body[0].value.values):
        if not (is_self_attr(v, v.attr if isinstance(v, ast.Attribute) else '') and v.attr in names):
            fail(v, "duration_mapper value")
        entries.append(f"({cstr(str_const(k))}, {v.attr} self)")
    keys = [str_const(k) for k in body[0].value.keys]
    if len(set(keys)) != len(keys):
        fail(dm, "duplicate key in duration_mapper")
    out.append("Definition duration_mapper (self : OperationDurationParameters) : list (string * Z) :=\n  [" + "; ".join(entries) + "].")
    dd = find_func(od, 'default_duration')
    body = skip_doc(dd.body)
    if not (len(body) == 1 and isinstance(body[0], ast.Return) and isinstance(body[0].value, ast.Constant)
            and isinstance(body[0].value.value, (int, float)) and 'property' in decorators(dd)):
        fail(dd, "default_duration shape")
    out.append(f"Definition default_duration (self : OperationDurationParameters) : Z := {ns_of(src_s, body[0].value)}.")
    nsc = find_class(t_s, 'NoiseSettings')
    nf = {n: (a, v) for n, a, v in dataclass_fields(nsc)}
    want = ['default_t1', 'default_t2', 'default_assignment_error', 'default_single_qubit_gate_error', 'individual_noise', 'operation_durations']
    if list(nf) != want:
        raise TranslateError(f"NoiseSettings fields changed: {list(nf)}")
    out.append("(* NoiseSettings(): default_t1, default_t2 [ns], default_assignment_error, default_single_qubit_gate_error *)")
    out.append(f"Definition NoiseSettings_default_qubit : QubitNoiseModelParameters := MkQubitNoiseModelParameters "
               f"{ns_of(src_s, float_field_default(nf['default_t1'][1]))} {ns_of(src_s, float_field_default(nf['default_t2'][1]))} "
               f"{cstr(hex_of(float_field_default(nf['default_assignment_error'][1])))} "
               f"{cstr(hex_of(float_field_default(nf['default_single_qubit_gate_error'][1])))}.")
    # get_default_noise_settings passes the four defaults field by field
    gd = find_func(nsc, 'get_default_noise_settings')
    body = skip_doc(gd.body)
    if not (len(body) == 1 and isinstance(body[0], ast.Return) and isinstance(body[0].value, ast.Call)
            and isinstance(body[0].value.func, ast.Name) and body[0].value.func.id == 'QubitNoiseModelParameters'
            and {k.arg: ast.unparse(k.value) for k in body[0].value.keywords}
            == {n: f"self.default_{n}" for n in ('t1', 't2', 'assignment_error', 'single_qubit_gate_error')}):
        fail(gd, "get_default_noise_settings shape")
    out.append("")

    # ---- factories
    pc = find_class(t_p, 'PauliAdditiveCircuitNoiseFactory')
    p_attrs = init_string_attrs(pc, ['_operation_name', '_split_operation'])
    mc = find_class(t_m, 'MeasurementNoiseDresserFactory')
    m_attrs = init_string_attrs(mc, ['_operation_name'])
    # NoiseFactoryManager._factory = StimNoiseDresserFactoryManager(factory_lookup={...}, factory_additives=[...])
    ng = find_class(t_g, 'NoiseFactoryManager')
    fa = [s for s in ng.body if isinstance(s, ast.AnnAssign) and isinstance(s.target, ast.Name) and s.target.id == '_factory']
    if not (len(fa) == 1 and isinstance(fa[0].value, ast.Call) and isinstance(fa[0].value.func, ast.Name)
            and fa[0].value.func.id == 'StimNoiseDresserFactoryManager' and not fa[0].value.args):
        fail(ng, "NoiseFactoryManager._factory shape")
    kw = {k.arg: k.value for k in fa[0].value.keywords}
    if set(kw) != {'factory_lookup', 'factory_additives'} or not isinstance(kw['factory_lookup'], ast.Dict) or not isinstance(kw['factory_additives'], ast.List):
        fail(fa[0].value, "NoiseFactoryManager._factory keywords")
    lk = []
    for k, v in zip(kw['factory_lookup'].keys, kw['factory_lookup'].values):
        lk.append((str_const(k), ctor_string(v, 'MeasurementNoiseDresserFactory', m_attrs, '_operation_name')))
    if len({k for k, _ in lk}) != len(lk):
        fail(fa[0].value, "duplicate key in factory_lookup")
    out.append("(* NoiseFactoryManager: instruction name -> name of the noisy measurement instruction that replaces it, per target *)")
    out.append("Definition factory_lookup : list (string * string) := [" + "; ".join(f"({cstr(a)}, {cstr(b)})" for a, b in lk) + "].")
    adds = [(ctor_string(v, 'PauliAdditiveCircuitNoiseFactory', p_attrs, '_operation_name'),
             ctor_string(v, 'PauliAdditiveCircuitNoiseFactory', p_attrs, '_split_operation')) for v in kw['factory_additives'].elts]
    out.append("(* ... additive factories: (name of the idle channel, instruction at which blocks are split) *)")
    out.append("Definition factory_additives : list (string * string) := [" + "; ".join(f"({cstr(a)}, {cstr(b)})" for a, b in adds) + "].")
    # extract_instruction_targets: names reported without qubit targets
    et = find_func(t_i, 'extract_instruction_targets')
    body = skip_doc(et.body)
    if not (len(body) == 3 and isinstance(body[0], ast.If) and isinstance(body[0].test, ast.Compare) and isinstance(body[0].test.ops[0], ast.In)
            and ast.unparse(body[0].test.left) == 'instruction.name' and isinstance(body[0].test.comparators[0], ast.List)
            and ast.unparse(body[0].body[0]) == 'return []' and not body[0].orelse
            and ast.unparse(body[1].value) == 'str(instruction).split()[1:]'
            and ast.unparse(body[2]) == 'return [int(target) for target in targets]'):
        fail(et, "extract_instruction_targets shape")
    out.append("(* extract_instruction_targets: instructions reported without qubit targets *)")
    out.append("Definition untargeted_names : list string := [" + "; ".join(cstr(str_const(e)) for e in body[0].test.comparators[0].elts) + "].")
    # StimNoiseDresserFactoryManager.construct: flattened first, lookup by instruction.name, additives afterwards
    sm = find_func(find_class(t_i, 'StimNoiseDresserFactoryManager'), 'construct')
    txt = ast.unparse(sm)
    for needle in ("circuit_flattened: stim.Circuit = circuit.flattened()", "instruction in enumerate(circuit_flattened):",
                   "if not self.contains(factory_key=instruction.name):",
                   "self.factory_lookup[instruction.name].construct(instruction=instruction, settings=settings)",
                   "for bulk_factory in self.factory_additives:", "result_circuit = bulk_factory.construct(result_circuit, settings=settings)"):
        if needle not in txt.replace('(i, instruction)', 'i, instruction'):
            raise TranslateError(f"StimNoiseDresserFactoryManager.construct changed: {needle!r} not found")
    out.append("")
    out += gen_meas_wiring(mc, t_m)
    out += gen_pauli_wiring(pc, p_attrs, t_p)
    out.append("")
    out.append("Local Open Scope R_scope.")
    out.append("(* PauliAdditiveCircuitNoiseFactory.get_pauli_error; float literals as exact rationals, np.exp as the real exponential *)")
    out.append(gen_formula(src_p, pc, t_p))
    return "\n".join(out)
