#!/usr/bin/env python3
"""Regenerate build/Gen/*.v from /repo's current working tree.  Writes a file only when its content changes (so that
`make` re-proves exactly what depends on a changed definition).  Prints a JSON report on stdout.

  run.py [--repo /repo] [--out /verif/build/Gen] [module ...]
"""
import sys, os, json, importlib, traceback
sys.path.insert(0, os.path.dirname(os.path.abspath(__file__)))
from pycoq import TranslateError, sha256_file

MODULES = {  # output file -> generator module
    'Ident': 'gen_ident',
    'Kernels': 'gen_kernels',
    'Layouts': 'gen_layouts',
    'Classes': 'gen_classes',
    'Tables': 'gen_tables',
    'Flags': 'gen_flags',
    'Noise': 'gen_noise',
}


def main():
    args = sys.argv[1:]
    repo, out = '/repo', '/verif/build/Gen'
    while args and args[0].startswith('--'):
        if args[0] == '--repo':
            repo = args[1]
        elif args[0] == '--out':
            out = args[1]
        args = args[2:]
    wanted = args or list(MODULES)
    os.makedirs(out, exist_ok=True)
    report = {'ok': True, 'modules': {}}
    for name in wanted:
        modname = MODULES[name]
        entry = {'sources': {}, 'changed': False, 'error': None}
        try:
            try:
                mod = importlib.import_module(modname)
            except ModuleNotFoundError:
                entry['error'] = 'generator not built'
                report['modules'][name] = entry
                continue
            for s in mod.SOURCES:
                entry['sources'][s] = sha256_file(f"{repo}/{s}")
            text = mod.generate(repo)
            path = f"{out}/{name}.v"
            old = open(path).read() if os.path.exists(path) else None
            if old != text:
                with open(path, 'w') as f:
                    f.write(text)
                entry['changed'] = True
        except (TranslateError, SyntaxError, FileNotFoundError, KeyError, IndexError, AttributeError, ValueError) as e:
            entry['error'] = f"{type(e).__name__}: {e}"
            entry['trace'] = traceback.format_exc()[-1500:]
            report['ok'] = False
        report['modules'][name] = entry
    print(json.dumps(report, indent=1))
    sys.exit(0 if report['ok'] else 2)


if __name__ == '__main__':
    main()
