"""Gen/Kernels.v : acquisition index kernels (C12, C13), translated from the source text.

What is translated (bodies, by pycoq.FnTranslator + the additive shapes of KTranslator below):
  * IIndexingKernel.kernel_length, FixedIndexStrategy/RelativeIndexStrategy.get_index, StateKey;
  * every property / method of RepetitionIndexKernel and QutritCalibrationIndexKernel;
  * RepetitionExperimentKernel: start_index, stop_index, kernel_cycle_length, experiment_repetitions, indexing_kernels, the five
    get_*_acquisition_indices getters, create_sliced_arrays / create_sliced_array, and the arithmetic tail of
    estimate_experiment_repetitions.
What is pinned by shape (any deviation raises TranslateError) and emitted as small constructor definitions that the hand-written
fold of C12/Model.v uses: the kernel-building loops of RepetitionExperimentKernel.__init__ and estimate_experiment_repetitions
(initial FixedIndexStrategy(index=K), chaining RelativeIndexStrategy(reference_index_kernel=<kernels>[-1]), the keyword arguments
of the kernel constructors).

The attribute `_qutrit_calibration_points` is a record field of RepetitionExperimentKernel; both shapes of `indexing_kernels` (calibration
kernel always / only when the flag is set, finding F15) translate, and `experiment_kernel_honours_calibration_flag` records which one
was seen (the C12 theorems require it to be true).

Modelling decisions (all visible in the generated text):
  * the dynamic `self.index_offset_strategy.get_index(self)` is the record field `start_index` (the property body is pinned);
  * qubit identifiers are `Z` (membership = existsb Z.eqb);
  * the heterogeneous list `indexing_kernels` is a list of the interface view IIndexingKernel = (start_index, stop_index);
  * `int(a / b)` (float true division, then truncation) is `Z.quot a b` -- exact only while the quotient is representable in
    binary64 (finding F9); this is recorded by the harness as an assumption;
  * numpy: 1-D int arrays are `list Z`, 2-D `list (list Z)`.
Never imports qce_circuit.  Fail-closed: unknown methods, fields, statements or expressions raise TranslateError.
"""
import ast
from pycoq import (Env, FnTranslator, parse_file, find_class, find_func, enum_members, coq_enum, coq_record, coq_type,
                   TranslateError, dataclass_fields, decorators, fail, norm_function, append_one)

D = 'src/qce_circuit/structure/acquisition_indexing/'
SRC_REP = D + 'kernel_repetition_code.py'
SRC_CAL = D + 'kernel_calibration.py'
SRC_STRAT = D + 'intrf_index_strategy.py'
SRC_KERN = D + 'intrf_index_kernel.py'
SRC_STAB = D + 'intrf_stabilizer_index_kernel.py'
SOURCES = [SRC_REP, SRC_CAL, SRC_STRAT, SRC_KERN, SRC_STAB]

LZ = ('list', 'Z')
MAT = ('list', ('list', 'Z'))
IK = ('rec', 'IIndexingKernel')

ANN = {  # annotation source -> type
    'int': 'Z', 'bool': 'bool', 'List[int]': LZ, 'List[IQubitID]': LZ, 'IQubitID': 'Z', 'StateKey': ('enum', 'StateKey'),
    'List[IIndexingKernel]': ('list', IK), 'IIndexingKernel': IK,
}
ANN_FREE = {'np.ndarray', 'NDArray[np.int_]'}   # annotations that put no constraint on the tracked type


def ann_type(node, a):
    s = ast.unparse(a)
    if s in ANN:
        return ANN[s]
    if s in ANN_FREE:
        return None
    fail(node, f"annotation {s} not recognised")


def unparse(n):
    return ast.unparse(n)


def strip_doc(stmts):
    return [s for s in stmts if not (isinstance(s, ast.Expr) and isinstance(s.value, ast.Constant) and isinstance(s.value.value, str))]


def need(cond, node, msg):
    if not cond:
        fail(node, msg)


class KEnv(Env):
    def __init__(self):
        super().__init__()
        self.statics = {}       # (cls, name) -> (coqname, [argtypes], ret)
        self.params = {}        # (cls, name) -> [parameter names] (without self)
        self.upcasts = {}       # (from rec name, to rec name) -> coq function
        self.defaults = {}      # rec name -> coq term used as the (unreachable) default of hd / last
        self.float_div_sites = []


class KTranslator(FnTranslator):
    """Additive shapes: x[0] / x[-1] on record lists, range(n), list comprehensions, numpy broadcasting vec + int, np.array,
    np.asarray of a list of vectors, np.concatenate, int(a / b), static-method calls, keyword-checked method calls, the
    first-match `for` loop, the exhaustive enum if/elif chain assigning one variable, typed assignments with up-casts, and
    (option_mode) assert -> None."""

    def __init__(self, env, cls_name=None, option_mode=False):
        super().__init__(env, cls_name)
        self.option_mode = option_mode

    # ------------------------------------------------------------ expressions
    def expr(self, n, loc):
        env = self.env
        if isinstance(n, ast.Subscript):
            v, vty = self.expr(n.value, loc)
            idx = n.slice
            need(vty[0] == 'list' and isinstance(vty[1], tuple) and vty[1][0] == 'rec' and vty[1][1] in env.defaults, n,
                 f"subscript on {vty}")
            dflt = env.defaults[vty[1][1]]
            if isinstance(idx, ast.Constant) and idx.value == 0:
                return f"(hd {dflt} {v})", vty[1]
            if (isinstance(idx, ast.UnaryOp) and isinstance(idx.op, ast.USub) and isinstance(idx.operand, ast.Constant)
                    and idx.operand.value == 1):
                return f"(last {v} {dflt})", vty[1]
            fail(n, "subscript index (only [0] and [-1])")
        if isinstance(n, ast.ListComp):
            need(len(n.generators) == 1, n, "comprehension with several generators")
            g = n.generators[0]
            need(not g.is_async and isinstance(g.target, ast.Name), n, "comprehension shape")
            it, ity = self.expr(g.iter, loc)
            need(ity[0] == 'list', n, "comprehension over non-list")
            loc2 = dict(loc)
            loc2[g.target.id] = (g.target.id, ity[1])
            for f in g.ifs:     # `[e for x in l if c1 if c2]` keeps the elements satisfying c1 then c2, in order
                c, cty = self.expr(f, loc2)
                self.want(n, cty, 'bool')
                it = f"(filter (fun {g.target.id} => {c}) {it})"
            b, bty = self.expr(n.elt, loc2)
            return f"(map (fun {g.target.id} => {b}) {it})", ('list', bty)
        if isinstance(n, ast.IfExp):
            c, cty = self.expr(n.test, loc)
            self.want(n, cty, 'bool')
            a, aty = self.expr(n.body, loc)
            b, bty = self.expr(n.orelse, loc)
            if aty == ('list', '?') and bty[0] == 'list':
                aty = bty
            if bty == ('list', '?') and aty[0] == 'list':
                bty = aty
            need(aty == bty, n, "if-expression branches differ in type")
            return f"(if {c} then {a} else {b})", aty
        if isinstance(n, ast.BinOp) and isinstance(n.op, ast.Add):
            a, aty = self.expr(n.left, loc)
            b, bty = self.expr(n.right, loc)
            if aty == ('vec',) and bty == 'Z':
                return f"(map (fun i_ => i_ + {b}) {a})", ('vec',)
        return super().expr(n, loc)

    def call(self, n, loc):
        env = self.env
        f = n.func
        if isinstance(f, ast.Name) and not n.keywords:
            if f.id == 'range' and len(n.args) == 1:
                a, aty = self.expr(n.args[0], loc)
                self.want(n, aty, 'Z')
                return f"(zrange 0 {a})", LZ
            if f.id == 'int' and len(n.args) == 1:
                d = n.args[0]
                need(isinstance(d, ast.BinOp) and isinstance(d.op, ast.Div), n, "int() of something else than a / b")
                a, aty = self.expr(d.left, loc)
                b, bty = self.expr(d.right, loc)
                self.want(n, aty, 'Z')
                self.want(n, bty, 'Z')
                env.float_div_sites.append(getattr(n, 'lineno', 0))
                return f"(Z.quot {a} {b})", 'Z'
        if isinstance(f, ast.Attribute) and isinstance(f.value, ast.Name) and f.value.id == 'np' and not n.keywords and len(n.args) == 1:
            if f.attr in ('asarray', 'array'):
                a, aty = self.expr(n.args[0], loc)
                if aty == LZ or aty == ('vec',):
                    return a, ('vec',)
                if aty == ('list', ('vec',)) or aty == MAT:
                    return a, MAT
                if aty == ('list', '?'):
                    return a, aty
                fail(n, f"np.{f.attr} of {aty}")
            if f.attr == 'concatenate':
                a, aty = self.expr(n.args[0], loc)
                need(aty == MAT, n, f"np.concatenate of {aty}")
                return f"(concat {a})", ('vec',)
            fail(n, "numpy function not recognised")
        if isinstance(f, ast.Attribute):
            # static methods, called through self or through the class name
            owner = None
            if isinstance(f.value, ast.Name) and f.value.id == 'self' and self.cls and (self.cls, f.attr) in env.statics:
                owner = self.cls
            elif isinstance(f.value, ast.Name) and (f.value.id, f.attr) in env.statics:
                owner = f.value.id
            if owner:
                cn, argtys, ret = env.statics[(owner, f.attr)]
                args = self.bind(n, env.params[(owner, f.attr)], loc)
                self.check_args(n, args, argtys)
                return "(" + " ".join([cn] + [a for a, _ in args]) + ")", ret
            if not (isinstance(f.value, ast.Name) and f.value.id == 'np'):
                vt, vty = self.expr(f.value, loc)
                if vty[0] == 'rec' and (vty[1], f.attr) in env.methods and (vty[1], f.attr) in env.params:
                    cn, argtys, ret = env.methods[(vty[1], f.attr)]
                    args = self.bind(n, env.params[(vty[1], f.attr)], loc)
                    self.check_args(n, args, argtys)
                    return "(" + " ".join([cn, vt] + [a for a, _ in args]) + ")", ret
        return super().call(n, loc)

    def bind(self, n, names, loc):
        """positional + keyword arguments -> list in parameter order; keyword names are checked."""
        vals = {}
        need(len(n.args) <= len(names), n, "too many arguments")
        for name, a in zip(names, n.args):
            vals[name] = self.expr(a, loc)
        for k in n.keywords:
            need(k.arg in names and k.arg not in vals, n, f"keyword {k.arg}")
            vals[k.arg] = self.expr(k.value, loc)
        need(set(vals) == set(names), n, "missing arguments")
        return [vals[x] for x in names]

    def check_args(self, n, args, argtys):
        for (a, aty), ety in zip(args, argtys):
            if aty != ety and not (aty == ('vec',) and ety == LZ) and not (aty == ('list', '?') and ety[0] == 'list'):
                fail(n, f"argument type {aty} vs {ety}")

    def upcast(self, node, text, ty, target):
        if target is None or ty == target:
            return text, ty
        if ty == ('vec',) and target == LZ:
            return text, target
        if ty == ('list', '?') and target[0] == 'list':
            return text, target
        env = self.env
        if ty[0] == 'rec' and target[0] == 'rec' and (ty[1], target[1]) in env.upcasts:
            return f"({env.upcasts[(ty[1], target[1])]} {text})", target
        if (ty[0] == 'list' and target[0] == 'list' and isinstance(ty[1], tuple) and isinstance(target[1], tuple)
                and ty[1][0] == 'rec' and target[1][0] == 'rec' and (ty[1][1], target[1][1]) in env.upcasts):
            return f"(map {env.upcasts[(ty[1][1], target[1][1])]} {text})", target
        fail(node, f"value of type {ty} annotated as {target}")

    # ------------------------------------------------------------ statements
    def body(self, stmts, loc, ret_ty, typed_other=None):
        if not stmts:
            raise TranslateError("function body falls off the end")
        s, rest = stmts[0], stmts[1:]
        if isinstance(s, ast.AnnAssign) and isinstance(s.target, ast.Name) and s.value is not None:
            t, ty = self.expr(s.value, loc)
            t, ty = self.upcast(s, t, ty, ann_type(s, s.annotation))
            loc2 = dict(loc)
            loc2[s.target.id] = (s.target.id, ty)
            return f"let {s.target.id} := {t} in\n  " + self.body(rest, loc2, ret_ty, typed_other)
        if isinstance(s, ast.For):
            return self.first_match_loop(s, rest, loc, ret_ty, typed_other)
        if isinstance(s, ast.If):
            chain = self.enum_chain(s, loc)
            if chain is not None:
                var, scrut, enum, arms, ty = chain
                loc2 = dict(loc)
                loc2[var] = (var, ty)
                m = f"match {scrut} with " + " ".join(f"| {enum}_{mem} => {txt}" for mem, txt in arms) + " end"
                return f"let {var} := {m} in\n  " + self.body(rest, loc2, ret_ty, typed_other)
        if self.option_mode:
            if isinstance(s, ast.Assert):
                c, cty = self.expr(s.test, loc)
                self.want(s, cty, 'bool')
                return f"if {c} then {self.body(rest, loc, ret_ty, typed_other)}\n  else None"
            if isinstance(s, ast.Return):
                need(s.value is not None, s, "bare return")
                t, ty = self.expr(s.value, loc)
                self.unify(s, ty, ret_ty)
                return f"Some {t}"
        return super().body(stmts, loc, ret_ty, typed_other)

    def first_match_loop(self, s, rest, loc, ret_ty, typed_other):
        """for x in L:  if c(x): ...; return e        ->  match find (fun x => c x) L with Some x => ... e | None => <rest> end"""
        need(isinstance(s.target, ast.Name) and not s.orelse and len(s.body) == 1 and isinstance(s.body[0], ast.If)
             and not s.body[0].orelse, s, "loop shape (only first-match loops)")
        it, ity = self.expr(s.iter, loc)
        need(ity[0] == 'list', s, "loop over non-list")
        x = s.target.id
        loc2 = dict(loc)
        loc2[x] = (x, ity[1])
        c, cty = self.expr(s.body[0].test, loc2)
        self.want(s, cty, 'bool')
        need(isinstance(s.body[0].body[-1], ast.Return), s, "first-match loop body must end in return")
        hit = self.body(s.body[0].body, loc2, ret_ty, typed_other)
        miss = self.body(rest, loc, ret_ty, typed_other)
        return f"match find (fun {x} => {c}) {it} with\n  | Some {x} => {hit}\n  | None => {miss}\n  end"

    def enum_chain(self, s, loc):
        """if v == E.A: x = a  elif v == E.B: x = b ... else: raise   with the tests exhausting E."""
        arms, cur, var, scrut, enum, ty = [], s, None, None, None, None
        while True:
            t = cur.test
            if not (isinstance(t, ast.Compare) and len(t.ops) == 1 and isinstance(t.ops[0], ast.Eq) and isinstance(t.left, ast.Name)
                    and isinstance(t.comparators[0], ast.Attribute) and isinstance(t.comparators[0].value, ast.Name)
                    and t.comparators[0].value.id in self.env.enums):
                return None
            e = t.comparators[0].value.id
            st, sty = self.expr(t.left, loc)
            if sty != ('enum', e) or (enum and (e != enum or st != scrut)):
                return None
            enum, scrut = e, st
            if len(cur.body) != 1 or not isinstance(cur.body[0], (ast.Assign, ast.AnnAssign)):
                return None
            a = cur.body[0]
            tgt = a.target if isinstance(a, ast.AnnAssign) else (a.targets[0] if len(a.targets) == 1 else None)
            if not isinstance(tgt, ast.Name) or (var and tgt.id != var):
                return None
            var = tgt.id
            txt, tty = self.expr(a.value, loc)
            if isinstance(a, ast.AnnAssign):
                txt, tty = self.upcast(a, txt, tty, ann_type(a, a.annotation))
            need(ty is None or ty == tty, a, "enum chain arms differ in type")
            ty = tty
            mem = t.comparators[0].attr
            need(mem in self.env.enums[enum] and mem not in [m for m, _ in arms], t, "enum member")
            arms.append((mem, txt))
            if len(cur.orelse) == 1 and isinstance(cur.orelse[0], ast.If):
                cur = cur.orelse[0]
                continue
            need(len(cur.orelse) == 1 and isinstance(cur.orelse[0], ast.Raise), cur, "enum chain must end in `else: raise`")
            break
        need(sorted(m for m, _ in arms) == sorted(self.env.enums[enum]), s, "enum chain not exhaustive (else branch reachable)")
        return var, scrut, enum, arms, ty


def define(env, cls_name, fn, ret_ty, arg_types=None, static=False, option_mode=False, coqname=None, params=None, body=None):
    """Translate fn (method of record class cls_name, or static method) with KTranslator; registers it; returns Coq text.
    Argument types come from the annotations unless given."""
    tr = KTranslator(env, cls_name, option_mode)
    args = [a.arg for a in fn.args.args]
    need(not fn.args.vararg and not fn.args.kwarg and not fn.args.kwonlyargs and not fn.args.defaults, fn, "signature")
    if static:
        need('staticmethod' in decorators(fn), fn, "expected a staticmethod")
        names = args
        anns = fn.args.args
    else:
        need(args and args[0] == 'self' and 'staticmethod' not in decorators(fn), fn, "expected a method")
        names = args[1:]
        anns = fn.args.args[1:]
    if params is not None:      # restrict to a sub-signature (tail translation)
        names, anns = [p for p, _ in params], None
        arg_types = [t for _, t in params]
    if arg_types is None:
        arg_types = []
        for a in anns:
            need(a.annotation is not None, fn, f"parameter {a.arg} without annotation")
            arg_types.append(ann_type(fn, a.annotation))
    need(len(arg_types) == len(names), fn, "arity")
    loc = {} if static else {'self': ('self', ('rec', cls_name))}
    for a, t in zip(names, arg_types):
        loc[a] = (a, t)
    pname = fn.name.strip('_') if fn.name.startswith('__') else fn.name
    coqname = coqname or f"{cls_name}_{pname}"
    if body is None:
        # `r = []; for x in it: [if c: continue] r.append(e); <use of r>` is read as the comprehension it computes (pycoq N5, with
        # N4 for that one local only).  Annotations stay (they are read as types / up-casts here) and other locals stay (`let`s).
        # An `else` after a returning branch is dropped (N7) and a guard on `A or B` is read as the guards on A and on B (N8):
        # the unmerged form is what /repo writes, so merged guards give the same text.
        body = norm_function(fn, annotations=False, guards=False, single_use=False, helpers=False, split_or=True).body
    text = tr.body(body, loc, ret_ty)
    if static:
        env.statics[(cls_name, fn.name)] = (coqname, arg_types, ret_ty)
    else:
        env.methods[(cls_name, fn.name)] = (coqname, arg_types, ret_ty)
    env.params[(cls_name, fn.name)] = names
    ps = ([] if static else [f"(self : {cls_name})"]) + [f"({a} : {coq_type(t)})" for a, t in zip(names, arg_types)]
    rt = f"(option {coq_type(ret_ty)})" if option_mode else coq_type(ret_ty)
    return f"Definition {coqname} {' '.join(ps)} : {rt} :=\n  {text}.\n"


def method_names(cls):
    return [n.name for n in cls.body if isinstance(n, ast.FunctionDef)]


def expect_methods(cls, expected):
    got = method_names(cls)
    if sorted(got) != sorted(expected):
        raise TranslateError(f"{cls.name}: method set changed: {sorted(set(got) ^ set(expected))} (every method must be covered)")


def expect_fields(cls, expected):
    got = [(n, a) for n, a, _ in dataclass_fields(cls)]
    if got != expected:
        raise TranslateError(f"{cls.name}: dataclass fields changed: {got} (expected {expected})")


def expect_frozen_dataclass(cls):
    for d in cls.decorator_list:
        if isinstance(d, ast.Call) and unparse(d) == 'dataclass(frozen=True)':
            return
    raise TranslateError(f"{cls.name}: expected @dataclass(frozen=True)")


def expect_bases(cls, bases):
    got = [unparse(b) for b in cls.bases]
    if got != bases:
        raise TranslateError(f"{cls.name}: bases changed: {got}")


def pin_body(fn, src):
    """the body of fn (docstrings dropped) must be exactly `src`"""
    got = "\n".join(unparse(s) for s in strip_doc(fn.body))
    if got != src:
        raise TranslateError(f"{fn.name} (line {fn.lineno}): body changed: {got!r} (expected {src!r})")


def is_property(fn):
    return 'property' in decorators(fn)


class Subst(ast.NodeTransformer):
    """replace `self._x` by the constructor parameter it was assigned from"""

    def __init__(self, table):
        self.table = table

    def visit_Attribute(self, n):
        s = unparse(n)
        if s in self.table:
            return ast.copy_location(ast.Name(id=self.table[s], ctx=ast.Load()), n)
        return self.generic_visit(n)


def kernel_loop(env, owner, stmts, kl, rounds, loc, subst, prefix, out):
    """Pin the kernel-building loop and emit <prefix>_first_start / _next_start / _kernel.
       stmts: [<kl> = [] , for nr_round in <rounds>: ...]"""
    init, loop = stmts
    need(unparse(init).replace(': List[RepetitionIndexKernel]', '') == f"{kl} = []", init, "kernel list initialisation")
    need(isinstance(loop, ast.For) and unparse(loop.target) == 'nr_round' and unparse(loop.iter) == rounds and not loop.orelse,
         loop, "kernel loop header")
    b = strip_doc(loop.body)
    need(len(b) == 4, loop, "kernel loop body (expected 4 statements)")
    s0, s1, s2, s3 = b
    # offset_strategy: IIndexStrategy = FixedIndexStrategy(index=K)
    need(isinstance(s0, ast.AnnAssign) and unparse(s0.target) == 'offset_strategy' and isinstance(s0.value, ast.Call)
         and unparse(s0.value.func) == 'FixedIndexStrategy' and not s0.value.args and [k.arg for k in s0.value.keywords] == ['index'],
         s0, "initial offset strategy")
    tr = KTranslator(env, None)
    k0, k0ty = tr.expr(s0.value.keywords[0].value, {})
    tr.want(s0, k0ty, 'Z')
    need(unparse(s1) == f"if {kl}:\n    offset_strategy = RelativeIndexStrategy(reference_index_kernel={kl}[-1])", s1, "chaining strategy")
    need(unparse(s3) == f"{kl}.append(kernel)", s3, "append")
    need(isinstance(s2, ast.AnnAssign) and unparse(s2.target) == 'kernel' and isinstance(s2.value, ast.Call)
         and unparse(s2.value.func) == 'RepetitionIndexKernel' and not s2.value.args, s2, "kernel construction")
    kw = {k.arg: k.value for k in s2.value.keywords}
    fields = env.records['RepetitionIndexKernel']
    src_fields = {'start_index': 'index_offset_strategy'}
    vals = []
    need(sorted(kw) == sorted(src_fields.get(f, f) for f in fields), s2, "kernel constructor keywords")
    loc2 = dict(loc)
    loc2['nr_round'] = ('nr_round', 'Z')
    for f, fty in fields.items():
        v = kw[src_fields.get(f, f)]
        if f == 'start_index':
            need(unparse(v) == 'offset_strategy', v, "index_offset_strategy argument")
            vals.append('start_index')
            continue
        t, ty = tr.expr(subst.visit(v) if subst else v, loc2)
        t, ty = tr.upcast(v, t, ty, fty)
        vals.append(t)
    out.append(f"Definition {prefix}_first_start : Z :=\n  (FixedIndexStrategy_get_index (MkFixedIndexStrategy {k0})).\n")
    out.append(f"Definition {prefix}_next_start (previous : RepetitionIndexKernel) : Z :=\n"
               f"  (RelativeIndexStrategy_get_index (MkRelativeIndexStrategy (RepetitionIndexKernel_as_IIndexingKernel previous))).\n")
    ps = " ".join(f"({a} : {coq_type(t)})" for a, (_, t) in loc2.items())
    out.append(f"Definition {prefix}_kernel {ps} (start_index : Z) : RepetitionIndexKernel :=\n"
               f"  (MkRepetitionIndexKernel {' '.join(vals)}).\n")
    return list(loc2)


def calibration_ctor(env, call, kl, loc, subst, prefix, out):
    need(isinstance(call, ast.Call) and unparse(call.func) == 'QutritCalibrationIndexKernel' and not call.args, call, "calibration kernel construction")
    kw = {k.arg: k.value for k in call.keywords}
    fields = env.records['QutritCalibrationIndexKernel']
    src_fields = {'start_index': 'index_offset_strategy'}
    need(sorted(kw) == sorted(src_fields.get(f, f) for f in fields), call, "calibration constructor keywords")
    tr = KTranslator(env, None)
    vals = []
    for f, fty in fields.items():
        v = kw[src_fields.get(f, f)]
        if f == 'start_index':
            need(unparse(v) == f"RelativeIndexStrategy(reference_index_kernel={kl}[-1])", v, "calibration offset strategy")
            vals.append("(RelativeIndexStrategy_get_index (MkRelativeIndexStrategy (RepetitionIndexKernel_as_IIndexingKernel previous)))")
            continue
        t, ty = tr.expr(subst.visit(v) if subst else v, loc)
        t, ty = tr.upcast(v, t, ty, fty)
        vals.append(t)
    ps = " ".join(f"({a} : {coq_type(t)})" for a, (_, t) in loc.items())
    out.append(f"Definition {prefix}_calibration {ps} (previous : RepetitionIndexKernel) : QutritCalibrationIndexKernel :=\n"
               f"  (MkQutritCalibrationIndexKernel {' '.join(vals)}).\n")


def generate(repo):
    env = KEnv()
    out = ["(* GENERATED by tools/translate/gen_kernels.py from the current /repo sources -- do not edit *)",
           "From Coq Require Import ZArith List Bool.", "From QCE Require Import Base.Prelude.", "Import ListNotations.",
           "Open Scope Z_scope.", ""]
    t_rep, t_cal = parse_file(f"{repo}/{SRC_REP}"), parse_file(f"{repo}/{SRC_CAL}")
    t_str, t_ker, t_stab = parse_file(f"{repo}/{SRC_STRAT}"), parse_file(f"{repo}/{SRC_KERN}"), parse_file(f"{repo}/{SRC_STAB}")

    # ---------------------------------------------------------------- StateKey
    sk = find_class(t_stab, 'StateKey')
    env.enums['StateKey'] = enum_members(sk)
    out.append(coq_enum('StateKey', env.enums['StateKey']))

    # ---------------------------------------------------------------- IIndexingKernel (interface view: start, stop)
    ik = find_class(t_ker, 'IIndexingKernel')
    expect_methods(ik, ['start_index', 'stop_index', 'kernel_length', 'contains'])
    for nm in ('start_index', 'stop_index', 'contains'):
        need('abstractmethod' in decorators(find_func(ik, nm)), ik, f"{nm} expected abstract")
    need(is_property(find_func(ik, 'start_index')) and is_property(find_func(ik, 'stop_index')) and is_property(find_func(ik, 'kernel_length')),
         ik, "interface properties")
    env.records['IIndexingKernel'] = {'start_index': 'Z', 'stop_index': 'Z'}
    env.defaults['IIndexingKernel'] = 'IIndexingKernel_default'
    out.append("(* interface view of any index kernel *)")
    out.append(coq_record('IIndexingKernel', env.records['IIndexingKernel']))
    out.append("Definition IIndexingKernel_default : IIndexingKernel := MkIIndexingKernel 0 0.   (* default of hd/last; never reached on non-empty lists *)\n")
    kl_fn = find_func(ik, 'kernel_length')
    out.append(define(env, 'IIndexingKernel', kl_fn, 'Z'))

    # ---------------------------------------------------------------- index strategies
    fx = find_class(t_str, 'FixedIndexStrategy')
    expect_frozen_dataclass(fx)
    expect_fields(fx, [('index', 'int')])
    expect_methods(fx, ['get_index'])
    dflt = dataclass_fields(fx)[0][2]
    need(isinstance(dflt, ast.Call) and unparse(dflt.func) == 'field' and [k.arg for k in dflt.keywords] == ['default']
         and isinstance(dflt.keywords[0].value, ast.Constant) and isinstance(dflt.keywords[0].value.value, int), fx, "FixedIndexStrategy.index default")
    env.records['FixedIndexStrategy'] = {'index': 'Z'}
    out.append(coq_record('FixedIndexStrategy', env.records['FixedIndexStrategy']))
    out.append(f"Definition FixedIndexStrategy_default_index : Z := {dflt.keywords[0].value.value}.\n")
    rl = find_class(t_str, 'RelativeIndexStrategy')
    expect_frozen_dataclass(rl)
    expect_fields(rl, [('reference_index_kernel', 'IIndexingKernel')])
    expect_methods(rl, ['get_index'])
    env.records['RelativeIndexStrategy'] = {'reference_index_kernel': IK}
    out.append(coq_record('RelativeIndexStrategy', env.records['RelativeIndexStrategy']))
    for cname, c in (('FixedIndexStrategy', fx), ('RelativeIndexStrategy', rl)):
        g = find_func(c, 'get_index')
        need([a.arg for a in g.args.args] == ['self', 'task'], g, "get_index signature")
        used = [x for s in g.body for x in ast.walk(s) if isinstance(x, ast.Name) and x.id == 'task']
        need(not used, g, "get_index uses the task (would make start_index self-referential)")
        # the unused `task` parameter is dropped
        tr = KTranslator(env, cname)
        body = tr.body(g.body, {'self': ('self', ('rec', cname))}, 'Z')
        env.methods[(cname, 'get_index')] = (f"{cname}_get_index", [], 'Z')
        out.append(f"Definition {cname}_get_index (self : {cname}) : Z :=\n  {body}.\n")

    # ---------------------------------------------------------------- RepetitionIndexKernel
    rk = find_class(t_rep, 'RepetitionIndexKernel')
    expect_frozen_dataclass(rk)
    expect_bases(rk, ['IIndexingKernel'])
    expect_fields(rk, [('nr_repeated_parities', 'int'), ('heralded_initialization', 'bool'), ('index_offset_strategy', 'IIndexStrategy'),
                       ('involved_data_qubit_ids', 'List[IQubitID]'), ('involved_ancilla_qubit_ids', 'List[IQubitID]')])
    props = ['start_index', '_exclusive_start_index', 'index_delta_heralded_initialization', 'index_delta_stabilizer_measurements',
             'index_delta_final_measurement', 'stop_index', 'involved_qubit_ids']
    getters = ['get_heralded_measurement_index', 'get_ordered_stabilizer_measurement_indices', 'get_final_measurement_index']
    expect_methods(rk, props + getters + ['contains', '__post_init__'])
    pin_body(find_func(rk, 'start_index'), 'return self.index_offset_strategy.get_index(self)')
    post = strip_doc(find_func(rk, '__post_init__').body)
    need(len(post) == 1 and isinstance(post[0], ast.If) and len(post[0].body) == 1 and not post[0].orelse
         and unparse(post[0].body[0]).startswith('warnings.warn('), rk, "__post_init__ is expected to only warn")
    env.records['RepetitionIndexKernel'] = {'nr_repeated_parities': 'Z', 'heralded_initialization': 'bool', 'start_index': 'Z',
                                            'involved_data_qubit_ids': LZ, 'involved_ancilla_qubit_ids': LZ}
    out.append("(* start_index := index_offset_strategy.get_index(self): a field; the chaining is RepetitionExperimentKernel_init_* below *)")
    out.append(coq_record('RepetitionIndexKernel', env.records['RepetitionIndexKernel']))
    for p in props[1:]:
        fn = find_func(rk, p)
        need(is_property(fn), fn, "expected a property")
        out.append(define(env, 'RepetitionIndexKernel', fn, ann_type(fn, fn.returns)))
    out.append(define(env, 'RepetitionIndexKernel', kl_fn, 'Z') + "  (* inherited from IIndexingKernel *)\n")
    for g in getters + ['contains']:
        fn = find_func(rk, g)
        need(not is_property(fn), fn, "expected a method")
        out.append(define(env, 'RepetitionIndexKernel', fn, ann_type(fn, fn.returns)))
    env.upcasts[('RepetitionIndexKernel', 'IIndexingKernel')] = 'RepetitionIndexKernel_as_IIndexingKernel'
    out.append("Definition RepetitionIndexKernel_as_IIndexingKernel (self : RepetitionIndexKernel) : IIndexingKernel :=\n"
               "  MkIIndexingKernel (RepetitionIndexKernel_start_index self) (RepetitionIndexKernel_stop_index self).\n")

    # ---------------------------------------------------------------- QutritCalibrationIndexKernel
    ck = find_class(t_cal, 'QutritCalibrationIndexKernel')
    expect_frozen_dataclass(ck)
    expect_bases(ck, ['IIndexingKernel'])
    expect_fields(ck, [('heralded_initialization', 'bool'), ('index_offset_strategy', 'IIndexStrategy'), ('involved_qubit_ids', 'List[IQubitID]')])
    cprops = ['start_index', '_exclusive_start_index', 'index_delta_heralded_initialization', 'index_delta_state_0', 'index_delta_state_1',
              'index_delta_state_2', 'stop_index']
    cget = ['get_heralded_state_0_measurement_index', 'get_heralded_state_1_measurement_index', 'get_heralded_state_2_measurement_index',
            'get_state_0_measurement_index', 'get_state_1_measurement_index', 'get_state_2_measurement_index']
    expect_methods(ck, cprops + cget + ['contains'])
    pin_body(find_func(ck, 'start_index'), 'return self.index_offset_strategy.get_index(self)')
    env.records['QutritCalibrationIndexKernel'] = {'heralded_initialization': 'bool', 'start_index': 'Z', 'involved_qubit_ids': LZ}
    out.append(coq_record('QutritCalibrationIndexKernel', env.records['QutritCalibrationIndexKernel']))
    for p in cprops[1:]:
        fn = find_func(ck, p)
        need(is_property(fn), fn, "expected a property")
        out.append(define(env, 'QutritCalibrationIndexKernel', fn, ann_type(fn, fn.returns)))
    out.append(define(env, 'QutritCalibrationIndexKernel', kl_fn, 'Z') + "  (* inherited from IIndexingKernel *)\n")
    for g in cget + ['contains']:
        fn = find_func(ck, g)
        need(not is_property(fn), fn, "expected a method")
        out.append(define(env, 'QutritCalibrationIndexKernel', fn, ann_type(fn, fn.returns)))
    env.upcasts[('QutritCalibrationIndexKernel', 'IIndexingKernel')] = 'QutritCalibrationIndexKernel_as_IIndexingKernel'
    out.append("Definition QutritCalibrationIndexKernel_as_IIndexingKernel (self : QutritCalibrationIndexKernel) : IIndexingKernel :=\n"
               "  MkIIndexingKernel (QutritCalibrationIndexKernel_start_index self) (QutritCalibrationIndexKernel_stop_index self).\n")

    # ---------------------------------------------------------------- RepetitionExperimentKernel
    ek = find_class(t_rep, 'RepetitionExperimentKernel')
    expect_bases(ek, ['IStabilizerIndexingKernel'])
    stab = find_class(t_stab, 'IStabilizerIndexingKernel')
    need([unparse(b) for b in stab.bases] == ['IIndexingKernel'] and 'kernel_length' not in method_names(stab), stab,
         "IStabilizerIndexingKernel is expected to inherit kernel_length unchanged")
    eprops = ['start_index', 'stop_index', 'kernel_cycle_length', 'experiment_repetitions', 'indexing_kernels']
    egets = ['get_projected_calibration_acquisition_indices', 'get_heralded_calibration_acquisition_indices',
             'get_heralded_cycle_acquisition_indices', 'get_stabilizer_and_projected_cycle_acquisition_indices',
             'get_projected_cycle_acquisition_indices']
    statics = ['create_sliced_arrays', 'create_sliced_array']
    expect_methods(ek, eprops + egets + statics + ['__init__', 'contains', 'estimate_experiment_repetitions'])
    pin_body(find_func(ek, 'contains'), 'raise NotImplemented')
    env.records['RepetitionExperimentKernel'] = {'_repetition_kernels': ('list', ('rec', 'RepetitionIndexKernel')),
                                                 '_calibration_kernel': ('rec', 'QutritCalibrationIndexKernel'), '_repetitions': 'Z',
                                                 '_qutrit_calibration_points': 'bool'}
    out.append("(* the attributes of RepetitionExperimentKernel that its methods read (built by __init__, see C12/Model.v) *)")
    out.append(coq_record('RepetitionExperimentKernel', env.records['RepetitionExperimentKernel']))
    for s in statics:
        fn = find_func(ek, s)
        out.append(define(env, 'RepetitionExperimentKernel', fn, MAT if s == 'create_sliced_arrays' else LZ, static=True))
    for p in ['indexing_kernels', 'start_index', 'kernel_cycle_length', 'experiment_repetitions', 'stop_index']:
        fn = find_func(ek, p)
        need(is_property(fn), fn, "expected a property")
        out.append(define(env, 'RepetitionExperimentKernel', fn, ann_type(fn, fn.returns)))
    out.append(define(env, 'RepetitionExperimentKernel', kl_fn, 'Z') + "  (* inherited from IIndexingKernel; note stop_index above is start + repetitions * cycle length *)\n")
    for g in egets:
        fn = find_func(ek, g)
        out.append(define(env, 'RepetitionExperimentKernel', fn, LZ if 'calibration' in g else MAT))

    # ---- __init__ : pinned shape, constructor pieces emitted
    init = find_func(ek, '__init__')
    ib = strip_doc(init.body)
    iparams = [(a.arg, ann_type(init, a.annotation)) for a in init.args.args[1:]]
    need([p for p, _ in iparams] == ['rounds', 'heralded_initialization', 'qutrit_calibration_points', 'involved_data_qubit_ids',
                                     'involved_ancilla_qubit_ids', 'experiment_repetitions'], init, "__init__ parameters")
    table = {}
    i = 0
    while i < len(ib) and isinstance(ib[i], ast.AnnAssign) and isinstance(ib[i].value, ast.Name):
        need(isinstance(ib[i].target, ast.Attribute) and unparse(ib[i].target.value) == 'self' and ib[i].value.id in dict(iparams),
             ib[i], "attribute initialisation")
        need(unparse(ib[i].target) not in table, ib[i], "attribute assigned twice")
        table[unparse(ib[i].target)] = ib[i].value.id
        i += 1
    need(table == {'self._rounds': 'rounds', 'self._heralded_initialization': 'heralded_initialization',
                   'self._qutrit_calibration_points': 'qutrit_calibration_points', 'self._involved_data_ids': 'involved_data_qubit_ids',
                   'self._involved_ancilla_ids': 'involved_ancilla_qubit_ids', 'self._repetitions': 'experiment_repetitions'},
         init, "__init__ attribute table")
    need(len(ib) == i + 3, init, "__init__ statements after the attribute table")
    subst = Subst(table)
    loc = {'heralded_initialization': ('heralded_initialization', 'bool'),
           'involved_data_qubit_ids': ('involved_data_qubit_ids', LZ), 'involved_ancilla_qubit_ids': ('involved_ancilla_qubit_ids', LZ)}
    out.append("(* ---- RepetitionExperimentKernel.__init__ (loop shape pinned by the generator; the fold is C12/Model.v) *)")
    kernel_loop(env, ek, ib[i:i + 2], 'self._repetition_kernels', 'self._rounds', loc, subst, 'RepetitionExperimentKernel_init', out)
    cal = ib[i + 2]
    need(isinstance(cal, ast.AnnAssign) and unparse(cal.target) == 'self._calibration_kernel', cal, "calibration kernel assignment")
    calibration_ctor(env, cal.value, 'self._repetition_kernels', loc, subst, 'RepetitionExperimentKernel_init', out)
    carried = {'self._repetitions', 'self._qutrit_calibration_points'}
    for fn in (find_func(ek, m) for m in eprops + egets):
        for x in ast.walk(fn):
            if isinstance(x, ast.Attribute) and unparse(x) in table and unparse(x) not in carried:
                fail(x, "a getter reads a constructor attribute the model does not carry")
    # does the cycle (indexing_kernels) depend on qutrit_calibration_points?  (finding F15: before the fix no method read the flag)
    honours = any(isinstance(x, ast.Attribute) and unparse(x) == 'self._qutrit_calibration_points'
                  for x in ast.walk(find_func(ek, 'indexing_kernels')))
    out.append("(* whether indexing_kernels reads self._qutrit_calibration_points (the calibration kernel object itself is always built by __init__) *)")
    out.append(f"Definition experiment_kernel_honours_calibration_flag : bool := {'true' if honours else 'false'}.\n")

    # ---- estimate_experiment_repetitions : pinned loop, translated tail
    est = find_func(ek, 'estimate_experiment_repetitions')
    need('staticmethod' in decorators(est), est, "estimate_experiment_repetitions expected static")
    eparams = [(a.arg, ann_type(est, a.annotation)) for a in est.args.args]
    need([p for p, _ in eparams] == ['rounds', 'heralded_initialization', 'qutrit_calibration_points', 'dataset_size'], est, "estimate parameters")
    eb = strip_doc(est.body)
    need(len(eb) >= 5, est, "estimate body")
    eloc = {'heralded_initialization': ('heralded_initialization', 'bool')}
    out.append("(* ---- RepetitionExperimentKernel.estimate_experiment_repetitions (loop shape pinned; tail translated) *)")
    kernel_loop(env, ek, eb[0:2], 'repetition_kernels', 'rounds', eloc, None, 'RepetitionExperimentKernel_estimate', out)
    need(unparse(eb[2]) == 'indexing_kernels: List[IIndexingKernel] = repetition_kernels', eb[2], "indexing_kernels alias")
    iff = eb[3]
    need(isinstance(iff, ast.If) and unparse(iff.test) == 'qutrit_calibration_points' and not iff.orelse and len(iff.body) == 2
         and isinstance(iff.body[0], ast.AnnAssign) and unparse(iff.body[0].target) == 'calibration_kernel'
         # `indexing_kernels += [k]` or `indexing_kernels.append(k)`: the same in-place append, because the statement pinned just
         # above binds indexing_kernels to the list `repetition_kernels` (pinned as `= []` plus `.append`)
         and append_one(iff.body[1], 'indexing_kernels') is not None
         and unparse(append_one(iff.body[1], 'indexing_kernels')) == 'calibration_kernel', iff, "calibration branch of estimate")
    calibration_ctor(env, iff.body[0].value, 'repetition_kernels', eloc, None, 'RepetitionExperimentKernel_estimate', out)
    out.append(define(env, 'RepetitionExperimentKernel', est, 'Z', static=True, option_mode=True,
                      coqname='RepetitionExperimentKernel_estimate_tail',
                      params=[('indexing_kernels', ('list', IK)), ('dataset_size', 'Z')], body=eb[4:]))
    del env.statics[('RepetitionExperimentKernel', 'estimate_experiment_repetitions')]
    need(len(env.float_div_sites) <= 1, est, "at most one int(a / b) site expected (assumption F9 is stated for it)")
    out.append(f"(* int(a / b) sites (float true division, modelled as Z.quot): source line(s) {env.float_div_sites}; 0 sites = the `//` form, Z.div *)")
    out.append("Definition float_division_sites : Z := %d.\n" % len(env.float_div_sites))
    return "\n".join(out)
