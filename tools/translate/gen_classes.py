"""Gen/Classes.v : per operation class -- init-able fields, channel template, default duration strategy and what copy()
transfers -- read from the two circuit_operations.py files with `ast` (fail-closed)."""
import ast
from pycoq import parse_file, TranslateError, fail, norm_function

SRC_A = 'src/qce_circuit/structure/circuit_operations.py'
SRC_B = 'src/qce_circuit/addon_stim/circuit_operations.py'
SRC_L = 'src/qce_circuit/structure/intrf_circuit_operation.py'
SOURCES = [SRC_A, SRC_B, SRC_L]
CHANS = ['READOUT', 'MICROWAVE', 'FLUX', 'ALL']
GKEY = {'READOUT': 'GReadout', 'MICROWAVE': 'GMicrowave', 'FLUX': 'GFlux', 'RESET': 'GReset'}


def kwmap(call):
    return {k.arg: k.value for k in call.keywords}


def field_info(stmt):
    """AnnAssign of a dataclass field -> dict(name, init, default(ast or None))"""
    name = stmt.target.id
    init, default = True, None
    v = stmt.value
    if isinstance(v, ast.Call) and isinstance(v.func, ast.Name) and v.func.id == 'field':
        kw = kwmap(v)
        if 'init' in kw:
            if not isinstance(kw['init'], ast.Constant):
                fail(stmt, "field(init=...) not a constant")
            init = bool(kw['init'].value)
        default = kw.get('default', kw.get('default_factory'))
    elif v is not None:
        default = v
    return {'name': name, 'init': init, 'default': default}


def dur_default(node, cname):
    """FixedDurationStrategy(duration=x) | GlobalDurationStrategy(GlobalRegistryKey.X)"""
    if isinstance(node, ast.Call) and isinstance(node.func, ast.Name):
        if node.func.id == 'FixedDurationStrategy':
            kw = kwmap(node)
            v = kw.get('duration') or (node.args[0] if node.args else None)
            if isinstance(v, ast.Constant) and isinstance(v.value, (int, float)):
                t = v.value * 8
                if t != int(t):
                    raise TranslateError(f"{cname}: default duration {v.value} is not a multiple of 1/8")
                return ('fixed', int(t))
        if node.func.id == 'GlobalDurationStrategy' and len(node.args) == 1:
            a = node.args[0]
            if isinstance(a, ast.Attribute) and isinstance(a.value, ast.Name) and a.value.id == 'GlobalRegistryKey' and a.attr in GKEY:
                return ('global', a.attr)
    raise TranslateError(f"{cname}: unrecognised default duration strategy: {ast.dump(node)[:200]}")


def channel_template(cls):
    """channel_identifiers body -> ('list', [(qubit_field, channel | None)]) or ('each', field, channel)"""
    for s in cls.body:
        if isinstance(s, ast.FunctionDef) and s.name == 'channel_identifiers':
            rets = [x for x in s.body if isinstance(x, ast.Return)]
            if len(rets) != 1 or len([x for x in s.body if not (isinstance(x, ast.Expr) and isinstance(x.value, ast.Constant))]) != 1:
                fail(s, f"{cls.name}.channel_identifiers: body shape")
            v = rets[0].value

            def one(call, qname=None):
                if not (isinstance(call, ast.Call) and isinstance(call.func, ast.Name) and call.func.id == 'ChannelIdentifier'):
                    fail(call, "not a ChannelIdentifier(...)")
                kw = kwmap(call)
                if set(kw) != {'_id', '_channel'}:
                    fail(call, "ChannelIdentifier keywords")
                i, c = kw['_id'], kw['_channel']
                if qname is not None:
                    if not (isinstance(i, ast.Name) and i.id == qname):
                        fail(call, "comprehension id")
                    fld = None
                else:
                    if not (isinstance(i, ast.Attribute) and isinstance(i.value, ast.Name) and i.value.id == 'self'):
                        fail(call, "id is not self.<field>")
                    fld = i.attr
                if isinstance(c, ast.Attribute) and isinstance(c.value, ast.Name) and c.value.id == 'QubitChannel' and c.attr in CHANS:
                    ch = c.attr
                elif isinstance(c, ast.Attribute) and isinstance(c.value, ast.Name) and c.value.id == 'self' and c.attr == 'qubit_channel':
                    ch = None
                else:
                    fail(call, "channel shape")
                return fld, ch
            if isinstance(v, ast.List):
                return ('list', [one(e) for e in v.elts])
            if isinstance(v, ast.ListComp) and len(v.generators) == 1:
                g = v.generators[0]
                if (isinstance(g.target, ast.Name) and isinstance(g.iter, ast.Attribute) and isinstance(g.iter.value, ast.Name)
                        and g.iter.value.id == 'self' and not g.ifs):
                    _, ch = one(v.elt, g.target.id)
                    return ('each', g.iter.attr, ch)
            fail(v, f"{cls.name}.channel_identifiers: return shape")
    return None


def copy_arg_kind(cname, k, v):
    if isinstance(v, ast.Attribute) and isinstance(v.value, ast.Name) and v.value.id == 'self' and v.attr == k:
        return 'same'
    if (isinstance(v, ast.Call) and isinstance(v.func, ast.Attribute) and v.func.attr == 'copy'
            and isinstance(v.func.value, ast.Attribute) and isinstance(v.func.value.value, ast.Name)
            and v.func.value.value.id == 'self' and v.func.value.attr == k
            and len(v.keywords) == 1 and isinstance(v.keywords[0].value, ast.Name)
            and v.keywords[0].value.id == 'relation_transfer_lookup'):
        return 'copy'
    fail(v, f"{cname}.copy: argument {k} has an unrecognised shape")


def copy_spec(cls):
    """Two recognised shapes:   return C(k=self.k | self.k.copy(..lookup..), ...)
                           or   result = C(...); result.f = <same shapes>; ...; return result"""
    for s in cls.body:
        if isinstance(s, ast.FunctionDef) and s.name == 'copy':
            # locals that only name an argument of the constructor call (`c = self.k.copy(..)` ... `k=c`) are substituted back
            # (pycoq N1 + N4: the evaluation order of the `.copy(...)` calls is checked to be unchanged)
            s = norm_function(s, guards=False, accumulate=False, helpers=False)
            body = [x for x in s.body if not (isinstance(x, ast.Expr) and isinstance(x.value, ast.Constant))]
            if not body or not isinstance(body[-1], ast.Return):
                fail(s, f"{cls.name}.copy: does not end in a return")
            ret = body[-1].value
            sets = {}
            if len(body) == 1:
                call = ret
            else:
                first = body[0]
                if not (isinstance(first, ast.Assign) and len(first.targets) == 1 and isinstance(first.targets[0], ast.Name)
                        and isinstance(ret, ast.Name) and ret.id == first.targets[0].id):
                    fail(s, f"{cls.name}.copy: body shape")
                call, var = first.value, ret.id
                for st in body[1:-1]:
                    if not (isinstance(st, ast.Assign) and len(st.targets) == 1 and isinstance(st.targets[0], ast.Attribute)
                            and isinstance(st.targets[0].value, ast.Name) and st.targets[0].value.id == var):
                        fail(st, f"{cls.name}.copy: statement shape")
                    sets[st.targets[0].attr] = st.value
            if not (isinstance(call, ast.Call) and isinstance(call.func, ast.Name) and call.func.id == cls.name and not call.args):
                fail(s, f"{cls.name}.copy: does not construct {cls.name}(keyword=...)")
            out = {k: copy_arg_kind(cls.name, k, v) for k, v in kwmap(call).items()}
            post = {k: copy_arg_kind(cls.name, k, v) for k, v in sets.items()}
            return out, post
    return None


def table(repo):
    """[{name, bases, fields:[{name, init}], chan, dur, dur_init, copy:{kw:kind}, missing:[...], copies_link}]"""
    classes = {}
    order = []
    for src in (SRC_A, SRC_B):
        tree = parse_file(f"{repo}/{src}")
        for n in tree.body:
            if isinstance(n, ast.ClassDef):
                classes[n.name] = n
                order.append(n.name)
    res = []

    def mro_fields(name):
        cls = classes[name]
        fields = []
        for b in cls.bases:
            bn = b.id if isinstance(b, ast.Name) else None
            if bn in classes:
                for f in mro_fields(bn):
                    if f['name'] not in [x['name'] for x in fields]:
                        fields.append(dict(f))
        for s in cls.body:
            if isinstance(s, ast.AnnAssign) and isinstance(s.target, ast.Name):
                fi = field_info(s)
                for i, x in enumerate(fields):
                    if x['name'] == fi['name']:
                        fields[i] = fi
                        break
                else:
                    fields.append(fi)
        return fields

    def inherited(name, fn):
        cls = classes[name]
        r = fn(cls)
        if r is not None:
            return r
        for b in cls.bases:
            bn = b.id if isinstance(b, ast.Name) else None
            if bn in classes:
                r = inherited(bn, fn)
                if r is not None:
                    return r
        return None

    for name in order:
        cls = classes[name]
        cpp = copy_spec(cls)
        cp, post = cpp if cpp is not None else (None, None)
        if cp is None:
            if any(isinstance(b, ast.Name) and b.id in ('SingleQubitOperation', 'TwoQubitOperation', 'Barrier', 'ICircuitOperation', 'IAcquisitionOperation') for b in cls.bases):
                raise TranslateError(f"operation class {name} has no copy() of its own")
            continue
        fields = mro_fields(name)
        chan = inherited(name, channel_template)
        if chan is None:
            raise TranslateError(f"{name}: no channel_identifiers")
        dfield = next((f for f in fields if f['name'] == 'duration_strategy'), None)
        if dfield is None or dfield['default'] is None:
            raise TranslateError(f"{name}: no duration_strategy default")
        dur = dur_default(dfield['default'], name)
        init_fields = [f['name'] for f in fields if f['init'] and not f['name'].startswith('_')]
        for k in cp:
            if k not in init_fields:
                raise TranslateError(f"{name}.copy passes {k}, which is not an init field")
        all_fields = [f['name'] for f in fields]
        for k in post:
            if k not in all_fields:
                raise TranslateError(f"{name}.copy sets {k}, which is not a field")
        missing = [f for f in init_fields if f not in cp and f not in post]
        res.append({'name': name, 'init_fields': init_fields, 'chan': chan, 'dur': dur, 'dur_init': dfield['init'],
                    'copy': cp, 'missing': missing, 'copies_link': 'copy' in (cp.get('relation'), post.get('relation')),
                    'has_relation_init': 'relation' in init_fields})
    return res


def qfield_index(c, fld):
    qf = [f for f in c['init_fields'] if 'qubit' in f and f != 'qubit_channel']
    return qf.index(fld)


def is_lookup_get(v, ref_field):
    """`relation_transfer_lookup.get(self.<ref_field>[, None])`: the transferred value written in place (what the local of the
    other accepted shape is assigned from in /repo)"""
    return (isinstance(v, ast.Call) and isinstance(v.func, ast.Attribute) and v.func.attr == 'get'
            and isinstance(v.func.value, ast.Name) and v.func.value.id == 'relation_transfer_lookup' and not v.keywords
            and len(v.args) in (1, 2) and ast.unparse(v.args[0]) == f"self.{ref_field}"
            and (len(v.args) == 1 or (isinstance(v.args[1], ast.Constant) and v.args[1].value is None)))


def link_copy_spec(repo):
    """RelationLink.copy / MultiRelationLink.copy: which fields of the link the returned copy receives from self"""
    tree = parse_file(f"{repo}/{SRC_L}")
    out = {}
    for cname, ref_field in (('RelationLink', '_reference_node'), ('MultiRelationLink', '_reference_nodes')):
        cls = next((n for n in tree.body if isinstance(n, ast.ClassDef) and n.name == cname), None)
        if cls is None:
            raise TranslateError(f"class {cname} not found")
        fn = next((n for n in cls.body if isinstance(n, ast.FunctionDef) and n.name == 'copy'), None)
        if fn is None:
            raise TranslateError(f"{cname}.copy not found")
        rets = [x for x in ast.walk(fn) if isinstance(x, ast.Return)]
        if len(rets) != 1 or not (isinstance(rets[0].value, ast.Call) and isinstance(rets[0].value.func, ast.Name)
                                  and rets[0].value.func.id == cname and not rets[0].value.args):
            fail(fn, f"{cname}.copy: expected a single `return {cname}(keyword=...)`")
        kw = kwmap(rets[0].value)
        same = {k for k, v in kw.items() if isinstance(v, ast.Attribute) and isinstance(v.value, ast.Name) and v.value.id == 'self' and v.attr == k}
        if ref_field not in kw or not (isinstance(kw[ref_field], ast.Name) or is_lookup_get(kw[ref_field], ref_field)):
            fail(fn, f"{cname}.copy: {ref_field} is not a transferred local")
        for k in kw:
            if k != ref_field and k not in same:
                fail(kw[k], f"{cname}.copy: argument {k} is not self.{k}")
        out[cname] = same
    return out


def generate(repo):
    tab = table(repo)
    links = link_copy_spec(repo)
    o = ["(* GENERATED by tools/translate/gen_classes.py from the current /repo sources -- do not edit *)",
         "From Coq Require Import ZArith List Bool String.", "Import ListNotations.",
         "From Gen Require Import Ident.", "Open Scope Z_scope.", "Open Scope string_scope.", "",
         "Inductive gkey := GReadout | GMicrowave | GFlux | GReset.",
         "Inductive ddefault := DefFixed (ticks : Z) | DefGlobal (k : gkey).",
         "(* channel template: qubit taken from the i-th qubit field (or every qubit of the list field), channel fixed or self.qubit_channel *)",
         "Inductive chan_tpl := TplList (l : list (nat * option QubitChannel)) | TplEach (c : option QubitChannel).",
         "Record class_spec := { cs_name : string; cs_init_fields : list string; cs_chan : chan_tpl; cs_dur : ddefault;",
         "  cs_dur_init : bool; cs_copy_link : bool; cs_copy_missing : list string; cs_relation_init : bool;",
         "  cs_copy_qchan : bool; cs_copy_dur : bool }.", ""]
    rows = []
    for i, c in enumerate(tab):
        def chs(x):
            return "None" if x is None else f"(Some QubitChannel_{x})"
        if c['chan'][0] == 'list':
            tpl = "TplList [" + "; ".join(f"({qfield_index(c, f)}%nat, {chs(ch)})" for f, ch in c['chan'][1]) + "]"
        else:
            tpl = f"TplEach {chs(c['chan'][2])}"
        dur = f"DefFixed {c['dur'][1]}" if c['dur'][0] == 'fixed' else f"DefGlobal {GKEY[c['dur'][1]]}"
        strs = lambda l: "[" + "; ".join(f'"{x}"' for x in l) + "]"
        b = lambda x: 'true' if x else 'false'
        rows.append(f"  {{| cs_name := \"{c['name']}\"; cs_init_fields := {strs(c['init_fields'])}; cs_chan := {tpl}; cs_dur := {dur};\n"
                    f"     cs_dur_init := {b(c['dur_init'])}; cs_copy_link := {b(c['copies_link'])}; cs_copy_missing := {strs(c['missing'])};"
                    f" cs_relation_init := {b(c['has_relation_init'])};"
                    f" cs_copy_qchan := {b('qubit_channel' not in c['missing'])}; cs_copy_dur := {b('duration_strategy' not in c['missing'])} |}}")
    o.append("Definition class_table : list class_spec := [\n" + ";\n".join(rows) + "\n].")
    o.append("")
    for i, c in enumerate(tab):
        o.append(f"Definition C_{c['name']} : Z := {i}.")
    o.append("")
    o.append("Definition no_class : class_spec := {| cs_name := \"\"; cs_init_fields := []; cs_chan := TplList []; cs_dur := DefFixed 0;"
             " cs_dur_init := false; cs_copy_link := true; cs_copy_missing := []; cs_relation_init := false; cs_copy_qchan := true; cs_copy_dur := true |}.")
    o.append("Definition class_of (c : Z) : class_spec := nth (Z.to_nat c) class_table no_class.")
    o.append("")
    o.append("(* RelationLink.copy / MultiRelationLink.copy: fields handed on to the copied link *)")
    bb = lambda x: 'true' if x else 'false'
    o.append(f"Definition relation_link_copy_keeps_type : bool := {bb('_relation_type' in links['RelationLink'])}.")
    o.append(f"Definition multi_link_copy_keeps_type : bool := {bb('_relation_type' in links['MultiRelationLink'])}.")
    o.append(f"Definition multi_link_copy_keeps_group : bool := {bb('_relation_to_group' in links['MultiRelationLink'])}.")
    return "\n".join(o) + "\n"


if __name__ == '__main__':
    import json, sys
    print(json.dumps(table(sys.argv[1] if len(sys.argv) > 1 else '/repo'), indent=1, default=str))
