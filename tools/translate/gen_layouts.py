"""Gen/Layouts.v : the literal device / layout tables behind C16 and C17, translated from the source text.

  connectivity/connectivity_surface_code.py      Surface17Layer: feedline -> qubits, the edges, parity groups, frequency groups
  connectivity/intrf_connectivity_surface_code.py StabilizerType, FrequencyGroup, FrequencyGroupIdentifier (ordering methods)
  library/repetition_code/repetition_code_connectivity.py   gate / park layers and parity groups of the three repetition layouts

Qubit identifiers are Coq strings, edges are pairs of strings in the orientation written in the source.
Fail-closed: every table has one recognised shape; anything else raises TranslateError.
"""
import ast
import re
from pycoq import (Env, parse_file, find_class, find_func, enum_members, coq_enum, coq_record, translate_method,
                   TranslateError, dataclass_fields, fail, decorators, norm_function)

SRC_S17 = 'src/qce_circuit/connectivity/connectivity_surface_code.py'
SRC_INTRF = 'src/qce_circuit/connectivity/intrf_connectivity_surface_code.py'
SRC_REP = 'src/qce_circuit/library/repetition_code/repetition_code_connectivity.py'
SOURCES = [SRC_S17, SRC_INTRF, SRC_REP]

REP_CLASSES = ['Repetition9Code', 'Repetition9Round6Code', 'Repetition5Round4Code']
S17_TABLES = ['_feedline_qubit_lookup', '_qubit_edges', '_parity_group_x', '_parity_group_z', '_frequency_group_lookup']
NAME_RE = re.compile(r'^[A-Za-z][A-Za-z0-9_]*$')


# ------------------------------------------------------------------------------------------------ literal shapes
def _call_name(n):
    if isinstance(n, ast.Call) and isinstance(n.func, ast.Name):
        return n.func.id
    return None


def _str_arg(n, cls, kw):
    """`Cls('name')` or `Cls(kw='name')` -> 'name'."""
    if _call_name(n) != cls:
        fail(n, f"expected {cls}(...)")
    if len(n.args) == 1 and not n.keywords:
        a = n.args[0]
    elif not n.args and len(n.keywords) == 1 and n.keywords[0].arg == kw:
        a = n.keywords[0].value
    else:
        fail(n, f"{cls} argument shape")
    if not (isinstance(a, ast.Constant) and isinstance(a.value, str) and NAME_RE.match(a.value)):
        fail(n, f"{cls} name is not a plain identifier string")
    return a.value


def qubit(n):
    return _str_arg(n, 'QubitIDObj', '_id')


def feedline(n):
    return _str_arg(n, 'FeedlineIDObj', 'name')


def edge(n):
    if _call_name(n) != 'EdgeIDObj':
        fail(n, "expected EdgeIDObj(...)")
    if len(n.args) == 2 and not n.keywords:
        a, b = n.args
    elif not n.args and [k.arg for k in n.keywords] == ['qubit_id0', 'qubit_id1']:
        a, b = n.keywords[0].value, n.keywords[1].value
    else:
        fail(n, "EdgeIDObj argument shape")
    return qubit(a), qubit(b)


def lst(n, elem):
    if not isinstance(n, ast.List):
        fail(n, "expected a list literal")
    return [elem(e) for e in n.elts]


def keywords(n, names):
    """Call with exactly the given keyword names (any order) and no positional arguments -> dict."""
    if n.args:
        fail(n, "positional arguments not expected")
    got = [k.arg for k in n.keywords]
    if sorted(got) != sorted(names):
        fail(n, f"keywords {got}, expected {names}")
    return {k.arg: k.value for k in n.keywords}


def enum_attr(n, enum, members):
    if not (isinstance(n, ast.Attribute) and isinstance(n.value, ast.Name) and n.value.id == enum and n.attr in members):
        fail(n, f"expected {enum}.<member>")
    return n.attr


def parity_group(env):
    def f(n):
        if _call_name(n) != 'ParityGroup':
            fail(n, "expected ParityGroup(...)")
        kw = keywords(n, ['_parity_type', '_ancilla_qubit', '_data_qubits'])
        return (enum_attr(kw['_parity_type'], 'StabilizerType', env.enums['StabilizerType']),
                qubit(kw['_ancilla_qubit']), lst(kw['_data_qubits'], qubit))
    return f


def operation(kind, elem):
    """`Operation.type_<kind>(x)`"""
    def f(n):
        if not (isinstance(n, ast.Call) and isinstance(n.func, ast.Attribute) and isinstance(n.func.value, ast.Name)
                and n.func.value.id == 'Operation' and n.func.attr == f'type_{kind}' and len(n.args) == 1 and not n.keywords):
            fail(n, f"expected Operation.type_{kind}(...)")
        return elem(n.args[0])
    return f


def gate_layer(n):
    if _call_name(n) != 'GateSequenceLayer':
        fail(n, "expected GateSequenceLayer(...)")
    kw = keywords(n, ['_park_operations', '_gate_operations'])
    return lst(kw['_park_operations'], operation('park', qubit)), lst(kw['_gate_operations'], operation('gate', edge))


def class_table(cls, name):
    """Annotated class attribute `name: T = <literal>` -> value node (exactly one definition)."""
    found = [s for s in cls.body if isinstance(s, ast.AnnAssign) and isinstance(s.target, ast.Name) and s.target.id == name]
    found += [s for s in cls.body if isinstance(s, ast.Assign) and any(isinstance(t, ast.Name) and t.id == name for t in s.targets)]
    if len(found) != 1 or found[0].value is None:
        raise TranslateError(f"{cls.name}.{name}: expected exactly one literal definition, found {len(found)}")
    return found[0].value


def dict_items(n, key, val):
    if not isinstance(n, ast.Dict) or any(k is None for k in n.keys):
        fail(n, "expected a dict literal")
    return [(key(k), val(v)) for k, v in zip(n.keys, n.values)]


# ------------------------------------------------------------------------------------------------ Coq printers
def cs(s):
    return '"' + s + '"'


def cl(items, sep="; "):
    return "[" + sep.join(items) + "]"


def ce(e):
    return f"({cs(e[0])}, {cs(e[1])})"


def cpg(g):
    return f"MkParityGroup StabilizerType_{g[0]} {cs(g[1])} {cl([cs(d) for d in g[2]])}"


def clayer(l):
    return f"MkGateLayer {cl([cs(p) for p in l[0]])} {cl([ce(e) for e in l[1]])}"


def block(items, indent="  "):
    if not items:
        return "[]"
    return "[\n" + ";\n".join(indent + i for i in items) + "\n]"


# ------------------------------------------------------------------------------------------------ the generator
def rep_layout(cls, env):
    """A repetition layout class: only `__init__(self)` whose only statement is
    `super().__init__(gate_sequences=[...], parity_group_z=[...], parity_group_x=[...])`."""
    body = [s for s in cls.body if not (isinstance(s, ast.Expr) and isinstance(s.value, ast.Constant))]
    if len(body) != 1 or not isinstance(body[0], ast.FunctionDef) or body[0].name != '__init__':
        raise TranslateError(f"{cls.name}: expected a class with only __init__")
    bases = [ast.unparse(b) for b in cls.bases]
    if bases[:1] != ['GenericSurfaceCode']:
        raise TranslateError(f"{cls.name}: unexpected bases {bases}")
    init = body[0]
    if [a.arg for a in init.args.args] != ['self'] or init.args.vararg or init.args.kwarg or init.decorator_list:
        fail(init, "__init__ signature")
    # a table hoisted into a local that is only handed to the call (`gate_sequences = [...]` ... `gate_sequences=gate_sequences`) is
    # substituted back (pycoq N1 + N4: single use in the next statement, only `super().__init__` is evaluated before it)
    init = norm_function(init, guards=False, accumulate=False, helpers=False)
    stmts = [s for s in init.body if not (isinstance(s, ast.Expr) and isinstance(s.value, ast.Constant))]
    if len(stmts) != 1 or not isinstance(stmts[0], ast.Expr) or not isinstance(stmts[0].value, ast.Call):
        fail(init, "__init__ body is not a single call")
    call = stmts[0].value
    f = call.func
    if not (isinstance(f, ast.Attribute) and f.attr == '__init__' and isinstance(f.value, ast.Call)
            and isinstance(f.value.func, ast.Name) and f.value.func.id == 'super' and not f.value.args and not f.value.keywords):
        fail(call, "expected super().__init__(...)")
    kw = keywords(call, ['gate_sequences', 'parity_group_z', 'parity_group_x'])
    layers = lst(kw['gate_sequences'], gate_layer)
    pz = lst(kw['parity_group_z'], parity_group(env))
    px = lst(kw['parity_group_x'], parity_group(env))
    if not layers:
        raise TranslateError(f"{cls.name}: no gate layers")
    return layers, pz, px


def _parse_tables(t_s17, t_rep, env):
    """All literal tables as plain Python data (also used by the C16/C17 harness generators)."""
    s17 = find_class(t_s17, 'Surface17Layer')
    tables = [s.target.id for s in s17.body if isinstance(s, ast.AnnAssign) and isinstance(s.target, ast.Name)]
    tables += [t.id for s in s17.body if isinstance(s, ast.Assign) for t in s.targets if isinstance(t, ast.Name)]
    if sorted(tables) != sorted(S17_TABLES):
        raise TranslateError(f"Surface17Layer: class-level tables changed: {tables}")
    feed = dict_items(class_table(s17, '_feedline_qubit_lookup'), feedline, lambda v: lst(v, qubit))
    edges = lst(class_table(s17, '_qubit_edges'), edge)
    pgx = lst(class_table(s17, '_parity_group_x'), parity_group(env))
    pgz = lst(class_table(s17, '_parity_group_z'), parity_group(env))

    def fval(n):
        if _call_name(n) != 'FrequencyGroupIdentifier':
            fail(n, "expected FrequencyGroupIdentifier(...)")
        if len(n.args) == 1 and not n.keywords:
            a = n.args[0]
        else:
            a = keywords(n, ['_id'])['_id']
        return enum_attr(a, 'FrequencyGroup', env.enums['FrequencyGroup'])
    freq = dict_items(class_table(s17, '_frequency_group_lookup'), qubit, fval)
    if not feed or not edges or not freq:
        raise TranslateError("Surface17Layer: empty table")
    # a dict literal with a repeated key silently keeps the last value in Python: refuse
    for what, keys in (('feedline', [k for k, _ in feed]), ('frequency', [k for k, _ in freq])):
        if len(set(keys)) != len(keys):
            raise TranslateError(f"Surface17Layer: repeated key in the {what} table")
    top = [n.name for n in t_rep.body if isinstance(n, ast.ClassDef)]
    if top != REP_CLASSES:
        raise TranslateError(f"repetition_code_connectivity.py: layout classes changed: {top}")
    layouts = {name: rep_layout(find_class(t_rep, name), env) for name in REP_CLASSES}
    return {'feedlines': feed, 'edges': edges, 'parity_x': pgx, 'parity_z': pgz, 'frequency': freq, 'layouts': layouts}


def parse_tables(repo):
    """Tables as Python data: {'feedlines': [(name, [q])], 'edges': [(a, b)], 'parity_x'/'parity_z': [(type, ancilla, [data])],
    'frequency': [(q, group)], 'layouts': {class name: (layers [(parks, gates)], parity_z, parity_x)}}."""
    try:
        env = Env()
        t_in = parse_file(f"{repo}/{SRC_INTRF}")
        for en in ('StabilizerType', 'FrequencyGroup'):
            env.enums[en] = enum_members(find_class(t_in, en))
        return _parse_tables(parse_file(f"{repo}/{SRC_S17}"), parse_file(f"{repo}/{SRC_REP}"), env)
    except (TranslateError, SyntaxError, FileNotFoundError):
        raise
    except Exception as e:
        raise TranslateError(f"gen_layouts: {type(e).__name__}: {e}")


def _generate(repo):
    env = Env()
    out = ["(* GENERATED by tools/translate/gen_layouts.py from the current /repo sources -- do not edit *)",
           "From Coq Require Import ZArith List Bool String.", "Import ListNotations.", "Open Scope string_scope.", ""]
    t_s17 = parse_file(f"{repo}/{SRC_S17}")
    t_in = parse_file(f"{repo}/{SRC_INTRF}")
    t_rep = parse_file(f"{repo}/{SRC_REP}")

    # ---- enums and the frequency-group ordering
    for en in ('StabilizerType', 'FrequencyGroup'):
        m = enum_members(find_class(t_in, en))
        if len(set(m)) != len(m) or not m:
            raise TranslateError(f"{en}: members {m}")
        env.enums[en] = m
        out.append(coq_enum(en, m))
    c = find_class(t_in, 'FrequencyGroupIdentifier')
    got = [(n, a) for n, a, _ in dataclass_fields(c)]
    if got != [('_id', 'FrequencyGroup')]:
        raise TranslateError(f"FrequencyGroupIdentifier fields changed: {got}")
    env.records['FrequencyGroupIdentifier'] = {'_id': ('enum', 'FrequencyGroup')}
    out.append(coq_record('FrequencyGroupIdentifier', env.records['FrequencyGroupIdentifier']))
    fgi = ('rec', 'FrequencyGroupIdentifier')
    idf = find_func(c, 'id')
    if 'property' not in decorators(idf):
        fail(idf, "FrequencyGroupIdentifier.id is not a property")
    out.append(translate_method(env, 'FrequencyGroupIdentifier', idf, [], ('enum', 'FrequencyGroup')))
    for name in ('is_equal_to', 'is_higher_than', 'is_lower_than'):
        fn = find_func(c, name)
        if fn.decorator_list:
            fail(fn, "unexpected decorator")
        out.append(translate_method(env, 'FrequencyGroupIdentifier', fn, [fgi], 'bool'))

    # ---- record types of the tables
    out.append("Record ParityGroup := MkParityGroup { pg_type : StabilizerType; pg_ancilla : string; pg_data : list string }.")
    out.append("Record GateLayer := MkGateLayer { layer_parks : list string; layer_gates : list (string * string) }.")
    out.append("Record Layout := MkLayout { layout_name : string; layout_layers : list GateLayer;\n"
               "                            layout_parity_z : list ParityGroup; layout_parity_x : list ParityGroup }.\n")

    tb = _parse_tables(t_s17, t_rep, env)
    feed, edges, pgx, pgz, freq = tb['feedlines'], tb['edges'], tb['parity_x'], tb['parity_z'], tb['frequency']

    out.append("Definition S17_feedlines : list (string * list string) := " +
               block([f"({cs(k)}, {cl([cs(q) for q in v])})" for k, v in feed]) + ".")
    out.append("Definition S17_edges : list (string * string) := " + block([ce(e) for e in edges]) + ".")
    out.append("Definition S17_parity_x : list ParityGroup := " + block([cpg(g) for g in pgx]) + ".")
    out.append("Definition S17_parity_z : list ParityGroup := " + block([cpg(g) for g in pgz]) + ".")
    out.append("Definition S17_frequency : list (string * FrequencyGroupIdentifier) := " +
               block([f"({cs(k)}, MkFrequencyGroupIdentifier FrequencyGroup_{v})" for k, v in freq]) + ".")
    out.append("")

    # ---- repetition layouts
    for name in REP_CLASSES:
        layers, pz, px = tb['layouts'][name]
        out.append(f"Definition {name} : Layout := MkLayout {cs(name)}\n  " +
                   block([clayer(l) for l in layers], "    ") + "\n  " +
                   block([cpg(g) for g in pz], "    ") + "\n  " + block([cpg(g) for g in px], "    ") + ".")
    out.append("")
    out.append("Definition shipped_layouts : list Layout := " + cl(REP_CLASSES) + ".")
    out.append("")
    return "\n".join(out)


def generate(repo):
    try:
        return _generate(repo)
    except (TranslateError, SyntaxError, FileNotFoundError):
        raise
    except Exception as e:   # fail closed, never crash the shared translator run
        raise TranslateError(f"gen_layouts: {type(e).__name__}: {e}")
