"""Gen/Flags.v : "flags of the source" -- small facts about the current /repo tree that models and proofs must not assume
but read (C03, C18): memoisation decorators, what the cache invalidation clears, which schedule-mutation points call it, what
plot_circuit swaps and clears, the duration tables, and the literal constants of the drawing geometry.

Pure `ast`, no import of qce_circuit, fail-closed: every fact is read from one recognised shape; anything else raises
TranslateError (reported by the check as a broken tie).  Durations are emitted in ticks of 1/8 time unit.

Emitted (all `Definition`s, no proofs):
  (a) MAX_GRAPH_DEPTH : Z
  (b) relation_link_memoised, multi_relation_link_memoised : bool          (@lru_cache on get_start_time)
  (c) invalidate_clears_relation_link, invalidate_clears_multi_relation_link : bool    (body of invalidate_start_time_cache)
  (d) mutation_points : list (string * bool)       (schedule-mutation point, "calls invalidate_start_time_cache")
      + MP_* name constants, mutation_point_invalidates, all_mutation_points_invalidate
  (e) plot_compact_overrides_durations, plot_compact_override_registry, plot_noncompact_overrides_durations,
      plot_compact_clears_relation_link, plot_compact_clears_multi_relation_link,
      clear_lru_cache_clears_on_enter, clear_lru_cache_clears_on_exit : what plot_circuit does
  (f) registry_keys, VISUALIZATION_DURATION_REGISTRY, global_default_durations : list (string * Z); table_get
  (g) multi_reference_strict : bool   (`>` in MultiRelationLink.reference_node)
  (h) drawing: pivot_x_attr, draw_width_floor, draw_width_margin, draw_channel_height, draw_spacing_num/den,
      draw_offset_scalar_num/den, draw_offset_duration_power, draw_individual_classes, draw_two_qubit_classes, draw_bulk_group_class,
      draw_individual_has_default, draw_bulk_skips_unknown
"""
import ast
from fractions import Fraction
from pycoq import parse_file, find_class, find_func, decorators, enum_members, TranslateError, fail, norm_function

SRC_GRAPH = 'src/qce_circuit/structure/graph_traversal/intrf_graph_structure.py'
SRC_OP = 'src/qce_circuit/structure/intrf_circuit_operation.py'
SRC_COMP = 'src/qce_circuit/structure/intrf_circuit_operation_composite.py'
SRC_DUR = 'src/qce_circuit/structure/registry_duration.py'
SRC_CTX = 'src/qce_circuit/utilities/custom_context_managers.py'
SRC_DISP = 'src/qce_circuit/visualization/visualize_circuit/display_circuit.py'
SRC_TC = 'src/qce_circuit/visualization/visualize_circuit/draw_components/transform_constructor.py'
SRC_MULTI = 'src/qce_circuit/visualization/visualize_circuit/draw_components/factory_multi_draw_components.py'
SRC_IFAC = 'src/qce_circuit/visualization/visualize_circuit/intrf_factory_draw_components.py'
SRC_DECL = 'src/qce_circuit/language/intrf_declarative_circuit.py'
SOURCES = [SRC_GRAPH, SRC_OP, SRC_COMP, SRC_DUR, SRC_CTX, SRC_DISP, SRC_TC, SRC_MULTI, SRC_IFAC, SRC_DECL]

INVALIDATE = 'invalidate_start_time_cache'
LINKS = ('RelationLink', 'MultiRelationLink')


# ------------------------------------------------------------------------------------------------ small ast helpers
def cbool(b):
    return 'true' if b else 'false'


def cstr(s):
    if '"' in s:
        raise TranslateError(f"string literal with a quote: {s}")
    return f'"{s}"'


def cz(n):
    return f"{n}" if n >= 0 else f"({n})"


def ticks(v, what):
    """float/int literal -> ticks of 1/8, exact"""
    if isinstance(v, bool) or not isinstance(v, (int, float)):
        raise TranslateError(f"{what}: not a number: {v!r}")
    t = Fraction(v) * 8
    if t.denominator != 1:
        raise TranslateError(f"{what}: {v} is not a multiple of 1/8")
    return int(t)


def strip_doc(body):
    if body and isinstance(body[0], ast.Expr) and isinstance(body[0].value, ast.Constant) and isinstance(body[0].value.value, str):
        return body[1:]
    return body


def is_call_to(stmt, name):
    """`name()` as an expression statement"""
    return (isinstance(stmt, ast.Expr) and isinstance(stmt.value, ast.Call) and isinstance(stmt.value.func, ast.Name)
            and stmt.value.func.id == name and not stmt.value.args and not stmt.value.keywords)


def contains(node_or_list, pred):
    nodes = node_or_list if isinstance(node_or_list, list) else [node_or_list]
    return any(pred(x) for n in nodes for x in ast.walk(n))


def leaves_early(stmt):
    return contains(stmt, lambda x: isinstance(x, (ast.Return, ast.Raise, ast.Yield, ast.YieldFrom)))


def calls_unconditionally(body, after=None, before=None):
    """True iff `invalidate_start_time_cache()` is a statement of this block itself (not nested in a conditional), placed
    after the first statement satisfying `after` (if given) and before the first satisfying `before` (if given), and no
    statement between the block's start and the call can leave the block."""
    armed = after is None
    for s in body:
        if before is not None and before(s):
            return False
        if not armed:
            if after(s):
                armed = True
            elif leaves_early(s):
                return False
            continue
        if is_call_to(s, INVALIDATE):
            return True
        if leaves_early(s):
            return False
    return False


def attr_chain(n):
    """a.b.c -> ['a','b','c'] or None"""
    out = []
    while isinstance(n, ast.Attribute):
        out.append(n.attr)
        n = n.value
    if isinstance(n, ast.Name):
        out.append(n.id)
        return out[::-1]
    return None


def num_const(n, what):
    if isinstance(n, ast.Constant) and isinstance(n.value, (int, float)) and not isinstance(n.value, bool):
        return n.value
    if isinstance(n, ast.UnaryOp) and isinstance(n.op, ast.USub):
        return -num_const(n.operand, what)
    fail(n, f"{what}: numeric literal expected")


def module_assign(tree, name):
    for s in tree.body:
        if isinstance(s, ast.Assign) and len(s.targets) == 1 and isinstance(s.targets[0], ast.Name) and s.targets[0].id == name:
            return s.value
        if isinstance(s, ast.AnnAssign) and isinstance(s.target, ast.Name) and s.target.id == name and s.value is not None:
            return s.value
    raise TranslateError(f"module-level assignment of {name} not found")


def kwmap(call):
    if any(k.arg is None for k in call.keywords):
        fail(call, "**kwargs in a call that is read literally")
    return {k.arg: k.value for k in call.keywords}


# ------------------------------------------------------------------------------------------------ (a) - (c), (g)
def max_graph_depth(tree):
    v = module_assign(tree, 'MAX_GRAPH_DEPTH')
    if not (isinstance(v, ast.Constant) and isinstance(v.value, int) and not isinstance(v.value, bool) and v.value > 0):
        fail(v, "MAX_GRAPH_DEPTH is not a positive integer literal")
    return v.value


def memoised(tree, cls):
    fn = find_func(find_class(tree, cls), 'get_start_time')
    ds = decorators(fn)
    if any(d not in ('lru_cache', 'cache') for d in ds):
        fail(fn, f"{cls}.get_start_time: unrecognised decorator {ds}")
    return bool(ds)


def invalidate_body(tree):
    """invalidate_start_time_cache: a sequence of `<Link>.get_start_time.cache_clear()` statements, nothing else"""
    fn = find_func(tree, INVALIDATE)
    if fn.args.args or fn.args.kwonlyargs or fn.args.vararg or fn.args.kwarg:
        fail(fn, f"{INVALIDATE} takes arguments")
    cleared = set()
    for s in strip_doc(fn.body):
        ch = attr_chain(s.value.func) if isinstance(s, ast.Expr) and isinstance(s.value, ast.Call) and not s.value.args and not s.value.keywords else None
        if ch and len(ch) == 3 and ch[0] in LINKS and ch[1:] == ['get_start_time', 'cache_clear']:
            cleared.add(ch[0])
            continue
        if isinstance(s, ast.Pass):
            continue
        fail(s, f"{INVALIDATE}: unrecognised statement")
    return cleared


def multi_reference_strict(tree):
    fn = find_func(find_class(tree, 'MultiRelationLink'), 'reference_node')
    loops = [s for s in fn.body if isinstance(s, ast.For)]
    if len(loops) != 1:
        fail(fn, "MultiRelationLink.reference_node: one for-loop expected")
    ifs = [s for s in loops[0].body if isinstance(s, ast.If)]
    if len(ifs) != 1 or len(loops[0].body) != 1 or ifs[0].orelse:
        fail(loops[0], "MultiRelationLink.reference_node: loop body shape")
    t = ifs[0].test
    if not (isinstance(t, ast.Compare) and len(t.ops) == 1 and attr_chain(t.left) == ['node', 'end_time']
            and attr_chain(t.comparators[0]) == ['latest_node', 'end_time'] and isinstance(t.ops[0], (ast.Gt, ast.GtE))):
        fail(t, "MultiRelationLink.reference_node: comparison shape")
    return isinstance(t.ops[0], ast.Gt)


# ------------------------------------------------------------------------------------------------ (d) mutation points
def mp_add_to_graph(tree):
    fn = find_func(find_class(tree, 'CircuitGraphBranch'), 'add_to_graph')
    return calls_unconditionally(strip_doc(fn.body))


def mp_handoff(tree):
    """decomposed_operations: inside the loop, the `if` that assigns node.operation.relation_link (the link hand-off)"""
    fn = find_func(find_class(tree, 'CircuitCompositeOperation'), 'decomposed_operations')
    loops = [s for s in strip_doc(fn.body) if isinstance(s, ast.For)]
    if len(loops) != 1:
        fail(fn, "decomposed_operations: one for-loop expected")

    def assigns_link(s):
        return isinstance(s, ast.Assign) and any(isinstance(t, ast.Attribute) and t.attr == 'relation_link' for t in s.targets)

    sites = [s for s in loops[0].body if isinstance(s, ast.If) and any(assigns_link(x) for x in s.body)]
    stray = [s for s in ast.walk(fn) if assigns_link(s) and not any(s in site.body for site in sites)]
    if len(sites) != 1 or stray:
        fail(loops[0], "decomposed_operations: exactly one `if` replacing a relation link expected")
    return calls_unconditionally(sites[0].body, after=assigns_link)


def link_assignment_fresh(tree, method):
    """In CircuitCompositeOperation.<method> (decomposed_operations: the hand-off while listing; extend: the first operations of an
    unrolled copy) relation-free operations are given a relation link inside a for-loop.  Sub-circuits compare and hash by value
    (relation link incl. its instance identifier, repetition strategy), so whether every operation receives its OWN link instance
    decides whether two sibling sub-circuits can become equal (findings F12, F21).
    True  <- `x.relation_link = replace(<expr>)` inside the loop (dataclasses.replace re-runs the identifier factory);
    False <- `x.relation_link = <name or attribute>` (one object shared by all of them);  anything else: fail closed."""
    fn = find_func(find_class(tree, 'CircuitCompositeOperation'), method)
    loops = [s for s in strip_doc(fn.body) if isinstance(s, ast.For)]
    if len(loops) != 1:
        fail(fn, f"{method}: one for-loop expected")
    assigns = [s for s in ast.walk(fn) if isinstance(s, ast.Assign)
               and any(isinstance(t, ast.Attribute) and t.attr == 'relation_link' for t in s.targets)]
    in_loop = [s for s in ast.walk(loops[0]) if s in assigns]
    if len(assigns) != 1 or len(in_loop) != 1:
        fail(fn, f"{method}: exactly one assignment of a relation link, inside the loop, expected")
    v = assigns[0].value
    if isinstance(v, ast.Call) and isinstance(v.func, ast.Name) and v.func.id == 'replace' and len(v.args) == 1 and not v.keywords:
        return True
    if isinstance(v, (ast.Name, ast.Attribute)):
        return False
    fail(assigns[0], f"{method}: unrecognised relation-link value `{ast.unparse(v)}`")


def add_dispatch(tree):
    """IDeclarativeCircuit.add: a sequence of `if isinstance(operation, <Class>): return self.<method>(<kw>=operation)` statements
    followed by a raise.  Returns the (class, method) pairs in source order; anything else: fail closed."""
    fn = norm_function(find_func(find_class(tree, 'IDeclarativeCircuit'), 'add'))
    body = strip_doc(fn.body)
    arg = fn.args.args[1].arg
    rows = []
    for s in body[:-1]:
        ok = (isinstance(s, ast.If) and not s.orelse and len(s.body) == 1 and isinstance(s.body[0], ast.Return)
              and isinstance(s.test, ast.Call) and isinstance(s.test.func, ast.Name) and s.test.func.id == 'isinstance'
              and len(s.test.args) == 2 and isinstance(s.test.args[0], ast.Name) and s.test.args[0].id == arg
              and isinstance(s.test.args[1], ast.Name))
        if not ok:
            fail(s, 'add: `if isinstance(operation, C): return self.m(k=operation)` expected')
        call = s.body[0].value
        if not (isinstance(call, ast.Call) and attr_chain(call.func) and attr_chain(call.func)[0] == 'self' and len(attr_chain(call.func)) == 2
                and not call.args and len(call.keywords) == 1 and isinstance(call.keywords[0].value, ast.Name) and call.keywords[0].value.id == arg):
            fail(s, 'add: `return self.m(k=operation)` expected')
        rows.append((s.test.args[1].id, attr_chain(call.func)[1]))
    if not isinstance(body[-1], ast.Raise):
        fail(body[-1], 'add: final raise expected')
    return rows


def declarative_unwraps(tree):
    """IDeclarativeCircuit.add_declarative_circuit hands circuit.circuit_structure to add_sub_circuit"""
    fn = find_func(find_class(tree, 'IDeclarativeCircuit'), 'add_declarative_circuit')
    body = strip_doc(fn.body)
    if len(body) != 1 or not isinstance(body[0], ast.Return):
        fail(fn, 'add_declarative_circuit: single return expected')
    return ast.unparse(body[0].value).replace(' ', '') == f"self.add_sub_circuit(operation={fn.args.args[1].arg}.circuit_structure)"


def class_bases(tree, name):
    return [b.id for b in find_class(tree, name).bases if isinstance(b, ast.Name)]


def mp_set_registry(tree):
    fn = find_func(find_class(tree, 'DurationRegistry'), 'set_registry_at')

    def stores(s):
        return (isinstance(s, ast.Assign) and len(s.targets) == 1 and isinstance(s.targets[0], ast.Subscript)
                and attr_chain(s.targets[0].value) == ['self', '_variable_durations'])

    body = strip_doc(fn.body)
    if sum(1 for s in body if stores(s)) != 1:
        fail(fn, "DurationRegistry.set_registry_at: one store into self._variable_durations expected")
    return calls_unconditionally(body, after=stores)


def mp_override(tree):
    """temporary_override_get_registry_at: try: <swap>; [invalidate]; yield  finally: <restore>; [invalidate]"""
    fn = find_func(tree, 'temporary_override_get_registry_at')
    if 'contextmanager' not in decorators(fn):
        fail(fn, "temporary_override_get_registry_at is not a contextmanager")
    tries = [s for s in fn.body if isinstance(s, ast.Try)]
    if len(tries) != 1 or tries[0].handlers or tries[0].orelse:
        fail(fn, "temporary_override_get_registry_at: one try/finally expected")
    tr = tries[0]

    def swaps(s):
        return (isinstance(s, ast.Assign) and len(s.targets) == 1
                and attr_chain(s.targets[0]) == ['GlobalDurationRegistry', 'get_registry_at'])

    def yields(s):
        return isinstance(s, ast.Expr) and isinstance(s.value, ast.Yield)

    if sum(1 for s in tr.body if swaps(s)) != 1 or sum(1 for s in tr.body if yields(s)) != 1:
        fail(tr, "temporary_override_get_registry_at: try body must swap the method once and yield once")
    if sum(1 for s in tr.finalbody if swaps(s)) != 1:
        fail(tr, "temporary_override_get_registry_at: finally must restore the method once")
    if contains(fn, lambda x: isinstance(x, ast.Yield)) and sum(1 for x in ast.walk(fn) if isinstance(x, ast.Yield)) != 1:
        fail(fn, "temporary_override_get_registry_at: more than one yield")
    enter = calls_unconditionally(tr.body, after=swaps, before=yields)
    leave = calls_unconditionally(tr.finalbody, after=swaps)
    return enter, leave


# ------------------------------------------------------------------------------------------------ (e) plot_circuit
def clear_lru_cache_shape(tree):
    """clear_lru_cache(method): [method.cache_clear()] try: yield finally: [method.cache_clear()]"""
    fn = find_func(tree, 'clear_lru_cache')
    if [a.arg for a in fn.args.args] != ['method'] or 'contextmanager' not in decorators(fn):
        fail(fn, "clear_lru_cache: signature")

    def clears(s):
        return (isinstance(s, ast.Expr) and isinstance(s.value, ast.Call) and attr_chain(s.value.func) == ['method', 'cache_clear']
                and not s.value.args and not s.value.keywords)

    body = strip_doc(fn.body)
    tries = [s for s in body if isinstance(s, ast.Try)]
    if len(tries) != 1 or tries[0].handlers or tries[0].orelse:
        fail(fn, "clear_lru_cache: one try/finally expected")
    tr = tries[0]
    if not (len(tr.body) == 1 and isinstance(tr.body[0], ast.Expr) and isinstance(tr.body[0].value, ast.Yield)):
        fail(tr, "clear_lru_cache: try body must be a single yield")
    pre = body[:body.index(tr)]
    post = body[body.index(tr) + 1:]
    if post or any(not clears(s) for s in pre) or any(not clears(s) for s in tr.finalbody):
        fail(fn, "clear_lru_cache: unrecognised statement")
    return bool(pre), bool(tr.finalbody)


def draws(stmts):
    """the block computes `fig, ax = plot_circuit_description(description=construct_visual_description(circuit=circuit,
    custom_channel_order=channel_order, custom_channel_map=channel_map), **kwargs)`"""
    for s in stmts:
        if isinstance(s, ast.Assign) and isinstance(s.value, ast.Call) and isinstance(s.value.func, ast.Name) \
                and s.value.func.id == 'plot_circuit_description':
            kw = {k.arg: k.value for k in s.value.keywords}
            d = kw.get('description')
            if not (isinstance(d, ast.Call) and isinstance(d.func, ast.Name) and d.func.id == 'construct_visual_description'):
                fail(s, "plot_circuit: description is not construct_visual_description(...)")
            dk = kwmap(d)
            want = {'circuit': 'circuit', 'custom_channel_order': 'channel_order', 'custom_channel_map': 'channel_map'}
            got = {k: (v.id if isinstance(v, ast.Name) else None) for k, v in dk.items()}
            if got != want or d.args:
                fail(d, "plot_circuit: arguments handed to construct_visual_description")
            return True
    return False


def plot_circuit_shape(tree):
    fn = find_func(tree, 'plot_circuit')
    names = [a.arg for a in fn.args.args]
    if names != ['circuit', 'channel_order', 'channel_map', 'compact_visualization']:
        fail(fn, f"plot_circuit: parameters {names}")
    defaults = fn.args.defaults
    if not (len(defaults) == 3 and isinstance(defaults[2], ast.Constant) and defaults[2].value is True):
        fail(fn, "plot_circuit: compact_visualization default")
    body = strip_doc(fn.body)
    if not (body and isinstance(body[0], ast.If) and isinstance(body[0].test, ast.Name) and body[0].test.id == 'compact_visualization'
            and not body[0].orelse):
        fail(fn, "plot_circuit: first statement must be `if compact_visualization:`")
    compact, rest = body[0].body, body[1:]
    if contains(rest, lambda x: isinstance(x, (ast.With, ast.Try))) or not draws(rest):
        fail(fn, "plot_circuit: non-compact branch shape")
    # compact branch: nested `with` statements around the drawing
    res = {'override': False, 'registry': '', 'clears': set()}
    block = compact
    while True:
        withs = [s for s in block if isinstance(s, ast.With)]
        if not withs:
            break
        if len(withs) != 1:
            fail(fn, "plot_circuit: more than one `with` in a block")
        w = withs[0]
        for item in w.items:
            c = item.context_expr
            if not (isinstance(c, ast.Call) and isinstance(c.func, ast.Name) and len(c.args) == 1 and not c.keywords):
                fail(w, "plot_circuit: context expression")
            if c.func.id == 'temporary_override_get_registry_at':
                if not isinstance(c.args[0], ast.Name) or res['override']:
                    fail(w, "plot_circuit: override argument")
                res['override'], res['registry'] = True, c.args[0].id
            elif c.func.id == 'clear_lru_cache':
                ch = attr_chain(c.args[0])
                if not (ch and len(ch) == 2 and ch[0] in LINKS and ch[1] == 'get_start_time'):
                    fail(w, "plot_circuit: clear_lru_cache argument")
                if not res['override']:
                    fail(w, "plot_circuit: clear_lru_cache outside the duration override")
                res['clears'].add(ch[0])
            else:
                fail(w, "plot_circuit: unknown context manager")
        block = w.body
    if not draws(block):
        fail(fn, "plot_circuit: compact branch does not draw inside its innermost block")
    return res


# ------------------------------------------------------------------------------------------------ (f) duration tables
def key_of(n, keys, value_suffix=False):
    ch = attr_chain(n)
    if ch and ch[0] == 'GlobalRegistryKey' and ch[1] in keys and (ch[2:] == (['value'] if value_suffix else [])):
        return ch[1]
    fail(n, "GlobalRegistryKey member expected")


def duration_dict(d, keys, what, value_suffix=False):
    if not isinstance(d, ast.Dict):
        fail(d, f"{what}: dict literal expected")
    out = []
    for k, v in zip(d.keys, d.values):
        out.append((key_of(k, keys, value_suffix), ticks(num_const(v, what), what)))
    if sorted(k for k, _ in out) != sorted(keys):
        raise TranslateError(f"{what}: keys {[k for k, _ in out]} differ from GlobalRegistryKey {keys}")
    return out


def global_defaults(tree, keys):
    cls = find_class(tree, 'GlobalDurationRegistry')
    for s in cls.body:
        if isinstance(s, ast.AnnAssign) and isinstance(s.target, ast.Name) and s.target.id == '_global_registry':
            v = s.value
            if isinstance(v, ast.Call) and isinstance(v.func, ast.Name) and v.func.id == 'field':
                f = kwmap(v).get('default_factory')
                if isinstance(f, ast.Lambda) and not f.args.args:
                    return duration_dict(f.body, keys, 'GlobalDurationRegistry._global_registry', value_suffix=True)
            fail(s, "GlobalDurationRegistry._global_registry: field(default_factory=lambda: {...}) expected")
    raise TranslateError("GlobalDurationRegistry._global_registry not found")


# ------------------------------------------------------------------------------------------------ (h) drawing geometry
def pivot_shape(tree):
    """TransformConstructor.identifier_to_pivot: Vec2D(x=time_component.<attr>, y=-1 * self.channel_indices.index(identifier.id) * self.channel_spacing)"""
    fn = find_func(find_class(tree, 'TransformConstructor'), 'identifier_to_pivot')
    body = strip_doc(fn.body)
    if not (len(body) == 1 and isinstance(body[0], ast.Return) and isinstance(body[0].value, ast.Call)
            and isinstance(body[0].value.func, ast.Name) and body[0].value.func.id == 'Vec2D'):
        fail(fn, "identifier_to_pivot: single `return Vec2D(...)` expected")
    kw = kwmap(body[0].value)
    if set(kw) != {'x', 'y'} or body[0].value.args:
        fail(fn, "identifier_to_pivot: Vec2D(x=..., y=...) expected")
    xc = attr_chain(kw['x'])
    if not (xc and len(xc) == 2 and xc[0] == 'time_component' and xc[1] in ('start_time', 'end_time')):
        fail(kw['x'], "identifier_to_pivot: x must be an attribute of time_component")
    want_y = "-1 * self.channel_indices.index(identifier.id) * self.channel_spacing"
    if ast.unparse(kw['y']) != want_y:
        fail(kw['y'], f"identifier_to_pivot: y is not `{want_y}`")
    w = find_func(find_class(tree, 'TransformConstructor'), 'identifier_to_width')
    wb = strip_doc(w.body)
    if not (len(wb) == 1 and isinstance(wb[0], ast.Return) and attr_chain(wb[0].value) == ['time_component', 'duration']):
        fail(w, "identifier_to_width: `return time_component.duration` expected")
    h = find_func(find_class(tree, 'TransformConstructor'), 'identifier_to_height')
    hb = strip_doc(h.body)
    if not (len(hb) == 1 and isinstance(hb[0], ast.Return) and attr_chain(hb[0].value) == ['self', 'channel_height']):
        fail(h, "identifier_to_height: `return self.channel_height` expected")
    # OffsetTransformConstructor: x = default_pivot.x + self.pivot_offset_scalar_x * time_component.duration, y unchanged
    o = find_func(find_class(tree, 'OffsetTransformConstructor'), 'identifier_to_pivot')
    ret = [s for s in strip_doc(o.body) if isinstance(s, ast.Return)]
    if len(ret) != 1 or not isinstance(ret[0].value, ast.Call):
        fail(o, "OffsetTransformConstructor.identifier_to_pivot: return shape")
    okw = kwmap(ret[0].value)
    if (ast.unparse(okw.get('x', ast.Constant(0))) != 'default_pivot.x + self.pivot_offset_scalar_x * time_component.duration'
            or ast.unparse(okw.get('y', ast.Constant(0))) != 'default_pivot.y'):
        fail(o, "OffsetTransformConstructor.identifier_to_pivot: offset formula")
    return xc[1]


def description_constants(tree):
    """construct_visual_description: `end_time: float = <floor>` ... channel_width=end_time + <margin>, channel_height=<h>;
    VisualCircuitDescription.channel_spacing = self.channel_height * <s>"""
    fn = norm_function(find_func(tree, 'construct_visual_description'), guards=False, accumulate=False, single_use=False, helpers=False)
    floor = None
    for s in fn.body:       # after N1 (annotation dropped): the one top-level `end_time = <floor>`
        if isinstance(s, ast.Assign) and len(s.targets) == 1 and isinstance(s.targets[0], ast.Name) and s.targets[0].id == 'end_time':
            if floor is not None:
                fail(s, "construct_visual_description: end_time initialised twice")
            floor = num_const(s.value, 'construct_visual_description end_time')
    rets = [s for s in fn.body if isinstance(s, ast.Return)]
    if floor is None or len(rets) != 1 or not isinstance(rets[0].value, ast.Call) or getattr(rets[0].value.func, 'id', '') != 'VisualCircuitDescription':
        fail(fn, "construct_visual_description: end_time initialisation / return VisualCircuitDescription(...)")
    kw = kwmap(rets[0].value)
    cw = kw.get('channel_width')
    if not (isinstance(cw, ast.BinOp) and isinstance(cw.op, ast.Add) and isinstance(cw.left, ast.Name) and cw.left.id == 'end_time'):
        fail(fn, "construct_visual_description: channel_width=end_time + <margin> expected")
    margin = num_const(cw.right, 'channel_width margin')
    height = num_const(kw.get('channel_height'), 'channel_height')
    # the loop that raises end_time to the latest operation end
    loops = [s for s in fn.body if isinstance(s, ast.For)]
    ok = False
    for lp in loops:
        if (len(lp.body) == 1 and isinstance(lp.body[0], ast.If)
                and ast.unparse(lp.body[0].test) == 'operation.end_time > end_time'
                and len(lp.body[0].body) == 1 and ast.unparse(lp.body[0].body[0]) == 'end_time = operation.end_time'
                and ast.unparse(lp.iter) == 'operations'):
            ok = True
    if not ok:
        fail(fn, "construct_visual_description: loop computing the latest end time")
    sp = find_func(find_class(tree, 'VisualCircuitDescription'), 'channel_spacing')
    sb = strip_doc(sp.body)
    if not (len(sb) == 1 and isinstance(sb[0], ast.Return) and isinstance(sb[0].value, ast.BinOp) and isinstance(sb[0].value.op, ast.Mult)
            and attr_chain(sb[0].value.left) == ['self', 'channel_height']):
        fail(sp, "channel_spacing: self.channel_height * <factor> expected")
    factor = Fraction(str(num_const(sb[0].value.right, 'channel_spacing factor')))
    return floor, margin, height, factor


def factory_tables(tree):
    """get_operation_draw_components: keys of the individual factory lookup and of the bulk (two-qubit) lookup"""
    fn = find_func(find_class(tree, 'VisualCircuitDescription'), 'get_operation_draw_components')
    calls = [x for x in ast.walk(fn) if isinstance(x, ast.Call) and isinstance(x.func, ast.Name)]
    bulk = [c for c in calls if c.func.id == 'BulkDrawComponentFactoryManager']
    indiv = [c for c in calls if c.func.id == 'DrawComponentFactoryManager']
    multi = [c for c in calls if c.func.id == 'MultiTwoQubitBlockFactory']
    if len(bulk) != 1 or len(indiv) != 1 or len(multi) != 1:
        fail(fn, "get_operation_draw_components: factory manager construction")

    def keys(call):
        d = kwmap(call).get('factory_lookup')
        if not isinstance(d, ast.Dict) or not all(isinstance(k, ast.Name) for k in d.keys):
            fail(call, "factory_lookup: dict literal keyed by class names expected")
        return [k.id for k in d.keys], d

    ikeys, _ = keys(indiv[0])
    has_default = 'default_factory' in kwmap(indiv[0])
    bkeys, bd = keys(bulk[0])
    if len(bkeys) != 1 or bd.values[0] is not multi[0]:
        fail(bulk[0], "bulk factory_lookup: exactly one entry (the two-qubit group) expected")
    mkeys, _ = keys(multi[0])
    return ikeys, has_default, bkeys[0], mkeys


def bulk_manager_shape(tree_ifac, tree_multi):
    """DrawComponentFactoryManager.construct falls back to default_factory for an unknown type;
    MultiTwoQubitBlockFactory.construct `continue`s on a type outside its lookup; its offset scalar literal"""
    fn = find_func(find_class(tree_ifac, 'DrawComponentFactoryManager'), 'construct')
    fallback = contains(fn, lambda x: isinstance(x, ast.Return) and isinstance(x.value, ast.Call)
                        and attr_chain(x.value.func) == ['self', 'default_factory', 'construct'])
    raises = contains(fn, lambda x: isinstance(x, ast.Raise))
    if fallback == raises:
        fail(fn, "DrawComponentFactoryManager.construct: default-factory fallback xor raise expected")
    grp = find_func(find_class(tree_ifac, 'BulkDrawComponentFactoryManager'), 'construct')
    if not contains(grp, lambda x: isinstance(x, ast.If) and ast.unparse(x.test) == 'isinstance(operation, TwoQubitOperation)'):
        fail(grp, "BulkDrawComponentFactoryManager.construct: grouping of TwoQubitOperation instances")
    m = norm_function(find_func(find_class(tree_multi, 'MultiTwoQubitBlockFactory'), 'construct'),
                      guards=False, accumulate=False, single_use=False, helpers=False)     # N1 only
    skips = contains(m, lambda x: isinstance(x, ast.If) and ast.unparse(x.test) == 'type(operation.operation) not in self.factory_lookup'
                     and len(x.body) == 1 and isinstance(x.body[0], ast.Continue))
    scalar = None
    formulas = {}
    for s in ast.walk(m):
        if isinstance(s, ast.Assign) and len(s.targets) == 1 and isinstance(s.targets[0], ast.Name):
            name = s.targets[0].id
            if name in formulas and name in ('scalar', 'bounded_offset', 'duration_scaling', 'offset_scalar'):
                fail(s, f"MultiTwoQubitBlockFactory.construct: {name} assigned twice")
            if name == 'scalar':
                scalar = Fraction(str(num_const(s.value, 'offset scalar')))
            formulas[name] = ast.unparse(s.value)
    # the offset handed to OffsetTransformConstructor (which multiplies it by the duration once more): either the shape
    # of the current tree (already scaled by the duration: the shift is quadratic in the duration) or the dimensionless
    # fraction (shift linear in the duration)
    if formulas.get('bounded_offset') != '2 * (operation.element_index / (operation.group_size - 1)) - 1.0':
        raise TranslateError(f"MultiTwoQubitBlockFactory.construct: bounded_offset is `{formulas.get('bounded_offset')}`")
    if (formulas.get('duration_scaling') == '0.5 * operation.operation.duration'
            and formulas.get('offset_scalar') == 'bounded_offset * duration_scaling * scalar'):
        power = 2
    elif 'duration_scaling' not in formulas and formulas.get('offset_scalar') == 'bounded_offset * 0.5 * scalar':
        power = 1
    else:
        raise TranslateError(f"MultiTwoQubitBlockFactory.construct: unrecognised offset formula "
                             f"(duration_scaling=`{formulas.get('duration_scaling')}`, offset_scalar=`{formulas.get('offset_scalar')}`)")
    if scalar is None:
        fail(m, "MultiTwoQubitBlockFactory.construct: scalar literal")
    return fallback, skips, scalar, power


# ------------------------------------------------------------------------------------------------ output
def table(name, rows, comment=''):
    body = "; ".join(f"({cstr(k)}, {cz(v)})" for k, v in rows)
    return f"Definition {name} : list (string * Z) := [{body}].{comment}"


def loop_safety_passes(tree):
    """WhileLoopSafety.safety_condition: how many times it answers True for max_iterations = m.
    Recognised shapes (fail-closed otherwise):
       if self.counter >= self.max_iterations: warn; return False  /  self.counter += 1  /  return True      -> m
       self.counter += 1  /  if self.counter >= self.max_iterations: warn; return False  /  return True      -> m - 1
    Returned as the offset k such that the number of True answers is m - k."""
    cls = next((n for n in tree.body if isinstance(n, ast.ClassDef) and n.name == 'WhileLoopSafety'), None)
    if cls is None:
        raise TranslateError("class WhileLoopSafety not found")
    fn = next((n for n in cls.body if isinstance(n, ast.FunctionDef) and n.name == 'safety_condition'), None)
    init = next((n for n in cls.body if isinstance(n, ast.FunctionDef) and n.name == '__init__'), None)
    if fn is None or init is None:
        raise TranslateError("WhileLoopSafety.safety_condition / __init__ not found")
    # annotated assignments (`self.counter: int = 0`) are read as plain assignments (pycoq N1: annotations of attribute targets and
    # locals inside a function body are never evaluated)
    init = norm_function(init, guards=False, accumulate=False, single_use=False, helpers=False)
    fn = norm_function(fn, guards=False, accumulate=False, single_use=False, helpers=False)
    if 'self.counter = 0' not in [ast.unparse(x) for x in init.body]:
        raise TranslateError("WhileLoopSafety.__init__: counter does not start at 0")
    body = strip_doc(fn.body)
    kinds = []
    for st in body:
        src = ast.unparse(st)
        if src == 'self.counter += 1':
            kinds.append('inc')
        elif isinstance(st, ast.If) and ast.unparse(st.test) == 'self.counter >= self.max_iterations' and not st.orelse \
                and isinstance(st.body[-1], ast.Return) and ast.unparse(st.body[-1]) == 'return False':
            kinds.append('check')
        elif src == 'return True':
            kinds.append('true')
        else:
            raise TranslateError("WhileLoopSafety.safety_condition: unrecognised statement: " + src[:80])
    if kinds == ['check', 'inc', 'true']:
        return 0
    if kinds == ['inc', 'check', 'true']:
        return 1
    raise TranslateError(f"WhileLoopSafety.safety_condition: unrecognised shape {kinds}")


def generate(repo):
    t_graph = parse_file(f"{repo}/{SRC_GRAPH}")
    t_op = parse_file(f"{repo}/{SRC_OP}")
    t_comp = parse_file(f"{repo}/{SRC_COMP}")
    t_dur = parse_file(f"{repo}/{SRC_DUR}")
    t_ctx = parse_file(f"{repo}/{SRC_CTX}")
    t_disp = parse_file(f"{repo}/{SRC_DISP}")
    t_tc = parse_file(f"{repo}/{SRC_TC}")
    t_multi = parse_file(f"{repo}/{SRC_MULTI}")
    t_ifac = parse_file(f"{repo}/{SRC_IFAC}")
    t_decl = parse_file(f"{repo}/{SRC_DECL}")

    out = ["(* GENERATED by tools/translate/gen_flags.py from the current /repo sources -- do not edit *)",
           "From Coq Require Import ZArith List Bool String.", "Import ListNotations.", "Open Scope Z_scope.",
           "Open Scope string_scope.", ""]
    # (a)
    out += ["(* (a) graph_traversal/intrf_graph_structure.py *)",
            f"Definition MAX_GRAPH_DEPTH : Z := {max_graph_depth(t_graph)}.",
            "(* utilities/custom_context_managers.py: WhileLoopSafety(max_iterations = m).safety_condition() answers True this many times *)",
            f"Definition loop_safety_passes (m : Z) : Z := m - {loop_safety_passes(t_ctx)}.", ""]
    # (b)
    out += ["(* (b) which get_start_time methods carry @lru_cache *)",
            f"Definition relation_link_memoised : bool := {cbool(memoised(t_op, 'RelationLink'))}.",
            f"Definition multi_relation_link_memoised : bool := {cbool(memoised(t_op, 'MultiRelationLink'))}.", ""]
    # (c)
    cleared = invalidate_body(t_op)
    out += ["(* (c) body of invalidate_start_time_cache: which memo tables it clears *)",
            f"Definition invalidate_clears_relation_link : bool := {cbool('RelationLink' in cleared)}.",
            f"Definition invalidate_clears_multi_relation_link : bool := {cbool('MultiRelationLink' in cleared)}.", ""]
    # (d)
    enter, leave = mp_override(t_dur)
    points = [('MP_add_to_graph', 'CircuitGraphBranch.add_to_graph', mp_add_to_graph(t_comp)),
              ('MP_handoff', 'CircuitCompositeOperation.decomposed_operations:relation-link hand-off', mp_handoff(t_comp)),
              ('MP_set_registry', 'DurationRegistry.set_registry_at', mp_set_registry(t_dur)),
              ('MP_override_enter', 'temporary_override_get_registry_at:enter', enter),
              ('MP_override_leave', 'temporary_override_get_registry_at:leave', leave)]
    out.append("(* (d) schedule-mutation points and whether each calls invalidate_start_time_cache() unconditionally, after the change *)")
    for c, n, _ in points:
        out.append(f"Definition {c} : string := {cstr(n)}.")
    out.append("Definition mutation_points : list (string * bool) := [" + "; ".join(f"({c}, {cbool(b)})" for c, _, b in points) + "].")
    out += ["Fixpoint flag_of (l : list (string * bool)) (name : string) : bool :=",
            "  match l with [] => false | (n, b) :: t => if String.eqb n name then b else flag_of t name end.",
            "Definition mutation_point_invalidates (name : string) : bool := flag_of mutation_points name.",
            "Definition all_mutation_points_invalidate : bool := forallb snd mutation_points.", ""]
    # (e)
    on_enter, on_exit = clear_lru_cache_shape(t_ctx)
    pc = plot_circuit_shape(t_disp)
    out += ["(* (e) plot_circuit: compact mode enters temporary_override_get_registry_at(<registry>) and, inside it, clear_lru_cache(...) *)",
            f"Definition plot_compact_overrides_durations : bool := {cbool(pc['override'])}.",
            f"Definition plot_compact_override_registry : string := {cstr(pc['registry'])}.",
            "Definition plot_noncompact_overrides_durations : bool := false.",
            f"Definition plot_compact_clears_relation_link : bool := {cbool('RelationLink' in pc['clears'])}.",
            f"Definition plot_compact_clears_multi_relation_link : bool := {cbool('MultiRelationLink' in pc['clears'])}.",
            f"Definition clear_lru_cache_clears_on_enter : bool := {cbool(on_enter)}.",
            f"Definition clear_lru_cache_clears_on_exit : bool := {cbool(on_exit)}.", ""]
    # (f)
    keys = enum_members(find_class(t_dur, 'GlobalRegistryKey'))
    vis = duration_dict(module_assign(t_disp, 'VISUALIZATION_DURATION_REGISTRY'), keys, 'VISUALIZATION_DURATION_REGISTRY')
    glob = global_defaults(t_dur, keys)
    out += ["(* (f) duration tables, ticks of 1/8 *)",
            "Definition registry_keys : list string := [" + "; ".join(cstr(k) for k in keys) + "].",
            table('VISUALIZATION_DURATION_REGISTRY', vis),
            table('global_default_durations', glob),
            "Fixpoint table_get (l : list (string * Z)) (k : string) : option Z :=",
            "  match l with [] => None | (n, v) :: t => if String.eqb n k then Some v else table_get t k end.", ""]
    # (g)
    out += ["(* (g) MultiRelationLink.reference_node keeps the first of the latest-ending members (strict >) *)",
            f"Definition multi_reference_strict : bool := {cbool(multi_reference_strict(t_op))}.", ""]
    # (i)
    out += ["(* (i) do relation-free operations each receive their OWN relation-link instance (dataclasses.replace) at the two places that",
            "   hand links down?  Sub-circuits are compared by value incl. the link's instance identifier (F12, F21). *)",
            f"Definition handoff_link_fresh_per_node : bool := {cbool(link_assignment_fresh(t_comp, 'decomposed_operations'))}.",
            f"Definition extend_link_fresh_per_node : bool := {cbool(link_assignment_fresh(t_comp, 'extend'))}.", ""]
    # (j)
    rows = add_dispatch(t_decl)
    out += ["(* (j) IDeclarativeCircuit.add: the isinstance tests in source order with the method each hands the argument to; the class",
            "   hierarchy facts the dispatch depends on *)",
            "Definition add_dispatch : list (string * string) := [" + "; ".join(f"({cstr(a)}, {cstr(b)})" for a, b in rows) + "].",
            f"Definition add_declarative_hands_structure_to_add_sub_circuit : bool := {cbool(declarative_unwraps(t_decl))}.",
            f"Definition composite_interface_is_an_operation : bool := {cbool('ICircuitOperation' in class_bases(t_comp, 'ICircuitCompositeOperation'))}.",
            f"Definition declarative_circuit_is_an_operation : bool := {cbool('ICircuitOperation' in class_bases(t_decl, 'IDeclarativeCircuit'))}.", ""]
    # (h)
    xattr = pivot_shape(t_tc)
    floor, margin, height, factor = description_constants(t_disp)
    ikeys, has_default, bulk_key, mkeys = factory_tables(t_disp)
    fallback, skips, scalar, power = bulk_manager_shape(t_ifac, t_multi)
    out += ["(* (h) drawing geometry (display_circuit.py, transform_constructor.py, factory_multi_draw_components.py) *)",
            f"Definition pivot_x_attr : string := {cstr(xattr)}.      (* x of a pivot = time_component.<attr> *)",
            f"Definition draw_width_floor : Z := {cz(ticks(floor, 'end_time floor'))}.       (* initial end_time *)",
            f"Definition draw_width_margin : Z := {cz(ticks(margin, 'width margin'))}.      (* channel_width = end_time + margin *)",
            f"Definition draw_channel_height : Z := {cz(ticks(height, 'channel_height'))}.",
            f"Definition draw_spacing_num : Z := {cz(factor.numerator)}.       (* channel_spacing = channel_height * num / den *)",
            f"Definition draw_spacing_den : Z := {cz(factor.denominator)}.",
            f"Definition draw_offset_scalar_num : Z := {cz(scalar.numerator)}.   (* MultiTwoQubitBlockFactory: scalar *)",
            f"Definition draw_offset_scalar_den : Z := {cz(scalar.denominator)}.",
            f"Definition draw_offset_duration_power : Z := {power}.   (* shift of space-sharing two-qubit gates = b * 1/2 * scalar * duration^power, b in [-1, 1] *)",
            "Definition draw_individual_classes : list string := [" + "; ".join(cstr(k) for k in ikeys) + "].",
            f"Definition draw_individual_has_default : bool := {cbool(has_default and fallback)}.   (* unknown type -> default factory, never an error *)",
            f"Definition draw_bulk_group_class : string := {cstr(bulk_key)}.",
            "Definition draw_two_qubit_classes : list string := [" + "; ".join(cstr(k) for k in mkeys) + "].",
            f"Definition draw_bulk_skips_unknown : bool := {cbool(skips)}.   (* a grouped type outside the lookup is silently not drawn *)",
            ""]
    if factor.denominator <= 0 or scalar.denominator <= 0:
        raise TranslateError("non-positive denominator")
    return "\n".join(out)
