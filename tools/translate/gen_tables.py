"""Gen/Tables.v : the exporter tables (C08 Stim, C15 OpenQL), translated from the source text.

What is read (Python `ast` only, nothing of /repo is imported) and what is emitted:

* structure/circuit_operations.py, addon_stim/circuit_operations.py
    - `Inductive kind` : one constructor per *leaf operation class* (criterion: a top-level class whose transitive
      bases, resolved inside these two files, reach `ICircuitOperation` / `IAcquisitionOperation`; every top-level
      class of the two files must satisfy it, anything else is an unknown shape -> error);
    - `kind_name`, `kind_qshape` (how the qubits are given: `qubit_index` / `control_qubit_index, target_qubit_index` /
      `qubit_indices`), `kind_ids` (the `_id=` arguments of the `channel_identifiers` list the class defines or
      inherits: this is what `get_qubit_index` feeds to `unique_in_order`), `kind_int_fields` (the class's own `int` /
      `Optional[int]` dataclass fields, in order);
    - `DetectorOperation.to_stim_instruction` (five target-shape branches + fall-through),
      `LogicalObservableOperation.to_stim_instruction`, `CoordinateShiftOperation.to_stim_instruction` as Gallina
      functions over `option Z` (None = Python's None; arithmetic on None is None = the TypeError Python raises).
* addon_stim/factory_manager.py + operation_factories/*.py
    - `stim_gate : kind -> option stim_factory`  (NameBased 'X' -> SF_Name "X"; a factory whose `construct` returns a
      constant instruction -> SF_Const name; a factory that returns `operation.to_stim_instruction()` -> SF_Own);
* addon_openql/factory_manager.py + operation_factories/*.py
    - `openql_gate : kind -> option ql_factory` where a `ql_factory` is the list of kernel calls the factory's
      `construct` makes (`kernel.gate/cz/barrier/wait` with their argument expressions).

Fail-closed: every shape not listed above raises TranslateError.
"""
import ast
from pycoq import TranslateError, parse_file, fail, norm_function

D = 'src/qce_circuit'
SRC_OPS = f'{D}/structure/circuit_operations.py'
SRC_SOPS = f'{D}/addon_stim/circuit_operations.py'
SRC_SFM = f'{D}/addon_stim/factory_manager.py'
SRC_SF = [f'{D}/addon_stim/operation_factories/factory_basic_operations.py',
          f'{D}/addon_stim/operation_factories/factory_barrier_operations.py',
          f'{D}/addon_stim/operation_factories/factory_detector_operations.py']
SRC_QFM = f'{D}/addon_openql/factory_manager.py'
SRC_QF = [f'{D}/addon_openql/operation_factories/factory_basic_operations.py',
          f'{D}/addon_openql/operation_factories/factory_barrier_operations.py',
          f'{D}/addon_openql/operation_factories/factory_wait_operations.py',
          f'{D}/addon_openql/operation_factories/factory_composite_operation.py']
SOURCES = [SRC_OPS, SRC_SOPS, SRC_SFM] + SRC_SF + [SRC_QFM] + SRC_QF

OP_ROOTS = {'ICircuitOperation', 'IAcquisitionOperation'}
QUBIT_FIELDS = ('qubit_index', 'control_qubit_index', 'target_qubit_index', 'qubit_indices')


def cstr(s):
    if not isinstance(s, str) or '"' in s:
        raise TranslateError(f"string literal {s!r}")
    return '"' + s + '"'


def strip_doc(body):
    return [s for s in body if not (isinstance(s, ast.Expr) and isinstance(s.value, ast.Constant) and isinstance(s.value.value, str))]


# ------------------------------------------------------------------------------------------- operation classes
class OpClass:
    def __init__(self, node, file, module=None):
        self.node, self.name, self.file, self.module = node, node.name, file, module
        self.bases = []
        for b in node.bases:
            if isinstance(b, ast.Name):
                self.bases.append(b.id)
            else:
                fail(b, f"base of {node.name}")
        self.fields = []   # own annotated fields (name, annotation text)
        self.methods = {}
        for s in node.body:
            if isinstance(s, ast.AnnAssign) and isinstance(s.target, ast.Name):
                self.fields.append((s.target.id, ast.unparse(s.annotation)))
            elif isinstance(s, ast.FunctionDef):
                # a property setter re-defines the name; keep the first (getter) definition
                self.methods.setdefault(s.name, s)


def load_classes(repo):
    classes = {}
    order = []
    for src in (SRC_OPS, SRC_SOPS):
        tree = parse_file(f"{repo}/{src}")
        for n in tree.body:
            if isinstance(n, ast.ClassDef):
                if n.name in classes:
                    raise TranslateError(f"class {n.name} defined twice")
                classes[n.name] = OpClass(n, src, tree)
                order.append(n.name)

    def reaches_root(name, seen=()):
        if name in OP_ROOTS:
            return True
        if name not in classes or name in seen:
            return False
        return any(reaches_root(b, seen + (name,)) for b in classes[name].bases)

    for name in order:
        if not reaches_root(name):
            raise TranslateError(f"top-level class {name} in {classes[name].file} is not an operation class (unknown shape)")
        if 'dataclass' not in [ (d.func.id if isinstance(d, ast.Call) else getattr(d, 'id', None)) for d in classes[name].node.decorator_list]:
            raise TranslateError(f"operation class {name} is not a @dataclass")
    return classes, order


def linearise(classes, name):
    """own class first, then bases left-to-right, depth first, restricted to classes of the two files, without repeats
    (coincides with the C3 order for the single-inheritance-plus-interface hierarchies of these files)."""
    out = []

    def go(n):
        if n in classes and n not in out:
            out.append(n)
            for b in classes[n].bases:
                go(b)
    go(name)
    return out


def lookup_method(classes, name, meth):
    for c in linearise(classes, name):
        if meth in classes[c].methods:
            return classes[c].methods[meth], c
    raise TranslateError(f"{name}: no method {meth} in the operation-class files")


def all_field_names(classes, name):
    out = []
    for c in linearise(classes, name):
        out += [f for f, _ in classes[c].fields]
    return out


def qshape(classes, name):
    fs = all_field_names(classes, name)
    if 'qubit_indices' in fs:
        return 'QS_list', ['qubit_indices']
    if 'control_qubit_index' in fs and 'target_qubit_index' in fs:
        return 'QS_pair', ['control_qubit_index', 'target_qubit_index']
    if 'qubit_index' in fs:
        return 'QS_single', ['qubit_index']
    raise TranslateError(f"{name}: no qubit field found")


def channel_ids(classes, name):
    fn, owner = lookup_method(classes, name, 'channel_identifiers')
    _, qf = qshape(classes, name)
    body = strip_doc(fn.body)
    if len(body) != 1 or not isinstance(body[0], ast.Return):
        fail(fn, f"{owner}.channel_identifiers: expected a single return")
    v = body[0].value

    def id_of_call(call, loopvar=None):
        if not (isinstance(call, ast.Call) and isinstance(call.func, ast.Name) and call.func.id == 'ChannelIdentifier' and not call.args):
            fail(call, "channel identifier constructor")
        kw = {k.arg: k.value for k in call.keywords}
        if set(kw) != {'_id', '_channel'}:
            fail(call, "ChannelIdentifier keywords")
        i = kw['_id']
        if loopvar is not None:
            if isinstance(i, ast.Name) and i.id == loopvar:
                return 'IdAll'
            fail(i, "comprehension id")
        if isinstance(i, ast.Attribute) and isinstance(i.value, ast.Name) and i.value.id == 'self' and i.attr in qf and i.attr != 'qubit_indices':
            return f"IdQ {qf.index(i.attr)}"
        fail(i, f"{owner}.channel_identifiers: _id expression")

    if isinstance(v, ast.List):
        return [id_of_call(e) for e in v.elts]
    if isinstance(v, ast.ListComp) and len(v.generators) == 1:
        g = v.generators[0]
        if (isinstance(g.target, ast.Name) and not g.ifs and isinstance(g.iter, ast.Attribute) and isinstance(g.iter.value, ast.Name)
                and g.iter.value.id == 'self' and g.iter.attr == 'qubit_indices' and qf == ['qubit_indices']):
            return [id_of_call(v.elt, g.target.id)]
    fail(v, f"{owner}.channel_identifiers: return shape")


def own_int_fields(classes, name):
    out = []
    for f, a in classes[name].fields:
        if f in QUBIT_FIELDS:
            continue
        if a in ('int', 'Optional[int]'):
            out.append(f)
    return out


# ------------------------------------------------------------------------------------------- to_stim_instruction
class StimMethod:
    """`to_stim_instruction` bodies: locals (`name: T = expr`), `if <conj of self.F is [not] None>: ... return`, and
    `return stim.CircuitInstruction(name=..., targets=[stim.target_rec(e), ...], gate_args=[...])`."""

    def __init__(self, cls, params):
        self.cls, self.params = cls, params

    def iexpr(self, n, loc):
        if isinstance(n, ast.Constant) and isinstance(n.value, int) and not isinstance(n.value, bool):
            return f"(Some {n.value})" if n.value >= 0 else f"(Some ({n.value}))"
        if isinstance(n, ast.Name) and loc.get(n.id) == 'int':
            return f"v_{n.id}"
        if isinstance(n, ast.Attribute) and isinstance(n.value, ast.Name) and n.value.id == 'self' and n.attr in self.params:
            return f"self_{n.attr}"
        if isinstance(n, ast.BinOp) and isinstance(n.op, (ast.Add, ast.Sub)):
            op = 'oadd' if isinstance(n.op, ast.Add) else 'osub'
            return f"({op} {self.iexpr(n.left, loc)} {self.iexpr(n.right, loc)})"
        if isinstance(n, ast.UnaryOp) and isinstance(n.op, ast.USub):
            return f"(oneg {self.iexpr(n.operand, loc)})"
        if isinstance(n, ast.Call) and isinstance(n.func, ast.Name) and n.func.id == 'float' and len(n.args) == 1 and not n.keywords:
            return self.iexpr(n.args[0], loc)          # float(int) keeps the value; float(None) raises -> None
        fail(n, f"{self.cls}.to_stim_instruction: integer expression")

    def sexpr(self, n, loc):
        if isinstance(n, ast.Constant) and isinstance(n.value, str):
            return cstr(n.value)
        if isinstance(n, ast.Name) and loc.get(n.id) == 'str':
            return f"v_{n.id}"
        fail(n, "string expression")

    def cond(self, n):
        parts = n.values if (isinstance(n, ast.BoolOp) and isinstance(n.op, ast.And)) else [n]
        out = []
        for p in parts:
            if (isinstance(p, ast.Compare) and len(p.ops) == 1 and isinstance(p.ops[0], (ast.Is, ast.IsNot))
                    and isinstance(p.comparators[0], ast.Constant) and p.comparators[0].value is None
                    and isinstance(p.left, ast.Attribute) and isinstance(p.left.value, ast.Name) and p.left.value.id == 'self'
                    and p.left.attr in self.params):
                out.append(("isNone" if isinstance(p.ops[0], ast.Is) else "isSome") + f" self_{p.left.attr}")
            else:
                fail(p, f"{self.cls}.to_stim_instruction: condition")
        return "(" + " && ".join(out) + ")"

    def ret(self, n, loc):
        c = n.value
        if not (isinstance(c, ast.Call) and isinstance(c.func, ast.Attribute) and c.func.attr == 'CircuitInstruction'
                and isinstance(c.func.value, ast.Name) and c.func.value.id == 'stim' and not c.args):
            fail(n, "return shape")
        kw = {k.arg: k.value for k in c.keywords}
        if not set(kw) <= {'name', 'targets', 'gate_args'} or 'name' not in kw or 'targets' not in kw:
            fail(n, "CircuitInstruction keywords")
        name = self.sexpr(kw['name'], loc)
        if not isinstance(kw['targets'], ast.List):
            fail(n, "targets")
        ts = []
        for t in kw['targets'].elts:
            if (isinstance(t, ast.Call) and isinstance(t.func, ast.Attribute) and t.func.attr == 'target_rec'
                    and isinstance(t.func.value, ast.Name) and t.func.value.id == 'stim' and len(t.args) == 1 and not t.keywords):
                ts.append(f"GT_rec {self.iexpr(t.args[0], loc)}")
            else:
                fail(t, "target shape")
        args = []
        if 'gate_args' in kw:
            if not isinstance(kw['gate_args'], ast.List):
                fail(n, "gate_args")
            args = [self.iexpr(a, loc) for a in kw['gate_args'].elts]
        return f"GI {name} [{'; '.join(ts)}] [{'; '.join(args)}]"

    def block(self, stmts, loc, ind):
        stmts = strip_doc(stmts)
        if not stmts:
            raise TranslateError(f"{self.cls}.to_stim_instruction: a path falls off the end")
        s, rest = stmts[0], stmts[1:]
        pad = ' ' * ind
        if isinstance(s, ast.Return):
            if rest:
                fail(s, "code after return")
            return pad + self.ret(s, loc)
        if isinstance(s, ast.AnnAssign) and isinstance(s.target, ast.Name) and s.value is not None:
            ann = ast.unparse(s.annotation)
            if ann not in ('int', 'str'):
                fail(s, "local annotation")
            e = self.iexpr(s.value, loc) if ann == 'int' else self.sexpr(s.value, loc)
            loc2 = dict(loc)
            loc2[s.target.id] = ann
            return f"{pad}let v_{s.target.id} := {e} in\n" + self.block(rest, loc2, ind)
        if isinstance(s, ast.If) and not s.orelse:
            then = self.block(s.body, loc, ind + 2)
            els = self.block(rest, loc, ind)
            return f"{pad}if {self.cond(s.test)} then\n{then}\n{pad}else\n{els}"
        fail(s, f"{self.cls}.to_stim_instruction: statement shape")


def translate_stim_method(classes, name):
    fn, owner = lookup_method(classes, name, 'to_stim_instruction')
    if owner != name:
        raise TranslateError(f"{name}.to_stim_instruction is inherited from {owner}")
    if [a.arg for a in fn.args.args] != ['self']:
        fail(fn, "signature")
    shape, qf = qshape(classes, name)
    params = ([] if shape == 'QS_list' else qf) + own_int_fields(classes, name)
    tr = StimMethod(name, params)
    # guard clauses are read in one direction (pycoq N2 + N3): `if not-A or not-B: return Y` followed by X is the same function as
    # `if A and B: X` followed by `return Y`.  Annotations stay (they type the locals here), nothing else is rewritten.
    # Calls of a private single-`return` method of the same class (`self._lookback(self.main_target)`) are inlined (N6).
    fn = norm_function(fn, module=classes[name].module, cls=classes[name].node, annotations=False, accumulate=False, single_use=False)
    body = tr.block(fn.body, {}, 2)
    sig = " ".join(f"self_{p}" for p in params)
    txt = f"Definition {name}_params : list string := [{'; '.join(cstr(p) for p in params)}].\n"
    txt += f"Definition {name}_to_stim_instruction ({sig} : option Z) : gen_instr :=\n{body}.\n"
    return txt


# ------------------------------------------------------------------------------------------- factory tables
def factory_table(tree, holder, ctor):
    """`class <holder>: _factory: ... = <ctor>(factory_lookup={Cls: Factory(args), ...})` -> [(Cls, Factory, [args])]"""
    cls = next((n for n in tree.body if isinstance(n, ast.ClassDef) and n.name == holder), None)
    if cls is None:
        raise TranslateError(f"class {holder} not found")
    for s in cls.body:
        if isinstance(s, ast.AnnAssign) and isinstance(s.target, ast.Name) and s.target.id == '_factory':
            c = s.value
            if not (isinstance(c, ast.Call) and isinstance(c.func, ast.Name) and c.func.id == ctor and not c.args
                    and len(c.keywords) == 1 and c.keywords[0].arg == 'factory_lookup' and isinstance(c.keywords[0].value, ast.Dict)):
                fail(s, "factory manager construction")
            out = []
            d = c.keywords[0].value
            for k, v in zip(d.keys, d.values):
                if not isinstance(k, ast.Name):
                    fail(k, "factory_lookup key")
                if not (isinstance(v, ast.Call) and isinstance(v.func, ast.Name) and not v.keywords):
                    fail(v, "factory_lookup value")
                args = []
                for a in v.args:
                    if not (isinstance(a, ast.Constant) and isinstance(a.value, str)):
                        fail(a, "factory argument")
                    args.append(a.value)
                out.append((k.id, v.func.id, args))
            if len({k for k, _, _ in out}) != len(out):
                raise TranslateError("duplicate key in factory_lookup")
            return out
    raise TranslateError(f"{holder}._factory not found")


def imported_names(tree):
    """name -> module for `from m import a, b` (to check that the keys are the operation classes of the two files)."""
    out = {}
    for n in tree.body:
        if isinstance(n, ast.ImportFrom):
            for a in n.names:
                out[a.asname or a.name] = n.module
    return out


def factory_classes(repo, files):
    out = {}
    helpers = {}
    for f in files:
        tree = parse_file(f"{repo}/{f}")
        for n in tree.body:
            if isinstance(n, ast.ClassDef):
                if n.name in out:
                    raise TranslateError(f"factory class {n.name} defined twice")
                out[n.name] = n
            elif isinstance(n, ast.FunctionDef):
                helpers[n.name] = n
    return out, helpers


EXPECTED_GET_QUBIT_INDEX = ("channels = operation.channel_identifiers\n"
                            "qubit_indices = unique_in_order([channel.id for channel in channels])\n"
                            "return qubit_indices")


def check_get_qubit_index(fn):
    body = []
    for s in strip_doc(fn.body):
        if isinstance(s, ast.AnnAssign) and s.value is not None:
            s = ast.Assign(targets=[s.target], value=s.value, lineno=s.lineno)
        body.append(ast.unparse(s))
    if "\n".join(body) != EXPECTED_GET_QUBIT_INDEX or [a.arg for a in fn.args.args] != ['operation']:
        raise TranslateError("get_qubit_index changed shape: " + " | ".join(body))


def init_param(cls):
    """`def __init__(self, p): self._p = p` -> ('_p', 'p') or None."""
    for s in cls.body:
        if isinstance(s, ast.FunctionDef) and s.name == '__init__':
            ps = [a.arg for a in s.args.args]
            body = strip_doc(s.body)
            if len(ps) == 2 and len(body) == 1:
                b = body[0]
                tgt = b.target if isinstance(b, ast.AnnAssign) else (b.targets[0] if isinstance(b, ast.Assign) and len(b.targets) == 1 else None)
                if (isinstance(tgt, ast.Attribute) and isinstance(tgt.value, ast.Name) and tgt.value.id == 'self'
                        and isinstance(b.value, ast.Name) and b.value.id == ps[1]):
                    return tgt.attr
            fail(s, f"{cls.name}.__init__ shape")
    return None


def find_construct(cls, nparams):
    for s in cls.body:
        if isinstance(s, ast.FunctionDef) and s.name == 'construct':
            if len(s.args.args) != nparams or s.args.args[0].arg != 'self':
                fail(s, "construct signature")
            # a local that only names one argument of the next call (`targets = get_qubit_index(operation)`) is substituted back
            # (pycoq N1 + N4; refused when another call would be evaluated between the two places)
            return norm_function(s, guards=False, accumulate=False, helpers=False)
    raise TranslateError(f"{cls.name}: no construct method")


def is_self_attr(n, attr):
    return isinstance(n, ast.Attribute) and isinstance(n.value, ast.Name) and n.value.id == 'self' and n.attr == attr


def stim_factory(cls, args):
    """-> Coq term of type stim_factory"""
    fn = find_construct(cls, 2)
    opname = fn.args.args[1].arg
    body = strip_doc(fn.body)
    if len(body) != 1 or not isinstance(body[0], ast.Return):
        fail(fn, f"{cls.name}.construct: expected a single return")
    v = body[0].value
    # operation.to_stim_instruction()
    if (isinstance(v, ast.Call) and isinstance(v.func, ast.Attribute) and v.func.attr == 'to_stim_instruction'
            and isinstance(v.func.value, ast.Name) and v.func.value.id == opname and not v.args and not v.keywords):
        if args:
            raise TranslateError(f"{cls.name} takes no arguments")
        return "SF_Own"
    if not (isinstance(v, ast.Call) and isinstance(v.func, ast.Attribute) and v.func.attr == 'CircuitInstruction'
            and isinstance(v.func.value, ast.Name) and v.func.value.id == 'stim' and not v.args):
        fail(v, f"{cls.name}.construct: return shape")
    kw = {k.arg: k.value for k in v.keywords}
    p = init_param(cls)
    if p is not None and set(kw) == {'name', 'targets'} and is_self_attr(kw['name'], p):
        t = kw['targets']
        if not (isinstance(t, ast.Call) and isinstance(t.func, ast.Name) and t.func.id == 'get_qubit_index' and len(t.args) == 1
                and isinstance(t.args[0], ast.Name) and t.args[0].id == opname and not t.keywords):
            fail(t, "targets of a name-based factory")
        if len(args) != 1:
            raise TranslateError(f"{cls.name} expects one argument")
        return f"SF_Name {cstr(args[0])}"
    if p is None and set(kw) <= {'name', 'targets', 'gate_args'} and isinstance(kw.get('name'), ast.Constant) and isinstance(kw['name'].value, str):
        for k in ('targets', 'gate_args'):
            if k in kw and not (isinstance(kw[k], ast.List) and not kw[k].elts):
                fail(kw[k], "constant instruction with targets/arguments")
        if 'targets' not in kw or args:
            fail(v, "constant instruction shape")
        return f"SF_Const {cstr(kw['name'].value)}"
    fail(v, f"{cls.name}.construct: unrecognised factory")


def ql_factory(cls, args, classes):
    """-> Coq term of type ql_factory (list of kernel-call templates)"""
    fn = find_construct(cls, 3)
    opname, kname = fn.args.args[1].arg, fn.args.args[2].arg
    p = init_param(cls)
    if (p is None) != (len(args) == 0):
        raise TranslateError(f"{cls.name}: constructor arguments")
    # which class's qubit fields may be referenced: the annotation of `operation`, when it names an operation class
    ann = fn.args.args[1].annotation
    qf = None
    if isinstance(ann, ast.Name) and ann.id in classes:
        qf = qshape(classes, ann.id)[1]
    body = strip_doc(fn.body)
    if not body or not (isinstance(body[-1], ast.Return) and isinstance(body[-1].value, ast.Name) and body[-1].value.id == kname):
        fail(fn, f"{cls.name}.construct: must end in `return {kname}`")

    def qexpr(n):
        if (isinstance(n, ast.Call) and isinstance(n.func, ast.Name) and n.func.id == 'get_qubit_index' and len(n.args) == 1
                and isinstance(n.args[0], ast.Name) and n.args[0].id == opname and not n.keywords):
            return "QE_ids"
        if (isinstance(n, ast.Attribute) and isinstance(n.value, ast.Name) and n.value.id == opname and qf is not None
                and n.attr in qf and n.attr != 'qubit_indices'):
            return f"(QE_q {qf.index(n.attr)})"
        fail(n, f"{cls.name}.construct: qubit expression")

    def nexpr(n):
        if isinstance(n, ast.Constant) and isinstance(n.value, str):
            return cstr(n.value)
        if p is not None and is_self_attr(n, p):
            return cstr(args[0])
        fail(n, "gate name expression")

    out = []
    for s in body[:-1]:
        if not (isinstance(s, ast.Expr) and isinstance(s.value, ast.Call) and isinstance(s.value.func, ast.Attribute)
                and isinstance(s.value.func.value, ast.Name) and s.value.func.value.id == kname):
            fail(s, f"{cls.name}.construct: statement shape")
        c = s.value
        m = c.func.attr
        kw = {k.arg: k.value for k in c.keywords}
        if m == 'gate' and len(c.args) == 2 and not kw:
            out.append(f"KT_gate {nexpr(c.args[0])} {qexpr(c.args[1])}")
        elif m == 'cz' and len(c.args) == 2 and not kw:
            out.append(f"KT_cz {qexpr(c.args[0])} {qexpr(c.args[1])}")
        elif m == 'barrier' and len(c.args) == 1 and not kw:
            out.append(f"KT_barrier {qexpr(c.args[0])}")
        elif m == 'wait' and not c.args and set(kw) == {'qubits', 'duration'}:
            d = kw['duration']
            if not (isinstance(d, ast.Call) and isinstance(d.func, ast.Name) and d.func.id == 'int' and len(d.args) == 1
                    and isinstance(d.args[0], ast.Attribute) and isinstance(d.args[0].value, ast.Name)
                    and d.args[0].value.id == opname and d.args[0].attr == 'duration'):
                fail(d, "wait duration expression")
            out.append(f"KT_wait {qexpr(kw['qubits'])} DE_int_duration")
        else:
            fail(s, f"{cls.name}.construct: kernel call")
    return "[" + "; ".join(out) + "]"


# ------------------------------------------------------------------------------------------- output
PRELUDE = """(* GENERATED by tools/translate/gen_tables.py from the current /repo sources -- do not edit *)
From Coq Require Import ZArith List Bool String.
Import ListNotations.
Open Scope Z_scope.
Open Scope string_scope.

(* Python's Optional[int]: None is None; arithmetic with None raises TypeError = None here *)
Definition oadd (a b : option Z) : option Z := match a, b with Some x, Some y => Some (x + y) | _, _ => None end.
Definition osub (a b : option Z) : option Z := match a, b with Some x, Some y => Some (x - y) | _, _ => None end.
Definition oneg (a : option Z) : option Z := match a with Some x => Some (- x) | None => None end.
Definition isSome (a : option Z) : bool := match a with Some _ => true | None => false end.
Definition isNone (a : option Z) : bool := match a with Some _ => false | None => true end.

(* what a `to_stim_instruction` method hands to stim.CircuitInstruction(name=, targets=, gate_args=) *)
Inductive gtarget := GT_rec (v : option Z).                      (* stim.target_rec(v) *)
Inductive gen_instr := GI (name : string) (targets : list gtarget) (args : list (option Z)).

Inductive qshape := QS_single | QS_pair | QS_list.               (* qubit_index | control,target | qubit_indices *)
Inductive idsrc := IdQ (i : nat) | IdAll.                        (* _id=self.<i-th qubit field> | one per element of qubit_indices *)

Inductive stim_factory :=
| SF_Name (gate : string)      (* stim.CircuitInstruction(name=gate, targets=get_qubit_index(operation)) *)
| SF_Const (gate : string)     (* stim.CircuitInstruction(name=gate, targets=[], gate_args=[]) *)
| SF_Own.                      (* operation.to_stim_instruction() *)

Inductive qexpr := QE_ids | QE_q (i : nat).                      (* get_qubit_index(operation) | operation.<i-th qubit field> *)
Inductive dexpr := DE_int_duration.                              (* int(operation.duration) *)
Inductive ktempl :=
| KT_gate (name : string) (q : qexpr)       (* kernel.gate(name, q) *)
| KT_cz (a b : qexpr)                       (* kernel.cz(a, b) *)
| KT_barrier (q : qexpr)                    (* kernel.barrier(q) *)
| KT_wait (q : qexpr) (d : dexpr).          (* kernel.wait(qubits=q, duration=d) *)
Definition ql_factory := list ktempl.
"""


def generate(repo):
    classes, order = load_classes(repo)
    out = [PRELUDE]
    ks = [f"K_{n}" for n in order]
    out.append("Inductive kind :=\n  " + "\n| ".join(ks) + ".\n")
    out.append("Definition kind_eqb (a b : kind) : bool :=\n  match a, b with\n" + "\n".join(f"  | {k}, {k} => true" for k in ks)
               + "\n  | _, _ => false\n  end.\n")
    out.append("Definition kind_all : list kind := [" + "; ".join(ks) + "].\n")
    out.append("Definition kind_name (k : kind) : string :=\n  match k with\n" + "\n".join(f"  | K_{n} => {cstr(n)}" for n in order) + "\n  end.\n")
    out.append("Definition kind_qshape (k : kind) : qshape :=\n  match k with\n" + "\n".join(f"  | K_{n} => {qshape(classes, n)[0]}" for n in order) + "\n  end.\n")
    out.append("Definition kind_ids (k : kind) : list idsrc :=\n  match k with\n"
               + "\n".join(f"  | K_{n} => [{'; '.join(channel_ids(classes, n))}]" for n in order) + "\n  end.\n")
    out.append("Definition kind_int_fields (k : kind) : list string :=\n  match k with\n"
               + "\n".join(f"  | K_{n} => [{'; '.join(cstr(f) for f in own_int_fields(classes, n))}]" for n in order) + "\n  end.\n")

    # ---- Stim
    t_sfm = parse_file(f"{repo}/{SRC_SFM}")
    stab = factory_table(t_sfm, 'StimFactoryManager', 'StimCircuitFactoryManager')
    sfac, shelp = factory_classes(repo, SRC_SF)
    if 'get_qubit_index' not in shelp:
        raise TranslateError("get_qubit_index not found")
    check_get_qubit_index(shelp['get_qubit_index'])
    imp = imported_names(t_sfm)
    lines = []
    own = []
    for k, f, args in stab:
        if k not in classes:
            raise TranslateError(f"Stim factory table: {k} is not a known leaf operation class")
        if imp.get(k) not in ('qce_circuit.structure.circuit_operations', 'qce_circuit.addon_stim.circuit_operations'):
            raise TranslateError(f"Stim factory table: {k} imported from {imp.get(k)}")
        if f not in sfac:
            raise TranslateError(f"Stim factory table: unknown factory {f}")
        term = stim_factory(sfac[f], args)
        if term == 'SF_Own':
            own.append(k)
        lines.append(f"  | K_{k} => Some ({term})")
    out.append(f"(* {SRC_SFM}: {len(stab)} entries *)")
    out.append("Definition stim_gate (k : kind) : option stim_factory :=\n  match k with\n" + "\n".join(lines)
               + ("\n  | _ => None" if len(stab) < len(order) else "") + "\n  end.\n")
    out.append("Definition stim_supported : list kind := [" + "; ".join(f"K_{k}" for k, _, _ in stab) + "].\n")
    for k in own:
        out.append(translate_stim_method(classes, k))
    out.append("Definition stim_own_kinds : list kind := [" + "; ".join(f"K_{k}" for k in own) + "].\n")

    # ---- OpenQL
    t_qfm = parse_file(f"{repo}/{SRC_QFM}")
    qtab = factory_table(t_qfm, 'OpenQLFactoryManager', 'OpenQLCircuitFactoryManager')
    qfac, _ = factory_classes(repo, SRC_QF)
    impq = imported_names(t_qfm)
    lines = []
    for k, f, args in qtab:
        if k not in classes:
            raise TranslateError(f"OpenQL factory table: {k} is not a known leaf operation class")
        if impq.get(k) not in ('qce_circuit.structure.circuit_operations', 'qce_circuit.addon_stim.circuit_operations'):
            raise TranslateError(f"OpenQL factory table: {k} imported from {impq.get(k)}")
        if f not in qfac:
            raise TranslateError(f"OpenQL factory table: unknown factory {f}")
        lines.append(f"  | K_{k} => Some {ql_factory(qfac[f], args, classes)}")
    out.append(f"(* {SRC_QFM}: {len(qtab)} entries *)")
    out.append("Definition openql_gate (k : kind) : option ql_factory :=\n  match k with\n" + "\n".join(lines)
               + ("\n  | _ => None" if len(qtab) < len(order) else "") + "\n  end.\n")
    out.append("Definition openql_supported : list kind := [" + "; ".join(f"K_{k}" for k, _, _ in qtab) + "].\n")
    return "\n".join(out)
