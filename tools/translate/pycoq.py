"""Fail-closed translator for a closed subset of Python (via `ast`) into Gallina text.

Only the shapes listed here are recognised; anything else raises TranslateError, which the check
reports as a broken tie (never skipped).  No module of /repo is imported: the source text is parsed.

Types tracked:  'Z' | 'bool' | 'string' | ('enum', N) | ('rec', N) | ('list', T) | ('vec',)  (numpy int vector)

Second half of this file: the AST NORMALISATION pre-pass (`norm_function` and the passes N1-N6), which the generators apply to
the function bodies they inspect so that behaviour-preserving rewrites of the library reach them in one shape.
"""
import ast
import hashlib


class TranslateError(Exception):
    pass


def fail(node, msg):
    ln = getattr(node, 'lineno', '?')
    raise TranslateError(f"line {ln}: {msg}: {ast.dump(node)[:200] if isinstance(node, ast.AST) else node}")


def sha256_file(path):
    return hashlib.sha256(open(path, 'rb').read()).hexdigest()


def parse_file(path):
    return ast.parse(open(path).read(), filename=path)


def find_class(tree, name):
    for n in tree.body:
        if isinstance(n, ast.ClassDef) and n.name == name:
            return n
    raise TranslateError(f"class {name} not found")


def find_func(tree_or_class, name):
    for n in tree_or_class.body:
        if isinstance(n, (ast.FunctionDef,)) and n.name == name:
            return n
    raise TranslateError(f"function {name} not found")


def decorators(fn):
    out = []
    for d in fn.decorator_list:
        if isinstance(d, ast.Name):
            out.append(d.id)
        elif isinstance(d, ast.Attribute):
            out.append(d.attr)
        elif isinstance(d, ast.Call):
            f = d.func
            out.append(f.id if isinstance(f, ast.Name) else f.attr)
    return out


def enum_members(cls):
    """`class X(Enum): A = auto() ...` -> ['A', ...] (docstrings skipped)."""
    out = []
    for s in cls.body:
        if isinstance(s, ast.Expr) and isinstance(s.value, ast.Constant) and isinstance(s.value.value, str):
            continue
        if isinstance(s, ast.Assign) and len(s.targets) == 1 and isinstance(s.targets[0], ast.Name):
            out.append(s.targets[0].id)
            continue
        fail(s, "unexpected statement in enum")
    return out


def coq_enum(name, members):
    lines = [f"Inductive {name} := " + " | ".join(f"{name}_{m}" for m in members) + "."]
    lines.append(f"Definition {name}_eqb (a b : {name}) : bool :=")
    lines.append("  match a, b with")
    for m in members:
        lines.append(f"  | {name}_{m}, {name}_{m} => true")
    lines.append("  | _, _ => false")
    lines.append("  end.")
    lines.append(f"Definition {name}_all : list {name} := [" + "; ".join(f"{name}_{m}" for m in members) + "].")
    return "\n".join(lines) + "\n"


def coq_type(t):
    if t in ('Z', 'bool', 'string'):
        return t
    if t[0] in ('enum', 'rec'):
        return t[1]
    if t[0] == 'list':
        return f"(list {coq_type(t[1])})"
    if t[0] == 'vec':
        return "(list Z)"
    raise TranslateError(f"no coq type for {t}")


class Env:
    """Translation context: known enums, records (field types), methods (signature), locals."""

    def __init__(self):
        self.enums = {}        # name -> members
        self.records = {}      # name -> {field: type}
        self.methods = {}      # (cls, name) -> (coqname, [argtypes], rettype)
        self.attr_alias = {}   # (cls, attr) -> handler(self_text) -> (text, type)   (special attributes)
        self.funcs = {}        # python function name -> (coqname, rettype)

    def eqb(self, t):
        if t == 'Z':
            return 'Z.eqb'
        if t == 'bool':
            return 'Bool.eqb'
        if t == 'string':
            return 'String.eqb'
        if t[0] == 'enum':
            return f"{t[1]}_eqb"
        if t[0] == 'rec' and (t[1], '__eq__') in self.methods:
            return self.methods[(t[1], '__eq__')][0]
        raise TranslateError(f"no equality for type {t}")


class FnTranslator:
    def __init__(self, env, cls_name=None):
        self.env = env
        self.cls = cls_name

    # ---------------------------------------------------------------- expressions
    def expr(self, n, loc):
        env = self.env
        if isinstance(n, ast.Constant):
            if n.value is True:
                return "true", 'bool'
            if n.value is False:
                return "false", 'bool'
            if isinstance(n.value, int):
                return (f"{n.value}" if n.value >= 0 else f"({n.value})"), 'Z'
            if isinstance(n.value, float) and n.value == int(n.value):
                return f"{int(n.value)}", 'Z'
            if isinstance(n.value, str):
                return '"' + n.value + '"', 'string'
            fail(n, "constant")
        if isinstance(n, ast.Name):
            if n.id in loc:
                return loc[n.id]
            fail(n, "unknown name")
        if isinstance(n, ast.Attribute):
            # Enum member
            if isinstance(n.value, ast.Name) and n.value.id in env.enums:
                if n.attr not in env.enums[n.value.id]:
                    fail(n, "unknown enum member")
                return f"{n.value.id}_{n.attr}", ('enum', n.value.id)
            vt, vty = self.expr(n.value, loc)
            return self.attr(n, vt, vty, n.attr)
        if isinstance(n, ast.UnaryOp):
            if isinstance(n.op, ast.Not):
                t, ty = self.expr(n.operand, loc)
                self.want(n, ty, 'bool')
                return f"(negb {t})", 'bool'
            if isinstance(n.op, ast.USub):
                t, ty = self.expr(n.operand, loc)
                self.want(n, ty, 'Z')
                return f"(- {t})", 'Z'
            fail(n, "unary op")
        if isinstance(n, ast.BoolOp):
            parts = [self.expr(v, loc) for v in n.values]
            for _, ty in parts:
                self.want(n, ty, 'bool')
            op = "&&" if isinstance(n.op, ast.And) else "||"
            return "(" + f" {op} ".join(p for p, _ in parts) + ")", 'bool'
        if isinstance(n, ast.BinOp):
            a, aty = self.expr(n.left, loc)
            b, bty = self.expr(n.right, loc)
            if isinstance(n.op, ast.Add):
                if aty == 'Z' and bty == 'Z':
                    return f"({a} + {b})", 'Z'
                if aty == 'Z' and bty == ('vec',):
                    return f"(map (fun i_ => {a} + i_) {b})", ('vec',)
                if aty[0] == 'list' and aty == bty:
                    return f"({a} ++ {b})", aty
                fail(n, f"add on {aty} {bty}")
            if aty == 'Z' and bty == 'Z':
                if isinstance(n.op, ast.Sub):
                    return f"({a} - {b})", 'Z'
                if isinstance(n.op, ast.Mult):
                    return f"({a} * {b})", 'Z'
                if isinstance(n.op, ast.FloorDiv):
                    return f"({a} / {b})", 'Z'
                if isinstance(n.op, ast.Mod):
                    return f"({a} mod {b})", 'Z'
            fail(n, f"binop on {aty} {bty}")
        if isinstance(n, ast.Compare):
            if len(n.ops) != 1:
                fail(n, "chained comparison")
            a, aty = self.expr(n.left, loc)
            b, bty = self.expr(n.comparators[0], loc)
            op = n.ops[0]
            if isinstance(op, (ast.In, ast.NotIn)):
                if bty[0] != 'list' or bty[1] != aty:
                    fail(n, f"membership {aty} in {bty}")
                r = f"(existsb (fun y_ => {self.env.eqb(aty)} y_ {a}) {b})"
                # NB python `x in l` evaluates  y == x  for y in l  (falls back to reflected); we keep y first
                return (r if isinstance(op, ast.In) else f"(negb {r})"), 'bool'
            if aty != bty:
                fail(n, f"comparison of {aty} with {bty}")
            if isinstance(op, (ast.Eq, ast.NotEq)):
                r = f"({self.env.eqb(aty)} {a} {b})"
                return (r if isinstance(op, ast.Eq) else f"(negb {r})"), 'bool'
            if aty == 'Z':
                tab = {ast.Lt: f"({a} <? {b})", ast.LtE: f"({a} <=? {b})", ast.Gt: f"({a} >? {b})", ast.GtE: f"({a} >=? {b})"}
                for k, v in tab.items():
                    if isinstance(op, k):
                        return v, 'bool'
            fail(n, "comparison")
        if isinstance(n, ast.IfExp):
            c, cty = self.expr(n.test, loc)
            self.want(n, cty, 'bool')
            a, aty = self.expr(n.body, loc)
            b, bty = self.expr(n.orelse, loc)
            if aty != bty:
                fail(n, "if-expression branches differ in type")
            return f"(if {c} then {a} else {b})", aty
        if isinstance(n, ast.List) and any(isinstance(e, ast.Starred) for e in n.elts):
            # `[*a, *b, x]` with a, b of a list type denotes a ++ b ++ [x]: a list display with starred items iterates each
            # starred operand in order, and iterating a list yields its elements in order.  Typed (only list / int-vector
            # operands), so it cannot be confused with `+` on numbers or arrays; emitted exactly like `a + b + [x]`.
            segs, run = [], []
            for e in n.elts:
                if isinstance(e, ast.Starred):
                    if run:
                        segs.append(("[" + "; ".join(p for p, _ in run) + "]", ('list', run[0][1]), [t for _, t in run]))
                        run = []
                    t, ty = self.expr(e.value, loc)
                    if ty == ('vec',):
                        ty = ('list', 'Z')
                    if ty[0] != 'list' or ty[1] == '?':
                        fail(n, f"starred operand of type {ty}")
                    segs.append((t, ty, [ty[1]]))
                else:
                    run.append(self.expr(e, loc))
            if run:
                segs.append(("[" + "; ".join(p for p, _ in run) + "]", ('list', run[0][1]), [t for _, t in run]))
            ty = segs[0][1]
            for _, sty, etys in segs:
                if sty != ty or any(t != ty[1] for t in etys):
                    fail(n, "heterogeneous list")
            text = segs[0][0]
            for t, _, _ in segs[1:]:
                text = f"({text} ++ {t})"
            return text, ty
        if isinstance(n, ast.List):
            parts = [self.expr(e, loc) for e in n.elts]
            if not parts:
                return "[]", ('list', '?')
            ty = parts[0][1]
            for _, t in parts:
                if t != ty:
                    fail(n, "heterogeneous list")
            return "[" + "; ".join(p for p, _ in parts) + "]", ('list', ty)
        if isinstance(n, ast.Call):
            return self.call(n, loc)
        fail(n, "expression shape not supported")

    def want(self, n, ty, exp):
        if ty != exp:
            fail(n, f"expected {exp}, got {ty}")

    def attr(self, n, vt, vty, attr):
        env = self.env
        if vty[0] == 'rec':
            cls = vty[1]
            if (cls, attr) in env.attr_alias:
                return env.attr_alias[(cls, attr)](vt)
            if attr in env.records.get(cls, {}):
                return f"({cls}_{attr} {vt})", env.records[cls][attr]
            if (cls, attr) in env.methods:
                cn, args, ret = env.methods[(cls, attr)]
                if args:
                    fail(n, "method used as attribute")
                return f"({cn} {vt})", ret
        fail(n, f"unknown attribute {attr} on {vty}")

    def call(self, n, loc):
        env = self.env
        f = n.func
        if n.keywords and not (isinstance(f, ast.Attribute)):
            fail(n, "keyword arguments")
        if isinstance(f, ast.Name):
            if f.id in ('max', 'min') and len(n.args) == 2:
                a, aty = self.expr(n.args[0], loc)
                b, bty = self.expr(n.args[1], loc)
                self.want(n, aty, 'Z')
                self.want(n, bty, 'Z')
                return f"(Z.{f.id} {a} {b})", 'Z'
            if f.id == 'range' and len(n.args) == 2:
                a, aty = self.expr(n.args[0], loc)
                b, bty = self.expr(n.args[1], loc)
                self.want(n, aty, 'Z')
                self.want(n, bty, 'Z')
                return f"(zrange {a} {b})", ('list', 'Z')
            if f.id == 'list' and len(n.args) == 1:
                a, aty = self.expr(n.args[0], loc)
                if aty == ('vec',) or aty == ('list', 'Z'):
                    return a, ('list', 'Z')
                fail(n, "list() of non-vector")
            if f.id == 'sorted' and len(n.args) == 1:
                a, aty = self.expr(n.args[0], loc)
                if aty == ('list', 'Z'):
                    return f"(zsort {a})", aty
                fail(n, "sorted() of non-int list")
            if f.id == 'hash' and len(n.args) == 1:
                a = n.args[0]
                if isinstance(a, ast.Tuple) and len(a.elts) == 2:
                    x, xty = self.expr(a.elts[0], loc)
                    y, yty = self.expr(a.elts[1], loc)
                    self.want(n, xty, 'Z')
                    self.want(n, yty, 'Z')
                    return f"(thash ({x}, {y}))", 'Z'
                fail(n, "hash() shape")
            if f.id in env.funcs:
                cn, argtys, ret = env.funcs[f.id]
                args = [self.expr(a, loc) for a in n.args]
                return "(" + " ".join([cn] + [a for a, _ in args]) + ")", ret
            fail(n, "unknown function")
        if isinstance(f, ast.Attribute):
            # np.asarray(range(a, b)) -> vec
            if isinstance(f.value, ast.Name) and f.value.id == 'np' and f.attr in ('asarray', 'array') and len(n.args) == 1:
                a, aty = self.expr(n.args[0], loc)
                if aty == ('list', 'Z'):
                    return a, ('vec',)
                fail(n, "np.asarray of non-int list")
            # x.__hash__() / x.__eq__(y)
            vt, vty = self.expr(f.value, loc)
            if f.attr == '__hash__' and not n.args:
                if vty == 'string':
                    return f"(shash {vt})", 'Z'
                if vty[0] == 'rec' and (vty[1], '__hash__') in env.methods:
                    return f"({env.methods[(vty[1], '__hash__')][0]} {vt})", 'Z'
                fail(n, "__hash__ receiver")
            if f.attr == '__eq__' and len(n.args) == 1:
                b, bty = self.expr(n.args[0], loc)
                if bty != vty:
                    fail(n, "__eq__ on different types")
                return f"({env.eqb(vty)} {vt} {b})", 'bool'
            if vty[0] == 'rec' and (vty[1], f.attr) in env.methods:
                cn, argtys, ret = env.methods[(vty[1], f.attr)]
                args = [self.expr(a, loc) for a in n.args] + [self.expr(k.value, loc) for k in n.keywords]
                if len(args) != len(argtys):
                    fail(n, "arity")
                for (a, aty), ety in zip(args, argtys):
                    if aty != ety:
                        fail(n, f"argument type {aty} vs {ety}")
                return "(" + " ".join([cn, vt] + [a for a, _ in args]) + ")", ret
            fail(n, "method call not supported")
        fail(n, "call shape")

    # ---------------------------------------------------------------- statements
    def body(self, stmts, loc, ret_ty, typed_other=None):
        """Translate a statement list that always returns.  typed_other = (name, clsnames): isinstance guards on it are
        discharged by typing (the model is typed)."""
        if not stmts:
            raise TranslateError("function body falls off the end")
        s, rest = stmts[0], stmts[1:]
        if isinstance(s, ast.Expr) and isinstance(s.value, ast.Constant) and isinstance(s.value.value, str):
            return self.body(rest, loc, ret_ty, typed_other)
        if isinstance(s, ast.Return):
            if s.value is None:
                fail(s, "bare return")
            t, ty = self.expr(s.value, loc)
            ty = self.unify(s, ty, ret_ty)
            return t
        if isinstance(s, (ast.AnnAssign, ast.Assign)):
            tgt = s.target if isinstance(s, ast.AnnAssign) else (s.targets[0] if len(s.targets) == 1 else None)
            if not isinstance(tgt, ast.Name) or s.value is None:
                fail(s, "assignment shape")
            t, ty = self.expr(s.value, loc)
            loc2 = dict(loc)
            loc2[tgt.id] = (tgt.id, ty)
            return f"let {tgt.id} := {t} in\n  " + self.body(rest, loc2, ret_ty, typed_other)
        if isinstance(s, ast.If):
            g = self.isinstance_guard(s.test, typed_other)
            if g == 'pos':      # if isinstance(other, T): <body>  ; rest is the untyped fallback -> dropped
                if s.orelse:
                    fail(s, "isinstance guard with else")
                return self.body(s.body, loc, ret_ty, typed_other)
            if g == 'neg':      # if not isinstance(other, T): return ...   -> dropped
                if s.orelse:
                    fail(s, "isinstance guard with else")
                return self.body(rest, loc, ret_ty, typed_other)
            c, cty = self.expr(s.test, loc)
            self.want(s, cty, 'bool')
            then = self.body(s.body, loc, ret_ty, typed_other)
            els = self.body(s.orelse if s.orelse else rest, loc, ret_ty, typed_other)
            if s.orelse and rest:
                fail(s, "code after if/else")
            return f"if {c} then {then}\n  else {els}"
        fail(s, "statement shape not supported")

    def unify(self, n, ty, ret_ty):
        if ty == ret_ty:
            return ty
        if ty == ('list', '?') and ret_ty[0] == 'list':
            return ret_ty
        if ty == ('vec',) and ret_ty == ('list', 'Z'):
            return ret_ty
        fail(n, f"return type {ty} vs {ret_ty}")

    def isinstance_guard(self, test, typed_other):
        if typed_other is None:
            return None
        name, classes = typed_other
        neg = False
        if isinstance(test, ast.UnaryOp) and isinstance(test.op, ast.Not):
            neg, test = True, test.operand
        if (isinstance(test, ast.Call) and isinstance(test.func, ast.Name) and test.func.id == 'isinstance'
                and len(test.args) == 2 and isinstance(test.args[0], ast.Name) and test.args[0].id == name
                and isinstance(test.args[1], ast.Name) and test.args[1].id in classes):
            return 'neg' if neg else 'pos'
        return None


def translate_method(env, cls_name, fn, arg_types, ret_ty, coqname=None, typed_other=None):
    """Translate method `fn` of record class `cls_name`; registers it in env.methods. Returns Coq text."""
    tr = FnTranslator(env, cls_name)
    args = [a.arg for a in fn.args.args]
    if args[0] != 'self' or len(args) - 1 != len(arg_types):
        fail(fn, "signature")
    loc = {'self': ('self', ('rec', cls_name))}
    for a, t in zip(args[1:], arg_types):
        loc[a] = (a, t)
    coqname = coqname or f"{cls_name}_{fn.name.strip('_') if fn.name.startswith('__') else fn.name}"
    # N7 + N8 only (an `else` after a returning branch; a guard on `A or B` = the guards on A and on B): the unmerged guard
    # sequence is the form /repo uses, so the merged forms give the same text.  Locals stay (`let`s), annotations stay.
    nfn = norm_function(fn, annotations=False, guards=False, accumulate=False, single_use=False, helpers=False, split_or=True)
    body = tr.body(nfn.body, loc, ret_ty, typed_other)
    env.methods[(cls_name, fn.name)] = (coqname, arg_types, ret_ty)
    params = f"(self : {cls_name})" + "".join(f" ({a} : {coq_type(t)})" for a, t in zip(args[1:], arg_types))
    return f"Definition {coqname} {params} : {coq_type(ret_ty)} :=\n  {body}.\n"


def coq_record(name, fields):
    fs = "; ".join(f"{name}_{f} : {coq_type(t)}" for f, t in fields.items())
    return f"Record {name} := Mk{name} {{ {fs} }}.\n"


def dataclass_fields(cls):
    """Annotated fields of a @dataclass in order: [(name, annotation-source)]"""
    out = []
    for s in cls.body:
        if isinstance(s, ast.AnnAssign) and isinstance(s.target, ast.Name):
            out.append((s.target.id, ast.unparse(s.annotation), s.value))
    return out


# =====================================================================================================================
# AST NORMALISATION  (pre-pass; conservative; every rewrite is semantics-preserving for the code the translator reads)
# =====================================================================================================================
# Purpose: strictly behaviour-preserving rewrites of the library (a hoisted local, an inlined temporary, a loop turned into a
# comprehension, a guard clause turned around, a private helper extracted, an annotation added) must reach the generators in
# ONE shape, so that they neither raise nor change the generated text.  Every pass below
#   * works on a deep copy (`norm_function`), never on the parsed tree that other sites pin literally;
#   * rewrites only when ALL its side conditions are verified syntactically; otherwise it leaves the code alone, and the
#     generator that meets the unrecognised shape still raises TranslateError (fail-closed is unchanged);
#   * never looks at what a generator would like to see: the conditions are about Python semantics only.
# Shared assumptions (the same ones the translators already make when they model attributes as record fields): loading a
# name, a constant or an attribute chain (`self.a.b`) has no side effect; zero-argument `super()` has no side effect.

_SIMPLE_STMTS = (ast.Return, ast.Expr, ast.Assign, ast.AnnAssign)
_OPAQUE_EXPRS = (ast.Lambda, ast.ListComp, ast.SetComp, ast.DictComp, ast.GeneratorExp, ast.Await, ast.Yield, ast.YieldFrom,
                 ast.NamedExpr, ast.JoinedStr, ast.FormattedValue)


def is_docstring(s):
    return isinstance(s, ast.Expr) and isinstance(s.value, ast.Constant) and isinstance(s.value.value, str)


def trivially_pure(e):
    """Name / constant / attribute chain / `super()`: evaluating it has no effect and cannot observe one made in between."""
    if isinstance(e, (ast.Constant,)):
        return True
    if isinstance(e, ast.Name):
        return isinstance(e.ctx, ast.Load)
    if isinstance(e, ast.Attribute):
        return isinstance(e.ctx, ast.Load) and trivially_pure(e.value)
    if isinstance(e, ast.Call) and isinstance(e.func, ast.Name) and e.func.id == 'super' and not e.args and not e.keywords:
        return True
    if isinstance(e, (ast.List, ast.Tuple)) and isinstance(e.ctx, ast.Load):
        # a display of trivially pure items builds a fresh object: no effect, and nothing evaluated in between can reach it
        return all(not isinstance(x, ast.Starred) and trivially_pure(x) for x in e.elts)
    return False


_PURE_BUILTINS = {'min', 'max', 'abs', 'len', 'int', 'float', 'bool', 'round'}
_PURE_MODULE_FUNCS = {('np', 'exp'), ('numpy', 'exp'), ('math', 'exp'), ('np', 'sqrt'), ('numpy', 'sqrt'), ('math', 'sqrt'),
                      ('np', 'log'), ('numpy', 'log'), ('math', 'log')}


def pure_expr(e):
    """Deterministic and effect-free: trivially pure leaves combined by operators and a few arithmetic builtins.  Such an
    expression may be evaluated earlier, later, once or several times without a visible difference."""
    if trivially_pure(e):
        return True
    if isinstance(e, ast.BinOp):
        return pure_expr(e.left) and pure_expr(e.right)
    if isinstance(e, ast.UnaryOp):
        return pure_expr(e.operand)
    if isinstance(e, ast.BoolOp):
        return all(pure_expr(v) for v in e.values)
    if isinstance(e, ast.Compare):
        return pure_expr(e.left) and all(pure_expr(c) for c in e.comparators)
    if isinstance(e, ast.IfExp):
        return pure_expr(e.test) and pure_expr(e.body) and pure_expr(e.orelse)
    if isinstance(e, (ast.Tuple, ast.List)):
        return isinstance(e.ctx, ast.Load) and all(pure_expr(x) for x in e.elts)
    if isinstance(e, ast.Call) and not e.keywords and all(pure_expr(a) for a in e.args):
        f = e.func
        if isinstance(f, ast.Name) and f.id in _PURE_BUILTINS:
            return True
        if isinstance(f, ast.Attribute) and isinstance(f.value, ast.Name) and (f.value.id, f.attr) in _PURE_MODULE_FUNCS:
            return True
    return False


def mentions(node_or_list, name):
    nodes = node_or_list if isinstance(node_or_list, list) else [node_or_list]
    return any(isinstance(x, ast.Name) and x.id == name for n in nodes for x in ast.walk(n))


def _other_binders(fn, name):
    """does `name` occur in `fn` as anything else than an ast.Name (parameter, import alias, def/class, except-as, global)?"""
    for x in ast.walk(fn):
        if isinstance(x, ast.arg) and x.arg == name:
            return True
        if isinstance(x, ast.alias) and (x.asname or x.name).split('.')[0] == name:
            return True
        if isinstance(x, (ast.FunctionDef, ast.AsyncFunctionDef, ast.ClassDef)) and x is not fn and x.name == name:
            return True
        if isinstance(x, ast.ExceptHandler) and x.name == name:
            return True
        if isinstance(x, (ast.Global, ast.Nonlocal)) and name in x.names:
            return True
    return False


def _occurrences(fn, name):
    return [x for x in ast.walk(fn) if isinstance(x, ast.Name) and x.id == name]


def bound_names(fn):
    """every name the function binds locally: parameters and stored names (anywhere inside, nested scopes included: safe side)"""
    out = set()
    for x in ast.walk(fn):
        if isinstance(x, ast.arg):
            out.add(x.arg)
        elif isinstance(x, ast.Name) and isinstance(x.ctx, (ast.Store, ast.Del)):
            out.add(x.id)
        elif isinstance(x, ast.alias):
            out.add((x.asname or x.name).split('.')[0])
        elif isinstance(x, ast.ExceptHandler) and x.name:
            out.add(x.name)
        elif isinstance(x, (ast.FunctionDef, ast.AsyncFunctionDef, ast.ClassDef)) and x is not fn:
            out.add(x.name)
    return out


def sub_blocks(stmt):
    """the statement lists directly nested in a compound statement (nested defs / classes are NOT entered)"""
    out = []
    if isinstance(stmt, (ast.If, ast.For, ast.AsyncFor, ast.While)):
        out += [stmt.body, stmt.orelse]
    elif isinstance(stmt, (ast.With, ast.AsyncWith)):
        out.append(stmt.body)
    elif isinstance(stmt, ast.Try):
        out += [stmt.body, stmt.orelse, stmt.finalbody] + [h.body for h in stmt.handlers]
    return out


def all_blocks(fn):
    """every statement list of the function's own scope, outermost first"""
    out, todo = [], [fn.body]
    while todo:
        b = todo.pop(0)
        out.append(b)
        for s in b:
            todo += sub_blocks(s)
    return out


# ---------------------------------------------------------------------------------------------------------------------
# (N1) annotated assignment -> assignment
# PEP 526: inside a function body the annotation of a local name or of an attribute target is neither evaluated nor
# stored; `x: T = e` and `self.a: T = e` execute exactly like `x = e` / `self.a = e`.  Class-level and module-level
# annotated assignments (dataclass fields!) are NOT touched: this pass only runs on function bodies.
def norm_annotations(fn):
    for block in all_blocks(fn):
        for i, s in enumerate(block):
            if isinstance(s, ast.AnnAssign) and s.value is not None and isinstance(s.target, (ast.Name, ast.Attribute)):
                block[i] = ast.copy_location(ast.Assign(targets=[s.target], value=s.value, type_comment=None), s)
    return fn


# ---------------------------------------------------------------------------------------------------------------------
# (N2) negation of a condition, De Morgan
# `not (A and B)` == `not A or not B`, `not (A or B)` == `not A and not B`: same operands evaluated in the same order with
# the same short-circuit points, same truth value.  `not (x is None)` == `x is not None` and `not (x in l)` == `x not in l`
# by the language definition (both pairs are defined as each other's negation).  Other comparisons (`==`, `<`) may be
# overloaded independently of their opposite, so they are wrapped in `not` rather than flipped.  Only valid where the
# value is used as a truth value (an `if` test, a comprehension filter): callers use it only there.
_FLIP = {ast.Is: ast.IsNot, ast.IsNot: ast.Is, ast.In: ast.NotIn, ast.NotIn: ast.In}


def negate(e):
    if isinstance(e, ast.UnaryOp) and isinstance(e.op, ast.Not):
        return e.operand
    if isinstance(e, ast.BoolOp):
        op = ast.Or() if isinstance(e.op, ast.And) else ast.And()
        return ast.copy_location(ast.BoolOp(op=op, values=[negate(v) for v in e.values]), e)
    if isinstance(e, ast.Compare) and len(e.ops) == 1 and type(e.ops[0]) in _FLIP:
        return ast.copy_location(ast.Compare(left=e.left, ops=[_FLIP[type(e.ops[0])]()], comparators=e.comparators), e)
    return ast.copy_location(ast.UnaryOp(op=ast.Not(), operand=e), e)


def always_exits(stmts):
    """every path through the block ends in `return` or `raise`"""
    if not stmts:
        return False
    s = stmts[-1]
    if isinstance(s, (ast.Return, ast.Raise)):
        return True
    if isinstance(s, ast.If):
        return always_exits(s.body) and always_exits(s.orelse)
    return False


# (N3) guard clauses
#     if C: B          (no else; B always returns/raises)            if not C: R
#     R                (R always returns/raises)               ==    B
# Both run B when C holds and R otherwise, and neither falls through.  Canonical form: the test is NOT a disjunction and
# NOT a negation, i.e. `if not-A or not-B: return Y; X` and `if not (A and B): return Y; X` become `if A and B: X; return Y`.
# A test that is already a conjunction / an atom is left as written (so the shapes present in /repo stay untouched).
def norm_guards(block):
    i = 0
    while i < len(block):
        s = block[i]
        if (isinstance(s, ast.If) and not s.orelse and isinstance(s.test, (ast.BoolOp, ast.UnaryOp))
                and (isinstance(s.test, ast.UnaryOp) and isinstance(s.test.op, ast.Not)
                     or isinstance(s.test, ast.BoolOp) and isinstance(s.test.op, ast.Or))
                and always_exits(s.body) and always_exits(block[i + 1:])):
            rest = block[i + 1:]
            block[i:] = [ast.copy_location(ast.If(test=negate(s.test), body=rest, orelse=[]), s)] + s.body
            continue        # look at the same position again (the new test may still be a negation)
        for b in sub_blocks(s):
            norm_guards(b)
        i += 1
    return block


# ---------------------------------------------------------------------------------------------------------------------
# (N4) a local bound once and used once, in the next statement  ->  substituted
#     x = E                                  S[E]
#     S[x]          (S a simple statement)
# Conditions: `x` occurs in the whole function exactly twice (this store, one load) and is bound in no other way; the load
# is in the statement that immediately follows, at a position that is evaluated exactly once and unconditionally (not under
# `and`/`or`/`if-else`/lambda/comprehension/f-string, not behind `*`/`**` arguments); and everything that S evaluates BEFORE
# reaching that position is trivially pure.  Then E is evaluated in the same state and in the same order relative to every
# other non-trivial evaluation as before, and nothing else can see `x`.  (E itself may be anything, e.g. a `.copy(...)`
# call or a list of constructor calls: it is moved past trivially pure loads only.)
class _Found(Exception):
    pass


def _eval_children(e):
    """sub-expressions in evaluation order, as (child, strict) -- strict = evaluated exactly once, unconditionally.
    None = node type whose evaluation order we do not model."""
    if isinstance(e, ast.Attribute):
        return [(e.value, True)]
    if isinstance(e, ast.Call):
        if any(isinstance(a, ast.Starred) for a in e.args) or any(k.arg is None for k in e.keywords):
            return None
        return [(e.func, True)] + [(a, True) for a in e.args] + [(k.value, True) for k in e.keywords]
    if isinstance(e, ast.BinOp):
        return [(e.left, True), (e.right, True)]
    if isinstance(e, ast.UnaryOp):
        return [(e.operand, True)]
    if isinstance(e, ast.Compare):
        return [(e.left, True), (e.comparators[0], True)] + [(c, False) for c in e.comparators[1:]]
    if isinstance(e, ast.BoolOp):
        return [(e.values[0], True)] + [(v, False) for v in e.values[1:]]
    if isinstance(e, ast.IfExp):
        return [(e.test, True), (e.body, False), (e.orelse, False)]
    if isinstance(e, ast.Subscript):
        return [(e.value, True), (e.slice, True)]
    if isinstance(e, ast.Slice):
        return [(x, True) for x in (e.lower, e.upper, e.step) if x is not None]
    if isinstance(e, (ast.List, ast.Tuple, ast.Set)):
        if any(isinstance(x, ast.Starred) for x in e.elts):
            return None
        return [(x, True) for x in e.elts]
    if isinstance(e, ast.Dict):
        if any(k is None for k in e.keys):
            return None
        return [x for k, v in zip(e.keys, e.values) for x in ((k, True), (v, True))]
    if isinstance(e, (ast.Name, ast.Constant)):
        return []
    return None


def _reachable_first(e, name):
    """True iff the (single) load of `name` inside `e` is reached strictly and only trivially pure expressions are
    evaluated before it."""
    if isinstance(e, ast.Name) and e.id == name:
        return isinstance(e.ctx, ast.Load)
    ch = _eval_children(e)
    if ch is None:
        return False
    for c, strict in ch:
        if mentions(c, name):
            return strict and _reachable_first(c, name)
        if not trivially_pure(c):
            return False
    return False


class _ReplaceName(ast.NodeTransformer):
    def __init__(self, name, value):
        self.name, self.value, self.count = name, value, 0

    def visit_Name(self, n):
        if n.id == self.name and isinstance(n.ctx, ast.Load):
            self.count += 1
            return self.value
        return n


def _local_def(s, allow_ann):
    """`x = E` / `x: T = E` -> (x, E) else None"""
    if isinstance(s, ast.Assign) and len(s.targets) == 1 and isinstance(s.targets[0], ast.Name):
        return s.targets[0].id, s.value
    if allow_ann and isinstance(s, ast.AnnAssign) and isinstance(s.target, ast.Name) and s.value is not None:
        return s.target.id, s.value
    return None


def subst_single_use(fn, block, i, allow_ann=True):
    """Try (N4) for the local defined by block[i]; on success block[i] is removed and True is returned."""
    d = _local_def(block[i], allow_ann)
    if d is None or i + 1 >= len(block):
        return False
    x, value = d
    nxt = block[i + 1]
    if not isinstance(nxt, _SIMPLE_STMTS) or getattr(nxt, 'value', None) is None:
        return False
    occ = _occurrences(fn, x)
    if len(occ) != 2 or sum(isinstance(o.ctx, ast.Load) for o in occ) != 1 or _other_binders(fn, x):
        return False
    if mentions(value, x) or not _reachable_first(nxt.value, x):
        return False
    r = _ReplaceName(x, value)
    nxt.value = r.visit(nxt.value)
    if r.count != 1:
        raise TranslateError(f"normalisation: internal error substituting {x}")
    del block[i]
    return True


def norm_single_use(fn, allow_ann=True):
    """(N4) to a fixpoint, bottom-up inside each block (so that `a = E1; b = E2; return f(a, b)` is resolved b first)."""
    changed = True
    while changed:
        changed = False
        for block in all_blocks(fn):
            for i in range(len(block) - 2, -1, -1):
                if i + 1 < len(block) and subst_single_use(fn, block, i, allow_ann):
                    changed = True
    return fn


# ---------------------------------------------------------------------------------------------------------------------
# (N5) accumulate loop -> list comprehension
#     r = []                                   (statements that do not mention r)
#     (statements that do not mention r)       r = [e for x in it if not c]
#     for x in it:
#         [if c: continue]
#         r.append(e)
# The comprehension evaluates `it` once, then for each element c and e in the same order and appends in the same order.
# Differences between the two forms, each excluded by a check: the loop variable outlives a loop but not a comprehension
# (x must not occur outside the loop); r is visible while the loop runs (it, c, e must not mention r); after an exception a
# partial r is visible to a handler (no handler / finally of the function may mention r); creating the empty list later is
# invisible because nothing in between mentions r.  If the statement after the loop uses r exactly once, (N4) applies.
def _append_of(s, r):
    if (isinstance(s, ast.Expr) and isinstance(s.value, ast.Call) and isinstance(s.value.func, ast.Attribute)
            and s.value.func.attr == 'append' and isinstance(s.value.func.value, ast.Name) and s.value.func.value.id == r
            and len(s.value.args) == 1 and not s.value.keywords and not isinstance(s.value.args[0], ast.Starred)):
        return s.value.args[0]
    e = append_one(s, r)
    return e


def append_one(s, r):
    """`r.append(e)` or `r += [e]` as a statement -> e, else None.  The two are the same operation ONLY when r is a list (both
    then append e to the same object in place; for a tuple or an array `+=` means something else), so callers use this only
    where r is known to be bound to a list (N5: r was bound to `[]` and not mentioned since)."""
    if (isinstance(s, ast.Expr) and isinstance(s.value, ast.Call) and isinstance(s.value.func, ast.Attribute)
            and s.value.func.attr == 'append' and isinstance(s.value.func.value, ast.Name) and s.value.func.value.id == r
            and len(s.value.args) == 1 and not s.value.keywords and not isinstance(s.value.args[0], ast.Starred)):
        return s.value.args[0]
    if (isinstance(s, ast.AugAssign) and isinstance(s.op, ast.Add) and isinstance(s.target, ast.Name) and s.target.id == r
            and isinstance(s.value, ast.List) and len(s.value.elts) == 1 and not isinstance(s.value.elts[0], ast.Starred)):
        return s.value.elts[0]
    return None


def _target_names(t):
    if isinstance(t, ast.Name):
        return [t.id]
    if isinstance(t, (ast.Tuple, ast.List)):
        out = []
        for e in t.elts:
            sub = _target_names(e)
            if sub is None:
                return None
            out += sub
        return out
    return None


def _accumulate_at(fn, block, i):
    s = block[i]
    tgt = s.targets[0] if isinstance(s, ast.Assign) and len(s.targets) == 1 else (s.target if isinstance(s, ast.AnnAssign) else None)
    if not (isinstance(tgt, ast.Name) and isinstance(s.value, ast.List) and not s.value.elts):
        return False
    r = tgt.id
    j = i + 1
    while j < len(block) and not mentions(block[j], r):
        j += 1
    if j >= len(block) or not isinstance(block[j], ast.For):
        return False
    loop = block[j]
    body = [b for b in loop.body if not is_docstring(b)]
    names = _target_names(loop.target)
    if loop.orelse or names is None or len(body) not in (1, 2):
        return False
    cond = None
    if len(body) == 2:
        g = body[0]
        if not (isinstance(g, ast.If) and not g.orelse and len(g.body) == 1 and isinstance(g.body[0], ast.Continue)):
            return False
        cond = g.test
    elt = _append_of(body[-1], r)
    if elt is None:
        return False
    parts = [loop.iter, elt] + ([cond] if cond is not None else [])
    if any(mentions(p, r) for p in parts):
        return False
    if any(isinstance(x, _OPAQUE_EXPRS) for p in [elt] + ([cond] if cond is not None else []) for x in ast.walk(p)):
        return False
    for n in names:       # the loop variable must be private to the loop
        inside = sum(1 for x in ast.walk(loop) if isinstance(x, ast.Name) and x.id == n)
        if n == r or len(_occurrences(fn, n)) != inside or _other_binders(fn, n):
            return False
    if _other_binders(fn, r):
        return False
    for t in ast.walk(fn):
        if isinstance(t, ast.Try) and (mentions(t.finalbody, r) or any(mentions(h, r) for h in t.handlers)):
            return False
    comp = ast.ListComp(elt=elt, generators=[ast.comprehension(target=loop.target, iter=loop.iter,
                                                                ifs=[negate(cond)] if cond is not None else [], is_async=0)])
    new = ast.Assign(targets=[ast.Name(id=r, ctx=ast.Store())], value=comp, type_comment=None)
    ast.copy_location(new, loop)
    ast.copy_location(new.targets[0], loop)
    ast.copy_location(comp, loop)
    block[j] = new
    del block[i]
    subst_single_use(fn, block, j - 1, allow_ann=False)
    return True


def norm_accumulate(fn):
    changed = True
    while changed:
        changed = False
        for block in all_blocks(fn):
            for i in range(len(block)):
                if isinstance(block[i], (ast.Assign, ast.AnnAssign)) and _accumulate_at(fn, block, i):
                    changed = True
                    break
            if changed:
                break
    return fn


# ---------------------------------------------------------------------------------------------------------------------
# (N6) calls of private helpers -> inlined
# A call `_h(a1, ..)` of a module-level function, or `self._m(a1, ..)` of a method of the same class, whose name starts with
# one underscore and whose body is `return <expr>` (expression form) or straight-line simple statements ending in the only
# `return <expr>` (statement form, accepted only where the call is the whole right-hand side / returned value / expression
# of a simple statement), is replaced by the body with the parameters replaced by the arguments.
# Conditions: the helper is defined exactly once, undecorated, with plain positional parameters that the call binds exactly
# once each; it is not recursive; for methods no other class of the module defines the same name (`self._m` then denotes
# this definition for the instances the generators model; a subclass outside the module overriding a private method is
# outside the closed world the generators pin); the arguments are pure expressions (expression form: they may then be
# evaluated where and as often as the parameter occurs) resp. names or constants (statement form: a name denotes the same
# object at every later point because the helper's own locals are required to be disjoint from every name of the caller, so
# nothing rebinds it); free names of the helper (globals, builtins) are not bound locally in the caller, and the helper's
# expression contains no binder (lambda / comprehension) that could capture an argument.
class _SubstParams(ast.NodeTransformer):
    def __init__(self, table):
        self.table = table

    def visit_Name(self, n):
        if n.id in self.table and isinstance(n.ctx, ast.Load):
            import copy
            return copy.deepcopy(self.table[n.id])
        return n


def _helper_shape(h, method):
    """-> (params, statements, return-expression) or None"""
    a = h.args
    if h.decorator_list or a.vararg or a.kwarg or a.kwonlyargs or a.defaults or a.kw_defaults or a.posonlyargs:
        return None
    params = [x.arg for x in a.args]
    if method:
        if not params or params[0] != 'self':
            return None
        params = params[1:]
    body = [s for s in h.body if not is_docstring(s)]
    if not body or not isinstance(body[-1], ast.Return) or body[-1].value is None:
        return None
    for x in ast.walk(h):
        if isinstance(x, (ast.Return,)) and x is not body[-1]:
            return None
        if isinstance(x, (ast.Yield, ast.YieldFrom, ast.Await, ast.Global, ast.Nonlocal, ast.FunctionDef, ast.AsyncFunctionDef,
                          ast.ClassDef, ast.Lambda)) and x is not h:
            return None
    for s in body[:-1]:
        if not isinstance(s, (ast.Assign, ast.AnnAssign, ast.Expr)):
            return None
    stored = {x.id for x in ast.walk(h) if isinstance(x, ast.Name) and isinstance(x.ctx, (ast.Store, ast.Del))}
    if stored & (set(params) | {'self'}):
        return None
    return params, body[:-1], body[-1].value


def _bind_args(call, params):
    if any(isinstance(x, ast.Starred) for x in call.args) or any(k.arg is None for k in call.keywords):
        return None
    if len(call.args) > len(params):
        return None
    table = dict(zip(params, call.args))
    for k in call.keywords:
        if k.arg not in params or k.arg in table:
            return None
        table[k.arg] = k.value
    return table if set(table) == set(params) else None


def _helper_of(call, module, cls):
    """the definition a call denotes, as (FunctionDef, is_method), or None"""
    f = call.func
    if isinstance(f, ast.Name) and f.id.startswith('_') and not f.id.startswith('__'):
        defs = [n for n in module.body if isinstance(n, ast.FunctionDef) and n.name == f.id]
        rebound = [n for n in ast.walk(module) if isinstance(n, ast.Name) and n.id == f.id and isinstance(n.ctx, (ast.Store, ast.Del))]
        if len(defs) == 1 and not rebound:
            return defs[0], False
    if (cls is not None and isinstance(f, ast.Attribute) and isinstance(f.value, ast.Name) and f.value.id == 'self'
            and f.attr.startswith('_') and not f.attr.startswith('__')):
        defs = [n for n in cls.body if isinstance(n, ast.FunctionDef) and n.name == f.attr]
        elsewhere = [n for c in module.body if isinstance(c, ast.ClassDef) and c is not cls
                     for n in c.body if isinstance(n, ast.FunctionDef) and n.name == f.attr]
        assigned = [n for n in ast.walk(module) if isinstance(n, ast.Attribute) and n.attr == f.attr and isinstance(n.ctx, (ast.Store, ast.Del))]
        if len(defs) == 1 and not elsewhere and not assigned:
            return defs[0], True
    return None


def _inline_once(fn, module, cls):
    import copy
    caller_bound = bound_names(fn)
    caller_names = caller_bound | {x.id for x in ast.walk(fn) if isinstance(x, ast.Name)}

    def plan(call, statement_form):
        hd = _helper_of(call, module, cls)
        if hd is None or hd[0] is fn:
            return None
        h, method = hd
        shape = _helper_shape(h, method)
        if shape is None:
            return None
        params, stmts, ret = shape
        if stmts and not statement_form:
            return None
        if any(isinstance(x, ast.Call) and _helper_of(x, module, cls) is not None and _helper_of(x, module, cls)[0] is h
               for x in ast.walk(h)):
            return None                                         # recursive
        table = _bind_args(call, params)
        if table is None:
            return None
        helper_locals = bound_names(h) - set(params) - {'self'}
        helper_free = {x.id for x in ast.walk(h) if isinstance(x, ast.Name)} - set(params) - {'self'} - helper_locals
        if helper_free & caller_bound or helper_locals & caller_names:
            return None
        if stmts:
            if not all(isinstance(a, (ast.Name, ast.Constant)) for a in table.values()):
                return None
        else:
            if not all(pure_expr(a) for a in table.values()) or any(isinstance(x, _OPAQUE_EXPRS) for x in ast.walk(ret)):
                return None
        sub = _SubstParams(table)
        return [sub.visit(copy.deepcopy(s)) for s in stmts], sub.visit(copy.deepcopy(ret))

    for block in all_blocks(fn):
        for i, s in enumerate(block):
            # statement form: the call is the whole value of a simple statement
            if isinstance(s, _SIMPLE_STMTS) and isinstance(getattr(s, 'value', None), ast.Call):
                p = plan(s.value, True)
                if p is not None:
                    s.value = p[1]
                    block[i:i] = p[0]
                    return True
    # expression form, anywhere
    class T(ast.NodeTransformer):
        done = False

        def visit_Call(self, n):
            self.generic_visit(n)
            if not self.done:
                p = plan(n, False)
                if p is not None:
                    self.done = True
                    return p[1]
            return n

        def visit_FunctionDef(self, n):
            return self.generic_visit(n) if n is fn else n

        def visit_Lambda(self, n):
            return n
    t = T()
    t.visit(fn)
    return t.done


def norm_inline_helpers(fn, module, cls=None, limit=12):
    n = 0
    while n < limit and _inline_once(fn, module, cls):
        n += 1
    return fn


# ---------------------------------------------------------------------------------------------------------------------
# (N7) `else` after a branch that always leaves
#     if C: B            (B always returns/raises)         if C: B
#     else: E                                        ==    E
# When C holds, B runs and leaves in both forms; otherwise E runs, followed by whatever follows.  Applied repeatedly this
# turns an `if/elif/.../else` chain whose branches all return into the sequence of guards it abbreviates.  An `if` whose body
# can fall through (e.g. the enum chains that assign a variable) is left alone.
def norm_flatten_else(block):
    i = 0
    while i < len(block):
        s = block[i]
        if isinstance(s, ast.If) and s.orelse and always_exits(s.body):
            tail, s.orelse = s.orelse, []
            block[i + 1:i + 1] = tail
        for b in sub_blocks(s):
            norm_flatten_else(b)
        i += 1
    return block


# (N8) a guard on a disjunction is the sequence of guards on the disjuncts
#     if A or B: S       (no else; S always returns/raises)   ==   if A: S
#                                                                  if B: S
# `A or B` evaluates A, and B only when A is false; so does the sequence (S leaves when A holds).  S is copied.  This is the
# direction in which /repo writes its guards, so merged guards get the text of the unmerged ones.
def norm_split_or(block):
    import copy
    i = 0
    while i < len(block):
        s = block[i]
        if (isinstance(s, ast.If) and not s.orelse and isinstance(s.test, ast.BoolOp) and isinstance(s.test.op, ast.Or)
                and always_exits(s.body)):
            block[i:i + 1] = [ast.copy_location(ast.If(test=v, body=copy.deepcopy(s.body), orelse=[]), s) for v in s.test.values]
            continue
        for b in sub_blocks(s):
            norm_split_or(b)
        i += 1
    return block


# (N9) a number computed once and used once further down (e.g. hoisted out of a loop)  ->  substituted
#     x = E                      (E: + - * and unary minus over numeric constants and names)
#     ... S[x] ...               (one use, anywhere inside a LATER statement of the same block, also inside its loops / branches)
# Conditions: every name in E is bound exactly once in the function, by a parameter or an assignment annotated `int` / `float`
# (numbers are immutable, so the value E had at the definition can only change by rebinding one of its names); none of these
# names is stored to between the definition and the end of the statement containing the use (any execution from the
# definition to the use stays inside these statements, and re-entering them from a surrounding loop passes the definition
# again); `x` occurs exactly twice in the function (this store, that load) and is bound in no other way; the use is not
# inside a lambda / nested def / comprehension.  E cannot raise (no division, no power, no call) and has no effect, so it may
# be evaluated later, conditionally and repeatedly.  Must run before N1 (it reads the annotations).
_NUM_ANN = ('int', 'float')


def _numeric_arith(e):
    if isinstance(e, ast.Constant):
        return isinstance(e.value, (int, float)) and not isinstance(e.value, bool)
    if isinstance(e, ast.Name):
        return isinstance(e.ctx, ast.Load)
    if isinstance(e, ast.BinOp) and isinstance(e.op, (ast.Add, ast.Sub, ast.Mult)):
        return _numeric_arith(e.left) and _numeric_arith(e.right)
    if isinstance(e, ast.UnaryOp) and isinstance(e.op, ast.USub):
        return _numeric_arith(e.operand)
    return False


def _numeric_name(fn, n):
    """`n` is bound exactly once in fn, as a parameter or by an annotated assignment, with annotation int / float"""
    stores = [x for x in _occurrences(fn, n) if isinstance(x.ctx, (ast.Store, ast.Del))]
    params = [a for a in ast.walk(fn) if isinstance(a, ast.arg) and a.arg == n]
    own = fn.args.posonlyargs + fn.args.args + fn.args.kwonlyargs
    if len(params) == 1 and not stores and params[0] in own:
        a = params[0].annotation
        return isinstance(a, ast.Name) and a.id in _NUM_ANN
    if params or len(stores) != 1:
        return False
    for x in ast.walk(fn):
        if isinstance(x, ast.AnnAssign) and x.target is stores[0] and x.value is not None:
            return isinstance(x.annotation, ast.Name) and x.annotation.id in _NUM_ANN and not _other_binders(fn, n)
    return False


def _under_opaque(root, target):
    """is `target` (a node inside `root`) under a lambda / nested def / comprehension?"""
    def go(n, opaque):
        if n is target:
            return opaque
        o = opaque or isinstance(n, (ast.Lambda, ast.FunctionDef, ast.AsyncFunctionDef, ast.ClassDef, ast.ListComp, ast.SetComp,
                                     ast.DictComp, ast.GeneratorExp))
        for c in ast.iter_child_nodes(n):
            r = go(c, o)
            if r is not None:
                return r
        return None
    return go(root, False)


def norm_numeric_locals(fn):
    changed = True
    while changed:
        changed = False
        for block in all_blocks(fn):
            for i, s in enumerate(block):
                d = _local_def(s, True)
                if d is None:
                    continue
                x, value = d
                if not _numeric_arith(value) or isinstance(value, (ast.Name, ast.Constant)) or mentions(value, x):
                    continue
                occ = _occurrences(fn, x)
                loads = [o for o in occ if isinstance(o.ctx, ast.Load)]
                if len(occ) != 2 or len(loads) != 1 or _other_binders(fn, x):
                    continue
                js = [j for j in range(i + 1, len(block)) if any(o is loads[0] for o in ast.walk(block[j]))]
                if len(js) != 1:
                    continue
                j = js[0]
                names = {n.id for n in ast.walk(value) if isinstance(n, ast.Name)}
                if not all(_numeric_name(fn, n) for n in names):
                    continue
                between = block[i + 1:j + 1]
                if any(isinstance(o, ast.Name) and o.id in names and not isinstance(o.ctx, ast.Load) for b in between for o in ast.walk(b)):
                    continue
                if _under_opaque(block[j], loads[0]) is not False:
                    continue
                r = _ReplaceName(x, value)
                block[j] = r.visit(block[j])
                if r.count != 1:
                    raise TranslateError(f"normalisation: internal error substituting {x}")
                del block[i]
                changed = True
                break
            if changed:
                break
    return fn


# ---------------------------------------------------------------------------------------------------------------------
def norm_function(fn, module=None, cls=None, annotations=True, guards=True, accumulate=True, single_use=True, helpers=True,
                  flatten_else=True, split_or=False, numeric_locals=False):
    """Deep copy of `fn` in normal form.  Each generator chooses the passes that are neutral for what it emits (e.g. the
    kernel translator keeps annotations, which it reads as types, and keeps single-use locals, which it emits as `let`)."""
    import copy
    try:
        fn = copy.deepcopy(fn)
        if helpers and module is not None:
            norm_inline_helpers(fn, module, cls)
        if flatten_else:
            norm_flatten_else(fn.body)
        if numeric_locals:
            norm_numeric_locals(fn)
        if single_use:
            norm_single_use(fn)             # first: a temporary inside a loop body may hide an accumulate loop
        if accumulate:
            norm_accumulate(fn)
        if annotations:
            norm_annotations(fn)
        if single_use:
            norm_single_use(fn)
        if guards:
            norm_guards(fn.body)
        if split_or:
            norm_split_or(fn.body)
        ast.fix_missing_locations(fn)
        return fn
    except TranslateError:
        raise
    except Exception as e:      # fail closed: a defect of the pre-pass is a broken tie, never a crash of the shared run
        raise TranslateError(f"normalisation of {getattr(fn, 'name', '?')}: {type(e).__name__}: {e}")
