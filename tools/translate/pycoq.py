"""Fail-closed translator for a closed subset of Python (via `ast`) into Gallina text.

Only the shapes listed here are recognised; anything else raises TranslateError, which the check
reports as a broken tie (never skipped).  No module of /repo is imported: the source text is parsed.

Types tracked:  'Z' | 'bool' | 'string' | ('enum', N) | ('rec', N) | ('list', T) | ('vec',)  (numpy int vector)
"""
import ast
import hashlib


class TranslateError(Exception):
    pass


def fail(node, msg):
    ln = getattr(node, 'lineno', '?')
    raise TranslateError(f"line {ln}: {msg}: {ast.dump(node)[:200] if isinstance(node, ast.AST) else node}")


def sha256_file(path):
    return hashlib.sha256(open(path, 'rb').read()).hexdigest()


def parse_file(path):
    return ast.parse(open(path).read(), filename=path)


def find_class(tree, name):
    for n in tree.body:
        if isinstance(n, ast.ClassDef) and n.name == name:
            return n
    raise TranslateError(f"class {name} not found")


def find_func(tree_or_class, name):
    for n in tree_or_class.body:
        if isinstance(n, (ast.FunctionDef,)) and n.name == name:
            return n
    raise TranslateError(f"function {name} not found")


def decorators(fn):
    out = []
    for d in fn.decorator_list:
        if isinstance(d, ast.Name):
            out.append(d.id)
        elif isinstance(d, ast.Attribute):
            out.append(d.attr)
        elif isinstance(d, ast.Call):
            f = d.func
            out.append(f.id if isinstance(f, ast.Name) else f.attr)
    return out


def enum_members(cls):
    """`class X(Enum): A = auto() ...` -> ['A', ...] (docstrings skipped)."""
    out = []
    for s in cls.body:
        if isinstance(s, ast.Expr) and isinstance(s.value, ast.Constant) and isinstance(s.value.value, str):
            continue
        if isinstance(s, ast.Assign) and len(s.targets) == 1 and isinstance(s.targets[0], ast.Name):
            out.append(s.targets[0].id)
            continue
        fail(s, "unexpected statement in enum")
    return out


def coq_enum(name, members):
    lines = [f"Inductive {name} := " + " | ".join(f"{name}_{m}" for m in members) + "."]
    lines.append(f"Definition {name}_eqb (a b : {name}) : bool :=")
    lines.append("  match a, b with")
    for m in members:
        lines.append(f"  | {name}_{m}, {name}_{m} => true")
    lines.append("  | _, _ => false")
    lines.append("  end.")
    lines.append(f"Definition {name}_all : list {name} := [" + "; ".join(f"{name}_{m}" for m in members) + "].")
    return "\n".join(lines) + "\n"


def coq_type(t):
    if t in ('Z', 'bool', 'string'):
        return t
    if t[0] in ('enum', 'rec'):
        return t[1]
    if t[0] == 'list':
        return f"(list {coq_type(t[1])})"
    if t[0] == 'vec':
        return "(list Z)"
    raise TranslateError(f"no coq type for {t}")


class Env:
    """Translation context: known enums, records (field types), methods (signature), locals."""

    def __init__(self):
        self.enums = {}        # name -> members
        self.records = {}      # name -> {field: type}
        self.methods = {}      # (cls, name) -> (coqname, [argtypes], rettype)
        self.attr_alias = {}   # (cls, attr) -> handler(self_text) -> (text, type)   (special attributes)
        self.funcs = {}        # python function name -> (coqname, rettype)

    def eqb(self, t):
        if t == 'Z':
            return 'Z.eqb'
        if t == 'bool':
            return 'Bool.eqb'
        if t == 'string':
            return 'String.eqb'
        if t[0] == 'enum':
            return f"{t[1]}_eqb"
        if t[0] == 'rec' and (t[1], '__eq__') in self.methods:
            return self.methods[(t[1], '__eq__')][0]
        raise TranslateError(f"no equality for type {t}")


class FnTranslator:
    def __init__(self, env, cls_name=None):
        self.env = env
        self.cls = cls_name

    # ---------------------------------------------------------------- expressions
    def expr(self, n, loc):
        env = self.env
        if isinstance(n, ast.Constant):
            if n.value is True:
                return "true", 'bool'
            if n.value is False:
                return "false", 'bool'
            if isinstance(n.value, int):
                return (f"{n.value}" if n.value >= 0 else f"({n.value})"), 'Z'
            if isinstance(n.value, float) and n.value == int(n.value):
                return f"{int(n.value)}", 'Z'
            if isinstance(n.value, str):
                return '"' + n.value + '"', 'string'
            fail(n, "constant")
        if isinstance(n, ast.Name):
            if n.id in loc:
                return loc[n.id]
            fail(n, "unknown name")
        if isinstance(n, ast.Attribute):
            # Enum member
            if isinstance(n.value, ast.Name) and n.value.id in env.enums:
                if n.attr not in env.enums[n.value.id]:
                    fail(n, "unknown enum member")
                return f"{n.value.id}_{n.attr}", ('enum', n.value.id)
            vt, vty = self.expr(n.value, loc)
            return self.attr(n, vt, vty, n.attr)
        if isinstance(n, ast.UnaryOp):
            if isinstance(n.op, ast.Not):
                t, ty = self.expr(n.operand, loc)
                self.want(n, ty, 'bool')
                return f"(negb {t})", 'bool'
            if isinstance(n.op, ast.USub):
                t, ty = self.expr(n.operand, loc)
                self.want(n, ty, 'Z')
                return f"(- {t})", 'Z'
            fail(n, "unary op")
        if isinstance(n, ast.BoolOp):
            parts = [self.expr(v, loc) for v in n.values]
            for _, ty in parts:
                self.want(n, ty, 'bool')
            op = "&&" if isinstance(n.op, ast.And) else "||"
            return "(" + f" {op} ".join(p for p, _ in parts) + ")", 'bool'
        if isinstance(n, ast.BinOp):
            a, aty = self.expr(n.left, loc)
            b, bty = self.expr(n.right, loc)
            if isinstance(n.op, ast.Add):
                if aty == 'Z' and bty == 'Z':
                    return f"({a} + {b})", 'Z'
                if aty == 'Z' and bty == ('vec',):
                    return f"(map (fun i_ => {a} + i_) {b})", ('vec',)
                if aty[0] == 'list' and aty == bty:
                    return f"({a} ++ {b})", aty
                fail(n, f"add on {aty} {bty}")
            if aty == 'Z' and bty == 'Z':
                if isinstance(n.op, ast.Sub):
                    return f"({a} - {b})", 'Z'
                if isinstance(n.op, ast.Mult):
                    return f"({a} * {b})", 'Z'
                if isinstance(n.op, ast.FloorDiv):
                    return f"({a} / {b})", 'Z'
                if isinstance(n.op, ast.Mod):
                    return f"({a} mod {b})", 'Z'
            fail(n, f"binop on {aty} {bty}")
        if isinstance(n, ast.Compare):
            if len(n.ops) != 1:
                fail(n, "chained comparison")
            a, aty = self.expr(n.left, loc)
            b, bty = self.expr(n.comparators[0], loc)
            op = n.ops[0]
            if isinstance(op, (ast.In, ast.NotIn)):
                if bty[0] != 'list' or bty[1] != aty:
                    fail(n, f"membership {aty} in {bty}")
                r = f"(existsb (fun y_ => {self.env.eqb(aty)} y_ {a}) {b})"
                # NB python `x in l` evaluates  y == x  for y in l  (falls back to reflected); we keep y first
                return (r if isinstance(op, ast.In) else f"(negb {r})"), 'bool'
            if aty != bty:
                fail(n, f"comparison of {aty} with {bty}")
            if isinstance(op, (ast.Eq, ast.NotEq)):
                r = f"({self.env.eqb(aty)} {a} {b})"
                return (r if isinstance(op, ast.Eq) else f"(negb {r})"), 'bool'
            if aty == 'Z':
                tab = {ast.Lt: f"({a} <? {b})", ast.LtE: f"({a} <=? {b})", ast.Gt: f"({a} >? {b})", ast.GtE: f"({a} >=? {b})"}
                for k, v in tab.items():
                    if isinstance(op, k):
                        return v, 'bool'
            fail(n, "comparison")
        if isinstance(n, ast.IfExp):
            c, cty = self.expr(n.test, loc)
            self.want(n, cty, 'bool')
            a, aty = self.expr(n.body, loc)
            b, bty = self.expr(n.orelse, loc)
            if aty != bty:
                fail(n, "if-expression branches differ in type")
            return f"(if {c} then {a} else {b})", aty
        if isinstance(n, ast.List):
            parts = [self.expr(e, loc) for e in n.elts]
            if not parts:
                return "[]", ('list', '?')
            ty = parts[0][1]
            for _, t in parts:
                if t != ty:
                    fail(n, "heterogeneous list")
            return "[" + "; ".join(p for p, _ in parts) + "]", ('list', ty)
        if isinstance(n, ast.Call):
            return self.call(n, loc)
        fail(n, "expression shape not supported")

    def want(self, n, ty, exp):
        if ty != exp:
            fail(n, f"expected {exp}, got {ty}")

    def attr(self, n, vt, vty, attr):
        env = self.env
        if vty[0] == 'rec':
            cls = vty[1]
            if (cls, attr) in env.attr_alias:
                return env.attr_alias[(cls, attr)](vt)
            if attr in env.records.get(cls, {}):
                return f"({cls}_{attr} {vt})", env.records[cls][attr]
            if (cls, attr) in env.methods:
                cn, args, ret = env.methods[(cls, attr)]
                if args:
                    fail(n, "method used as attribute")
                return f"({cn} {vt})", ret
        fail(n, f"unknown attribute {attr} on {vty}")

    def call(self, n, loc):
        env = self.env
        f = n.func
        if n.keywords and not (isinstance(f, ast.Attribute)):
            fail(n, "keyword arguments")
        if isinstance(f, ast.Name):
            if f.id in ('max', 'min') and len(n.args) == 2:
                a, aty = self.expr(n.args[0], loc)
                b, bty = self.expr(n.args[1], loc)
                self.want(n, aty, 'Z')
                self.want(n, bty, 'Z')
                return f"(Z.{f.id} {a} {b})", 'Z'
            if f.id == 'range' and len(n.args) == 2:
                a, aty = self.expr(n.args[0], loc)
                b, bty = self.expr(n.args[1], loc)
                self.want(n, aty, 'Z')
                self.want(n, bty, 'Z')
                return f"(zrange {a} {b})", ('list', 'Z')
            if f.id == 'list' and len(n.args) == 1:
                a, aty = self.expr(n.args[0], loc)
                if aty == ('vec',) or aty == ('list', 'Z'):
                    return a, ('list', 'Z')
                fail(n, "list() of non-vector")
            if f.id == 'sorted' and len(n.args) == 1:
                a, aty = self.expr(n.args[0], loc)
                if aty == ('list', 'Z'):
                    return f"(zsort {a})", aty
                fail(n, "sorted() of non-int list")
            if f.id == 'hash' and len(n.args) == 1:
                a = n.args[0]
                if isinstance(a, ast.Tuple) and len(a.elts) == 2:
                    x, xty = self.expr(a.elts[0], loc)
                    y, yty = self.expr(a.elts[1], loc)
                    self.want(n, xty, 'Z')
                    self.want(n, yty, 'Z')
                    return f"(thash ({x}, {y}))", 'Z'
                fail(n, "hash() shape")
            if f.id in env.funcs:
                cn, argtys, ret = env.funcs[f.id]
                args = [self.expr(a, loc) for a in n.args]
                return "(" + " ".join([cn] + [a for a, _ in args]) + ")", ret
            fail(n, "unknown function")
        if isinstance(f, ast.Attribute):
            # np.asarray(range(a, b)) -> vec
            if isinstance(f.value, ast.Name) and f.value.id == 'np' and f.attr in ('asarray', 'array') and len(n.args) == 1:
                a, aty = self.expr(n.args[0], loc)
                if aty == ('list', 'Z'):
                    return a, ('vec',)
                fail(n, "np.asarray of non-int list")
            # x.__hash__() / x.__eq__(y)
            vt, vty = self.expr(f.value, loc)
            if f.attr == '__hash__' and not n.args:
                if vty == 'string':
                    return f"(shash {vt})", 'Z'
                if vty[0] == 'rec' and (vty[1], '__hash__') in env.methods:
                    return f"({env.methods[(vty[1], '__hash__')][0]} {vt})", 'Z'
                fail(n, "__hash__ receiver")
            if f.attr == '__eq__' and len(n.args) == 1:
                b, bty = self.expr(n.args[0], loc)
                if bty != vty:
                    fail(n, "__eq__ on different types")
                return f"({env.eqb(vty)} {vt} {b})", 'bool'
            if vty[0] == 'rec' and (vty[1], f.attr) in env.methods:
                cn, argtys, ret = env.methods[(vty[1], f.attr)]
                args = [self.expr(a, loc) for a in n.args] + [self.expr(k.value, loc) for k in n.keywords]
                if len(args) != len(argtys):
                    fail(n, "arity")
                for (a, aty), ety in zip(args, argtys):
                    if aty != ety:
                        fail(n, f"argument type {aty} vs {ety}")
                return "(" + " ".join([cn, vt] + [a for a, _ in args]) + ")", ret
            fail(n, "method call not supported")
        fail(n, "call shape")

    # ---------------------------------------------------------------- statements
    def body(self, stmts, loc, ret_ty, typed_other=None):
        """Translate a statement list that always returns.  typed_other = (name, clsnames): isinstance guards on it are
        discharged by typing (the model is typed)."""
        if not stmts:
            raise TranslateError("function body falls off the end")
        s, rest = stmts[0], stmts[1:]
        if isinstance(s, ast.Expr) and isinstance(s.value, ast.Constant) and isinstance(s.value.value, str):
            return self.body(rest, loc, ret_ty, typed_other)
        if isinstance(s, ast.Return):
            if s.value is None:
                fail(s, "bare return")
            t, ty = self.expr(s.value, loc)
            ty = self.unify(s, ty, ret_ty)
            return t
        if isinstance(s, (ast.AnnAssign, ast.Assign)):
            tgt = s.target if isinstance(s, ast.AnnAssign) else (s.targets[0] if len(s.targets) == 1 else None)
            if not isinstance(tgt, ast.Name) or s.value is None:
                fail(s, "assignment shape")
            t, ty = self.expr(s.value, loc)
            loc2 = dict(loc)
            loc2[tgt.id] = (tgt.id, ty)
            return f"let {tgt.id} := {t} in\n  " + self.body(rest, loc2, ret_ty, typed_other)
        if isinstance(s, ast.If):
            g = self.isinstance_guard(s.test, typed_other)
            if g == 'pos':      # if isinstance(other, T): <body>  ; rest is the untyped fallback -> dropped
                if s.orelse:
                    fail(s, "isinstance guard with else")
                return self.body(s.body, loc, ret_ty, typed_other)
            if g == 'neg':      # if not isinstance(other, T): return ...   -> dropped
                if s.orelse:
                    fail(s, "isinstance guard with else")
                return self.body(rest, loc, ret_ty, typed_other)
            c, cty = self.expr(s.test, loc)
            self.want(s, cty, 'bool')
            then = self.body(s.body, loc, ret_ty, typed_other)
            els = self.body(s.orelse if s.orelse else rest, loc, ret_ty, typed_other)
            if s.orelse and rest:
                fail(s, "code after if/else")
            return f"if {c} then {then}\n  else {els}"
        fail(s, "statement shape not supported")

    def unify(self, n, ty, ret_ty):
        if ty == ret_ty:
            return ty
        if ty == ('list', '?') and ret_ty[0] == 'list':
            return ret_ty
        if ty == ('vec',) and ret_ty == ('list', 'Z'):
            return ret_ty
        fail(n, f"return type {ty} vs {ret_ty}")

    def isinstance_guard(self, test, typed_other):
        if typed_other is None:
            return None
        name, classes = typed_other
        neg = False
        if isinstance(test, ast.UnaryOp) and isinstance(test.op, ast.Not):
            neg, test = True, test.operand
        if (isinstance(test, ast.Call) and isinstance(test.func, ast.Name) and test.func.id == 'isinstance'
                and len(test.args) == 2 and isinstance(test.args[0], ast.Name) and test.args[0].id == name
                and isinstance(test.args[1], ast.Name) and test.args[1].id in classes):
            return 'neg' if neg else 'pos'
        return None


def translate_method(env, cls_name, fn, arg_types, ret_ty, coqname=None, typed_other=None):
    """Translate method `fn` of record class `cls_name`; registers it in env.methods. Returns Coq text."""
    tr = FnTranslator(env, cls_name)
    args = [a.arg for a in fn.args.args]
    if args[0] != 'self' or len(args) - 1 != len(arg_types):
        fail(fn, "signature")
    loc = {'self': ('self', ('rec', cls_name))}
    for a, t in zip(args[1:], arg_types):
        loc[a] = (a, t)
    coqname = coqname or f"{cls_name}_{fn.name.strip('_') if fn.name.startswith('__') else fn.name}"
    body = tr.body(fn.body, loc, ret_ty, typed_other)
    env.methods[(cls_name, fn.name)] = (coqname, arg_types, ret_ty)
    params = f"(self : {cls_name})" + "".join(f" ({a} : {coq_type(t)})" for a, t in zip(args[1:], arg_types))
    return f"Definition {coqname} {params} : {coq_type(ret_ty)} :=\n  {body}.\n"


def coq_record(name, fields):
    fs = "; ".join(f"{name}_{f} : {coq_type(t)}" for f, t in fields.items())
    return f"Record {name} := Mk{name} {{ {fs} }}.\n"


def dataclass_fields(cls):
    """Annotated fields of a @dataclass in order: [(name, annotation-source)]"""
    out = []
    for s in cls.body:
        if isinstance(s, ast.AnnAssign) and isinstance(s.target, ast.Name):
            out.append((s.target.id, ast.unparse(s.annotation), s.value))
    return out
