#!/usr/bin/env python3
"""Unit cases for gen_flags.add_dispatch (the dispatch table of IDeclarativeCircuit.add, Gen/Flags.v (j)).
Run: python3 tools/translate/tests/test_add_dispatch.py"""
import ast, os, sys
sys.path.insert(0, os.path.join(os.path.dirname(os.path.abspath(__file__)), '..'))
import gen_flags
from pycoq import TranslateError

HEAD = "class IDeclarativeCircuit:\n    def add(self, {a}):\n        \"\"\"doc\"\"\"\n"
ROWS = [('IDeclarativeCircuit', 'add_declarative_circuit', 'circuit'), ('ICircuitCompositeOperation', 'add_sub_circuit', 'operation'),
        ('ICircuitOperation', 'add_operation', 'operation')]


def src(rows=ROWS, a='operation', kw='if', tail='        raise NotImplementedError("x")\n'):
    s = HEAD.format(a=a)
    for i, (c, m, k) in enumerate(rows):
        s += f"        {'if' if i == 0 else kw} isinstance({a}, {c}):\n            return self.{m}({k}={a})\n"
    return s + tail


EXPECT = [(c, m) for c, m, _ in ROWS]
fails = 0


def check(name, text, want):
    global fails
    try:
        got = gen_flags.add_dispatch(ast.parse(text))
    except TranslateError:
        got = 'raises'
    if got != want:
        fails += 1
        print('FAIL', name, got)


check('as written', src(), EXPECT)
check('elif chain', src(kw='elif'), EXPECT)
check('renamed argument', src(a='op'), EXPECT)
check('final raise under else', src(tail='        else:\n            raise NotImplementedError("x")\n'), EXPECT)
check('operation test first (seeds C07-5, C05-6)', src(rows=[ROWS[0], ROWS[2], ROWS[1]]), [EXPECT[0], EXPECT[2], EXPECT[1]])
check('no final raise', src(tail='        return None\n'), 'raises')
check('test on another name', src().replace('isinstance(operation, ICircuitOperation)', 'isinstance(self, ICircuitOperation)'), 'raises')
check('extra statement', src().replace('        if isinstance(operation, ICircuitComposite', '        log(operation)\n        if isinstance(operation, ICircuitComposite'), 'raises')
print('add_dispatch cases:', 8 - fails, 'of 8 ok')
sys.exit(1 if fails else 0)
