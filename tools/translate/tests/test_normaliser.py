import ast, os, sys, textwrap
sys.path.insert(0, os.path.dirname(os.path.dirname(os.path.abspath(__file__))))
from pycoq import *

def N(src, cls=False, **kw):
    mod = ast.parse(textwrap.dedent(src))
    if cls:
        c = mod.body[-1]; fn = [x for x in c.body if isinstance(x, ast.FunctionDef) and x.name == 'f'][0]
        out = norm_function(fn, module=mod, cls=c, **kw)
    else:
        fn = [x for x in mod.body if isinstance(x, ast.FunctionDef) and x.name == 'f'][0]
        out = norm_function(fn, module=mod, **kw)
    return "\n".join(ast.unparse(s) for s in out.body)

def check(name, src, want, **kw):
    got = N(src, **kw)
    ok = got == textwrap.dedent(want).strip()
    print(('ok   ' if ok else 'FAIL ') + name)
    if not ok:
        print('   got:\n' + textwrap.indent(got, '      '))

# ---- N4
check('inline adjacent', "def f():\n x = g()\n return h(a, x)", "return h(a, g())")
check('no reorder', "def f():\n x = g()\n y = k()\n return h(y, x)", "x = g()\nreturn h(k(), x)")
check('order kept', "def f():\n x = g()\n y = k()\n return h(x, y)", "return h(g(), k())")
check('not under and', "def f():\n x = g()\n return a and x", "x = g()\nreturn a and x")
check('first of and ok', "def f():\n x = g()\n return x and a", "return g() and a")
check('not in ifexp branch', "def f():\n x = g()\n return x if c else 1", "x = g()\nreturn x if c else 1")
check('not in comp', "def f():\n x = g()\n return [x for i in y]", "x = g()\nreturn [x for i in y]")
check('not in lambda', "def f():\n x = g()\n return lambda: x", "x = g()\nreturn lambda: x")
check('two uses', "def f():\n x = g()\n return h(x, x)", "x = g()\nreturn h(x, x)")
check('not adjacent', "def f():\n x = g()\n k()\n return h(x)", "x = g()\nk()\nreturn h(x)")
check('use in loop', "def f():\n x = g()\n for i in y:\n  i.a = x", "x = g()\nfor i in y:\n    i.a = x")
check('param', "def f(x):\n x = g()\n return h(x)", "x = g()\nreturn h(x)")
check('rebinding', "def f():\n x = g()\n x = h(x)\n return x", "x = g()\nx = h(x)\nreturn x")
check('impure before', "def f():\n x = g()\n return h(k(), x)", "x = g()\nreturn h(k(), x)")
check('star args', "def f():\n x = g()\n return h(*a, x)", "x = g()\nreturn h(*a, x)")
check('closure', "def f():\n def q():\n  return x\n x = g()\n return h(x)", "def q():\n    return x\nx = g()\nreturn h(x)")
check('global', "def f():\n global x\n x = g()\n return h(x)", "global x\nx = g()\nreturn h(x)")
check('ann', "def f():\n x: int = g()\n return h(x)", "return h(g())")
check('super', "def f(self):\n t = [A(1)]\n super().__init__(a=t, b=[B()])", "super().__init__(a=[A(1)], b=[B()])")
check('subscript target', "def f():\n x = g()\n a[k()] = x", "a[k()] = g()")  # value is evaluated before the target in an assignment
# ---- N5
check('accumulate', "def f(it):\n r = []\n for x in it:\n  r.append(x + 1)\n return r", "return [x + 1 for x in it]")
check('accumulate continue', "def f(it):\n r: List[int] = []\n q = 1\n for x in it:\n  if x is None:\n   continue\n  r.append(x)\n return g(r)", "q = 1\nreturn g([x for x in it if x is not None])")
check('acc multi-use', "def f(it):\n r = []\n for x in it:\n  r.append(x)\n k(r)\n return r", "r = [x for x in it]\nk(r)\nreturn r")
check('acc loopvar leaks', "def f(it):\n r = []\n for x in it:\n  r.append(x)\n return r, x", "r = []\nfor x in it:\n    r.append(x)\nreturn (r, x)")
check('acc self ref', "def f(it):\n r = []\n for x in it:\n  r.append(len(r))\n return r", "r = []\nfor x in it:\n    r.append(len(r))\nreturn r")
check('acc used between', "def f(it):\n r = []\n k(r)\n for x in it:\n  r.append(x)\n return r", "r = []\nk(r)\nfor x in it:\n    r.append(x)\nreturn r")
check('acc extra stmt', "def f(it):\n r = []\n for x in it:\n  k(x)\n  r.append(x)\n return r", "r = []\nfor x in it:\n    k(x)\n    r.append(x)\nreturn r")
check('acc else', "def f(it):\n r = []\n for x in it:\n  r.append(x)\n else:\n  k()\n return r", "r = []\nfor x in it:\n    r.append(x)\nelse:\n    k()\nreturn r")
check('acc try', "def f(it):\n r = []\n try:\n  for x in it:\n   r.append(x)\n except E:\n  return r\n return r", "r = []\ntry:\n    for x in it:\n        r.append(x)\nexcept E:\n    return r\nreturn r")
check('acc iter mentions r', "def f(it):\n r = []\n for x in g(r):\n  r.append(x)\n return r", "r = []\nfor x in g(r):\n    r.append(x)\nreturn r")
# ---- N2/N3
check('guard or', "def f(s):\n if s.a is None or s.b is None:\n  return Y\n m = s.a\n return X(m)", "if s.a is not None and s.b is not None:\n    m = s.a\n    return X(m)\nreturn Y", single_use=False)
check('guard not-and', "def f(s):\n if not (s.a is not None and s.b is not None):\n  return Y\n return X", "if s.a is not None and s.b is not None:\n    return X\nreturn Y")
check('guard and untouched', "def f(s):\n if s.a is None and s.b is None:\n  return Y\n return X", "if s.a is None and s.b is None:\n    return Y\nreturn X")
check('guard atom untouched', "def f(s):\n if s.a is None:\n  return Y\n return X", "if s.a is None:\n    return Y\nreturn X")
check('guard falls through', "def f(s):\n if a or b:\n  k()\n return X", "if a or b:\n    k()\nreturn X")
check('guard rest falls', "def f(s):\n if a or b:\n  return Y\n k()", "if a or b:\n    return Y\nk()")
check('guard eq wrapped', "def f(s):\n if a == 1 or b:\n  return Y\n return X", "if not a == 1 and (not b):\n    return X\nreturn Y")
# ---- N6
check('helper expr', "def _c(v):\n return min(max(v, 0.0), 1.0)\ndef f(p):\n p = _c(p)\n return p + _c(p * 2)", "p = min(max(p, 0.0), 1.0)\nreturn p + min(max(p * 2, 0.0), 1.0)", single_use=False)
check('helper capture', "def _c(v):\n return min(v, 1)\ndef f(p):\n min = 3\n return _c(p)", "min = 3\nreturn _c(p)")
check('helper impure arg', "def _c(v):\n return v + v\ndef f(p):\n return _c(g(p))", "return _c(g(p))")
check('helper public', "def c(v):\n return v + 1\ndef f(p):\n return c(p)", "return c(p)")
check('helper two returns', "def _c(v):\n if v:\n  return 1\n return 2\ndef f(p):\n return _c(p)", "return _c(p)")
check('helper recursive', "def _c(v):\n return _c(v)\ndef f(p):\n return _c(p)", "return _c(p)")
check('helper redefined', "def _c(v):\n return v\ndef _c(v):\n return v + 1\ndef f(p):\n return _c(p)", "return _c(p)")
check('helper kw', "def _c(a, b):\n return a - b\ndef f(p, q):\n return _c(b=p, a=q)", "return q - p")
check('helper missing arg', "def _c(a, b):\n return a - b\ndef f(p, q):\n return _c(p)", "return _c(p)")
check('method stmts', "class C:\n def _m(self, q, d):\n  ns = s.get(q)\n  a, b = self.e(t=d * 0.5, t1=ns.t1)\n  return CI(self.n, [q], [a, b])\n def f(self, qs, d):\n  for q in qs:\n   ni = self._m(q=q, d=d)\n   k(ni)", "for q in qs:\n    ns = s.get(q)\n    a, b = self.e(t=d * 0.5, t1=ns.t1)\n    ni = CI(self.n, [q], [a, b])\n    k(ni)", cls=True, single_use=False)
check('method local clash', "class C:\n def _m(self, q):\n  ns = s.get(q)\n  return ns.a\n def f(self, q):\n  ns = 1\n  x = self._m(q)\n  return x + ns", "ns = 1\nx = self._m(q)\nreturn x + ns", cls=True, single_use=False)
check('method overridden in module', "class D:\n def _m(self, q):\n  return 2\nclass C:\n def _m(self, q):\n  return q\n def f(self, q):\n  return self._m(q)", "return self._m(q)", cls=True)
check('method stmts attr arg', "class C:\n def _m(self, q):\n  z = k(q)\n  return z\n def f(self):\n  x = self._m(self.a)\n  return x", "x = self._m(self.a)\nreturn x", cls=True, single_use=False)
check('method nested call stmts', "class C:\n def _m(self, q):\n  z = k(q)\n  return z\n def f(self, q):\n  return g(self._m(q))", "return g(self._m(q))", cls=True)
# ---- round 2 ------------------------------------------------------------------------------------------------------------
OFF = dict(annotations=False, guards=False, accumulate=False, single_use=False, helpers=False)
# ---- N7 else after a leaving branch
check('else flattened', "def f(s):\n if s.c >= s.m:\n  w()\n  return False\n else:\n  s.c += 1\n  return True", "if s.c >= s.m:\n    w()\n    return False\ns.c += 1\nreturn True", **OFF)
check('elif chain', "def f(s, d):\n if s.r is None:\n  return 0.0\n elif s.t == A:\n  return 1\n elif s.t == B:\n  return 2\n else:\n  raise E()", "if s.r is None:\n    return 0.0\nif s.t == A:\n    return 1\nif s.t == B:\n    return 2\nraise E()", **OFF)
check('else kept when body falls through', "def f(v):\n if v == A:\n  x = 1\n elif v == B:\n  x = 2\n else:\n  raise E()\n return x", "if v == A:\n    x = 1\nelif v == B:\n    x = 2\nelse:\n    raise E()\nreturn x", **OFF)
check('else flattened in loop', "def f(l):\n for x in l:\n  if x:\n   return 1\n  else:\n   k(x)\n return 0", "for x in l:\n    if x:\n        return 1\n    k(x)\nreturn 0", **OFF)
# ---- N8 guard on a disjunction
check('or guard split', "def f(s, e):\n if e not in s.q or not s.h:\n  return []\n return [s.a]", "if e not in s.q:\n    return []\nif not s.h:\n    return []\nreturn [s.a]", split_or=True, **OFF)
check('or guard not split when body falls through', "def f(a, b):\n if a or b:\n  k()\n return 1", "if a or b:\n    k()\nreturn 1", split_or=True, **OFF)
check('or with else: else flattened first, then split', "def f(a, b):\n if a or b:\n  return 0\n else:\n  return 1", "if a:\n    return 0\nif b:\n    return 0\nreturn 1", split_or=True, **OFF)
check('and guard untouched by split', "def f(a, b):\n if a and b:\n  return 0\n return 1", "if a and b:\n    return 0\nreturn 1", split_or=True, **OFF)
check('or split is off by default', "def f(a, b):\n if a or b:\n  return 0\n return 1", "if a or b:\n    return 0\nreturn 1", **OFF)
# ---- N9 hoisted number
NUM = dict(OFF, numeric_locals=True)
check('hoisted number into loop', "def f(self, qs):\n for b in bs:\n  m: float = g(b)\n  h: float = m * 0.5\n  for q in qs:\n   k(t=h, q=q)", "for b in bs:\n    m: float = g(b)\n    for q in qs:\n        k(t=m * 0.5, q=q)", **NUM)
check('hoisted: operand not annotated as number', "def f(self, qs):\n m = g()\n h = m * 0.5\n for q in qs:\n  k(h)", "m = g()\nh = m * 0.5\nfor q in qs:\n    k(h)", **NUM)
check('hoisted: numeric parameter', "def f(self, m: float, qs):\n h = m * 0.5\n for q in qs:\n  k(h)", "for q in qs:\n    k(m * 0.5)", **NUM)
check('hoisted: operand rebound in between', "def f(self, m: float, qs):\n h = m * 2\n for q in qs:\n  m = q\n  k(h)", "h = m * 2\nfor q in qs:\n    m = q\n    k(h)", **NUM)
check('hoisted: operand bound twice', "def f(self, qs):\n m: float = 1.0\n h = m * 2\n for q in qs:\n  k(h)\n m = 3", "m: float = 1.0\nh = m * 2\nfor q in qs:\n    k(h)\nm = 3", **NUM)
check('hoisted: division refused', "def f(self, m: float, qs):\n h = m / 2\n for q in qs:\n  k(h)", "h = m / 2\nfor q in qs:\n    k(h)", **NUM)
check('hoisted: call refused', "def f(self, m: float, qs):\n h = g(m)\n for q in qs:\n  k(h)", "h = g(m)\nfor q in qs:\n    k(h)", **NUM)
check('hoisted: two uses refused', "def f(self, m: float, qs):\n h = m * 2\n for q in qs:\n  k(h, h)", "h = m * 2\nfor q in qs:\n    k(h, h)", **NUM)
check('hoisted: use in lambda refused', "def f(self, m: float):\n h = m * 2\n return lambda: h", "h = m * 2\nreturn lambda: h", **NUM)
check('hoisted: use in comprehension refused', "def f(self, m: float, qs):\n h = m * 2\n return [h for q in qs]", "h = m * 2\nreturn [h for q in qs]", **NUM)
check('hoisted: attribute operand refused', "def f(self, qs):\n h = self.m * 2\n for q in qs:\n  k(h)", "h = self.m * 2\nfor q in qs:\n    k(h)", **NUM)
check('hoisted: off by default', "def f(self, m: float, qs):\n h = m * 0.5\n for q in qs:\n  k(h)", "h = m * 0.5\nfor q in qs:\n    k(h)", **OFF)
# ---- N4 / N5 interplay, displays are trivially pure, `r += [e]`
check('temporary in accumulate loop', "def f(self, i, s):\n r: List[X] = []\n ts: List[int] = e(i)\n for t in ts:\n  a: float = s.g(t).ae\n  r.append(CI(self.n, [t], [a]))\n return r", "ts = e(i)\nreturn [CI(self.n, [t], [s.g(t).ae]) for t in ts]")
check('display before use is pure', "def f(a):\n x = g()\n return h([a], (a, 1), x)", "return h([a], (a, 1), g())")
check('display with call before use is not', "def f(a):\n x = g()\n return h([k()], x)", "x = g()\nreturn h([k()], x)")
check('accumulate with +=', "def f(it):\n r = []\n for x in it:\n  r += [x + 1]\n return r", "return [x + 1 for x in it]")
check('accumulate with += of two', "def f(it):\n r = []\n for x in it:\n  r += [x, x]\n return r", "r = []\nfor x in it:\n    r += [x, x]\nreturn r")
# ---- N6 private method in integer expressions (expression form, attribute argument)
check('method expr attr arg', "class C:\n def _lb(self, i: int) -> int:\n  return i - (self.last + 1)\n def f(self):\n  m: int = self._lb(self.main)\n  s: int = self._lb(self.sec)\n  return g(m, s)", "m: int = self.main - (self.last + 1)\ns: int = self.sec - (self.last + 1)\nreturn g(m, s)", cls=True, annotations=False, single_use=False)

