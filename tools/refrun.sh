#!/bin/bash
# tools/refrun.sh <diff-file> <CHECK> [<CHECK> ...]
# Applies a (supposedly behaviour-preserving) change to a scratch worktree of /repo HEAD, runs the given checks against it in an
# isolated copy of /verif and prints one line per check.  Used to measure false alarms; removes the worktree afterwards.
DIFF="$1"; shift
WT=$(mktemp -d /tmp/rf_XXXXXX); rmdir "$WT"
git -C /repo worktree add -q "$WT" HEAD || exit 2
(cd "$WT" && git apply "$DIFF") || { echo "PATCH DOES NOT APPLY: $DIFF"; git -C /repo worktree remove --force "$WT"; exit 2; }
T=$(cd "$WT" && PYTHONPATH="$WT/src" /venv/bin/python -m pytest -q -p no:cacheprovider 2>&1 | tail -1)
echo "[$DIFF] suite: $T"
/verif/tools/seedrun.sh "$WT" "$@" 2>&1 | grep -E "^(===|OK|VIOLATION|KNOWN|  no longer)" | cut -c1-330
git -C /repo worktree remove --force "$WT"
