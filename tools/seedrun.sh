#!/bin/bash
# tools/seedrun.sh <repo-worktree-with-change> <CHECK> [<CHECK> ...]
# Runs checks against a modified copy of the library in an ISOLATED copy of /verif (so that concurrent work in /verif is not
# disturbed).  Prints each check's verdict lines.  Used only for testing the machinery against seeded changes.
WT="$1"; shift
D=$(mktemp -d /tmp/vs_XXXXXX)
rsync -a --exclude .git --exclude 'build/cases' --exclude replay --exclude evidence /verif/ "$D/"
mkdir -p "$D/replay" "$D/evidence"
cd "$D"
for c in "$@"; do
  echo "=== $c against $WT"
  QCE_REPO="$WT" timeout 1800 ./check "$c" 2>&1 | grep -E "^(VIOLATION|OK|KNOWN|  no longer)" | cut -c1-400
  f=$(ls -t replay/$c-*.json 2>/dev/null | head -1)
  if [ -n "$f" ]; then python3 - "$f" <<'PY'
import json,sys
r=json.load(open(sys.argv[1]))
print('   replay input:', json.dumps(r.get('input'))[:700] if r.get('input') is not None else json.dumps(r.get('no_longer_checks'))[:500])
PY
  fi
done
cd /; rm -rf "$D"
