#!/usr/bin/env python3
"""Regenerate MANIFEST.json from the per-property harness modules (harness/cXX.py).  Properties without a module
are listed under not_applicable with the reason recorded in NOT_YET."""
import json, os, sys, importlib
ROOT = os.path.dirname(os.path.dirname(os.path.abspath(__file__)))
sys.path.insert(0, f"{ROOT}/harness")
ALL = [f"C{i:02d}" for i in range(1, 20)]
NOT_APPLICABLE = {}   # property -> reason, for properties the technique genuinely cannot decide (none so far)

READY = [l.strip() for l in open(f"{ROOT}/harness/READY") if l.strip() and not l.startswith('#')]   # accepted checks only
checks, na = [], []
for pid in ALL:
    if pid not in READY or not os.path.exists(f"{ROOT}/harness/{pid.lower()}.py"):
        na.append({'property_id': pid, 'reason': NOT_APPLICABLE.get(pid, 'not claimed in this commit: model/theorems/correspondence for it are not built yet (construction order in DESIGN.md section 10)')})
        continue
    P = importlib.import_module(pid.lower())
    checks.append({
        'property_id': pid,
        'quick_cmd': f"./check {pid} --tier quick",
        'thorough_cmd': f"./check {pid} --tier thorough",
        'evidence_file': f"/verif/evidence/{pid}.json",
        'replay_cmd_template': f"./check {pid} --replay {{path}}",
        'engine': 'coq-proof+correspondence',
        'level_claimed': {'category': 'proof', 'text': P.LEVEL_TEXT, 'design_ref': f"DESIGN.md section 7, {pid}"},
        'level_note': P.LEVEL_NOTE,
        'technique': P.TECHNIQUE,
    })
m = {
    'version': 1,
    'setup_cmd': './setup.sh',
    'hooks': {'guard': 'QCE_CIRCUIT_VERIF', 'enable': 'no source hooks: the drivers export QCE_CIRCUIT_VERIF=1 but nothing in /repo reads it; all observation is through public attributes and monkey-patches inside the harness driver process',
              'baseline_off_cmd': 'cd /repo && /venv/bin/python -m pytest -ra -q -p no:cacheprovider --timeout=900 --continue-on-collection-errors',
              'source_commits': [], 'add_only': True},
    'engines': [{'name': 'coq-proof+correspondence', 'path': 'check', 'serves_properties': [c['property_id'] for c in checks],
                 'kind_free_text': 'Coq 8.16 theorems about an executable Gallina model (partly regenerated from the Python source by tools/translate on every run) + correspondence run: implementation outputs are judged inside Coq by vm_compute against the model (agree) and against the specification predicate (spec_ok)'}],
    'checks': checks,
    'notes': 'See DESIGN.md. ./check <ID> --tier quick|thorough; VERIF_SEED selects the PRNG seed. known_findings.json lists recorded findings.',
    'not_applicable': na,
}
json.dump(m, open(f"{ROOT}/MANIFEST.json", 'w'), indent=1)
print(f"{len(checks)} checks, {len(na)} not claimed")
